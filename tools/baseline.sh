#!/bin/bash
# runs the pinned test-suite with the guard OFF and compares with BASELINE.json's stable_pass list
out=${1:-/tmp/baseline_run}
mkdir -p $out
cd /repo && env -u CARDILLOPROJECT_CARDILLO_VERIF /venv/bin/python -m pytest -ra -q -p no:cacheprovider --timeout=900 --continue-on-collection-errors -n 6 --junitxml=$out/junit.xml > $out/log.txt 2>&1
/venv/bin/python - $out/junit.xml <<'PY'
import sys, json, xml.etree.ElementTree as ET
base = set(json.load(open('/root/.vp/BASELINE.json'))['stable_pass'])
passed = set()
for tc in ET.parse(sys.argv[1]).getroot().iter('testcase'):
    name = tc.get('classname') + '::' + tc.get('name')
    if not any(c.tag in ('failure', 'error', 'skipped') for c in tc):
        passed.add(name)
missing = sorted(base - passed)
print(f"baseline: {len(base & passed)}/{len(base)} stable tests pass; missing: {missing}")
PY
