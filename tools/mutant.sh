#!/bin/bash
# usage: tools/mutant.sh <PROP> <file-relative-to-repo> <python-regex-old> <new> [check args]
# applies one textual mutation to a scratch copy of /repo and runs the quick check against it
set -e
P=$1; F=$2; OLD=$3; NEW=$4; shift 4
S=$(mktemp -d /tmp/mut-XXXXXX)
rsync -a --exclude .git /repo/ $S/
/venv/bin/python - "$S/$F" "$OLD" "$NEW" <<'PY'
import sys
p, old, new = sys.argv[1:4]
s = open(p).read()
assert s.count(old) >= 1, f"pattern not found: {old}"
open(p, "w").write(s.replace(old, new, 1))
PY
cd /verif
set +e
VERIF_REPO=$S ./check $P "$@" | grep -E "VIOLATION|INCONCLUSIVE|held|violated|KNOWN" | cut -c1-300
rc=${PIPESTATUS[0]}
rm -rf $S
echo "mutant exit=$rc"
