#!/bin/bash
# usage: tools/seedcheck.sh <ID> <A|B> [extra check ids...]
# confirms a seeded change produced by a sub-agent (demo passes on the pristine worktree, fails with the patch,
# the pinned test-suite still passes) and runs the property's quick check against the patched worktree.
ID=$1; X=$2; shift 2
WT=${SEEDWT:-/tmp/seed}/$ID; SRC=${SEEDOUT:-/tmp/seed/out}/$ID/$X; LOG=$SRC/confirm.log
cd $WT || exit 9
git -C $WT checkout -q -- . ; git -C $WT clean -fdq
{
echo "== $ID/$X $(date -u +%FT%TZ)"
( cd $WT && PYTHONPATH=$WT timeout 900 /venv/bin/python $SRC/demo.py > $SRC/demo_pristine.out 2>&1 ); d0=$?
git -C $WT apply $SRC/patch.diff || { echo "patch does not apply"; exit 8; }
( cd $WT && PYTHONPATH=$WT timeout 900 /venv/bin/python $SRC/demo.py > $SRC/demo_patched.out 2>&1 ); d1=$?
echo "demo pristine exit=$d0  demo patched exit=$d1"
if [ "$SKIP_TESTS" != "1" ]; then
  ( cd $WT && PYTHONPATH=$WT env -u CARDILLOPROJECT_CARDILLO_VERIF /venv/bin/python -m pytest -q -p no:cacheprovider --timeout=900 -n ${NTEST:-6} 2>&1 | tail -2 ) > $SRC/tests.out
  echo "tests: $(tail -1 $SRC/tests.out)"
fi
for C in $ID "$@"; do
  ( cd /verif && VERIF_REPO=$WT VERIF_WORKERS=${VERIF_WORKERS:-8} ./check $C --tier ${TIER:-quick} > $SRC/check_$C.out 2>&1 ); rc=$?
  echo "check $C exit=$rc : $(grep -c '^VIOLATION' $SRC/check_$C.out) violation group(s); $(grep -E '^(VIOLATION|INCONCLUSIVE)' $SRC/check_$C.out | head -3 | cut -c1-260)"
done
git -C $WT checkout -q -- . ; git -C $WT clean -fdq
} 2>&1 | tee -a $LOG
