#!/venv/bin/python
"""Collects the confirmed seeded changes from the sub-agents' output directory into /verif/seeded/<id>/
(patch.diff, demo.py, notes.md, meta.json). Usage: tools/collect_seeds.py /tmp/seed/out /tmp/seed/needs.json"""
import os, re, sys, json, shutil
src, needs = sys.argv[1], json.load(open(sys.argv[2]))
RENAME = dict(zip("AB", sys.argv[3])) if len(sys.argv) > 3 else {"A": "A", "B": "B"}     # e.g. "CD": second round -> <id>-C, <id>-D
ROUND = sys.argv[4] if len(sys.argv) > 4 else "1"
V = os.path.dirname(os.path.dirname(os.path.abspath(__file__)))
rows = []
for key in sorted(needs):
    pid, x = key.split("-")
    d = os.path.join(src, pid, x)
    if not os.path.exists(os.path.join(d, "patch.diff")):
        continue
    key_out = f"{pid}-{RENAME[x]}"
    out = os.path.join(V, "seeded", key_out)
    os.makedirs(out, exist_ok=True)
    for f in ("patch.diff", "demo.py", "notes.md"):
        if os.path.exists(os.path.join(d, f)):
            shutil.copy(os.path.join(d, f), os.path.join(out, f))
    conf = open(os.path.join(d, "confirm.log")).read() if os.path.exists(os.path.join(d, "confirm.log")) else ""
    rec = open(os.path.join(d, "recheck.log")).read() if os.path.exists(os.path.join(d, "recheck.log")) else ""
    m = re.findall(r"demo pristine exit=(\d+)\s+demo patched exit=(\d+)", conf)
    tests = re.findall(r"tests: (.*)", conf)
    first = re.findall(r"check (C\d+) exit=(\d+) : (\d+) violation", conf)
    last = re.findall(r"check (C\d+) exit=(\d+) : (\d+) violation", rec)
    what = re.findall(r"VIOLATION property=\S+ replay=\S+\s+# (.*?) \(\d+ case", rec)
    meta = {
        "id": key_out, "round": ROUND, "property": pid, "origin": "independent sub-agent given only the property text and a scratch worktree",
        "change": needs[key][0], "needs_to_manifest": needs[key][1],
        "files_touched": sorted(set(re.findall(r"^diff --git a/(\S+)", open(os.path.join(d, "patch.diff")).read(), re.M))),
        "confirmed": {
            "demo_exit_on_pristine_tree": int(m[-1][0]) if m else None,
            "demo_exit_with_change": int(m[-1][1]) if m else None,
            "pinned_test_suite_with_change": tests[-1].strip() if tests else None,
            "how": "tools/seedcheck.sh: scratch worktree of /repo HEAD; demo on the clean worktree, git apply patch.diff, demo again, pinned suite (pytest -n 6, guard off), quick check with VERIF_REPO=<worktree>, git checkout -- .",
        },
        "quick_check_when_first_run": {"check": first[0][0], "exit": int(first[0][1])} if first else None,
        "quick_check_now": {"check": last[-1][0], "exit": int(last[-1][1]), "violation_groups": int(last[-1][2]), "first_report": what[0][:200] if what else None} if last else None,
    }
    json.dump(meta, open(os.path.join(out, "meta.json"), "w"), indent=1)
    rows.append((key_out, meta["quick_check_when_first_run"], meta["quick_check_now"]))
for r in rows:
    print(r[0], "first:", r[1] and r[1]["exit"], "now:", r[2] and r[2]["exit"], ((r[2] or {}).get("first_report") or "")[:90])
