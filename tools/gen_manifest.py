#!/venv/bin/python
"""Regenerates MANIFEST.json from the property modules (each has a META dict)."""
import os, sys, json, importlib, glob
V = os.path.dirname(os.path.dirname(os.path.abspath(__file__)))
sys.path.insert(0, V)
from vlib import env
env.setup()
props = [json.loads(l) for l in open(os.path.join(V, "properties.jsonl"))]
checks, na = [], []
for p in props:
    pid = p["id"]
    path = os.path.join(V, "vlib", "props", pid.lower() + ".py")
    ready = set(open(os.path.join(V, "tools", "ready.txt")).read().split())
    if not os.path.exists(path) or pid not in ready:
        na.append({"property_id": pid, "reason": "check not built yet in this round (planned, see DESIGN.md section 3); runtime monitoring applies"})
        continue
    mod = importlib.import_module(f"vlib.props.{pid.lower()}")
    M = getattr(mod, "META", {})
    checks.append({
        "property_id": pid,
        "quick_cmd": f"./check {pid} --tier quick",
        "thorough_cmd": f"./check {pid} --tier thorough",
        "evidence_file": f"/verif/evidence/{pid}.json",
        "replay_cmd_template": f"./check {pid} --replay {{path}}",
        "engine": "vlib",
        "level_claimed": {"category": mod.LEVEL, "text": M.get("level_text", ""), "design_ref": f"DESIGN.md section 3, {pid}"},
        "level_note": M.get("level_note", "; ".join(getattr(mod, "ASSUMPTIONS", []))),
        "technique": M.get("technique", "runtime monitoring of the real functions with a reference-model oracle"),
    })
man = {
    "version": 1,
    "setup_cmd": "/venv/bin/python -c \"import sys; sys.path.insert(0,'/verif'); from vlib import env; env.ensure_deps()\"",
    "hooks": {
        "guard": "CARDILLOPROJECT_CARDILLO_VERIF",
        "enable": "checks set CARDILLOPROJECT_CARDILLO_VERIF=1 in the environment before importing cardillo from /repo (pure Python: importing the working tree is the build)",
        "baseline_off_cmd": "cd /repo && env -u CARDILLOPROJECT_CARDILLO_VERIF /venv/bin/python -m pytest -ra -q -p no:cacheprovider --timeout=900 --continue-on-collection-errors",
        "source_commits": json.load(open(os.path.join(V, "hooks.json")))["source_commits"] if os.path.exists(os.path.join(V, "hooks.json")) else [],
        "add_only": True,
    },
    "engines": [{"name": "vlib", "path": "/verif/vlib", "serves_properties": [c["property_id"] for c in checks],
                 "kind_free_text": "runtime monitors (return-value contracts, reference models, shadow state, trace checkers, fault injection) around the real cardillo code, sharded over 16 worker processes"}],
    "checks": checks,
    "not_applicable": na,
    "notes": "Exit codes: 0 held on everything explored, 1 VIOLATION, 2 INCONCLUSIVE (deciding monitor not reached / too few decided cases / watchdog). Known findings: /verif/known_findings.json.",
}
json.dump(man, open(os.path.join(V, "MANIFEST.json"), "w"), indent=1)
import jsonschema
jsonschema.validate(man, json.load(open(os.path.join(V, "schemas", "MANIFEST.schema.json"))))
print(f"MANIFEST.json: {len(checks)} checks, {len(na)} not_applicable")
