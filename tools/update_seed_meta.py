#!/venv/bin/python
"""refreshes `quick_check_now` in /verif/seeded/<id>-<X>/meta.json from the recheck logs of a sub-agent output directory.
Usage: tools/update_seed_meta.py /tmp/seed/out AB   (AB -> suffixes A,B; CD; EF; GH)"""
import os, re, sys, json, subprocess
src, ren = sys.argv[1], dict(zip("AB", sys.argv[2]))
V = os.path.dirname(os.path.dirname(os.path.abspath(__file__)))
head = subprocess.run(["git", "-C", V, "rev-parse", "--short", "HEAD"], capture_output=True, text=True).stdout.strip()
n = bad = 0
for pid in sorted(os.listdir(src)):
    for x in "AB":
        rec = os.path.join(src, pid, x, "recheck.log")
        meta = os.path.join(V, "seeded", f"{pid}-{ren[x]}", "meta.json")
        if not (os.path.exists(rec) and os.path.exists(meta)):
            continue
        txt = open(rec).read()
        last = re.findall(r"check (C\d+) exit=(\d+) : (\d+) violation", txt)
        what = re.findall(r"VIOLATION property=\S+ replay=\S+\s+# (.*?) \(\d+ case", txt)
        if not last:
            continue
        m = json.load(open(meta))
        m["quick_check_now"] = {"check": last[-1][0], "exit": int(last[-1][1]), "violation_groups": int(last[-1][2]),
                                "first_report": what[0][:200] if what else None, "checks_at": head}
        json.dump(m, open(meta, "w"), indent=1)
        n += 1; bad += int(last[-1][1]) != 1
print(f"{n} updated, {bad} not caught")
