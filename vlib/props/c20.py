"""C20 Solver results honour the Solution contract."""

import os
import re
import math
import shutil
import inspect
import tempfile
import warnings
from decimal import Decimal
from fractions import Fraction

import numpy as np
from vlib import env, gen
from vlib.oracles import quat_to_mat, random_unit, loguniform

ID = "C20"
LEVEL = "exploration"
RULE = ("each case = one real solver (Moreau, Rattle, BackwardEuler, DualStormerVerlet [LU / MINRES / matrix-free], ScipyIVP, ScipyDAE, "
        "static Newton, Riks) x one small random system (free PointMass / RigidBody with a force; pendulum with FixedDistance / "
        "Spherical / Revolute joint; mass on a compliance-form spring; ball on a Sphere2Plane contact with and without friction "
        "for the nonsmooth solvers; spring-loaded mass with load stepping for the static solvers) x one (t0, t1, dt) from decimal grids "
        "(dt in {0.1, 0.05, 0.02, 0.001}; t1 - t0 = k*dt exactly in decimal, or k*dt minus a fraction of a step; t0 in {0, 1, 0.3, "
        "-0.5, 2.5, ...}; at most 40 steps). The returned Solution is checked against every clause: t[0] == t0, increments == dt, "
        "grid ends at the first grid point at or after t1 (unless truncated), row/width of every stored field, iteration yields the "
        "rows, save/load round trip. distinct = solver + system parameters + (t0, t1, dt); non-trivial = the run returned a Solution "
        "with at least 2 time instants and the system has coordinates")
ASSUMPTIONS = [
    "grid end rule with tolerance 1e-9*dt: last >= t1 - 1e-9 dt and previous point < t1 - 1e-9 dt; a run is 'truncated' iff the solver "
    "emitted a Python warning announcing that it returns the solution up to an earlier time / load step",
    "field widths: q, q_dot: nq; u, u_dot: nu; la_g, P_g, mu_g: nla_g; la_gamma, P_gamma: nla_gamma; la_c: nla_c; la_N, P_N: nla_N; "
    "la_F, P_F: nla_F (dimensions read from the assembled System)",
    "ScipyIVP / ScipyDAE are variable-step integrators reporting on the grid t0 + i*dt: their reported grid is checked like a fixed-step grid",
    "static solvers: Newton's grid is the load-step grid linspace(0, 1, n+1) (t0 = 0, t1 = 1, dt = 1/n); Riks stores the arc-length load "
    "factor, which is not a time grid: only the field / iteration / save-load clauses are decided for Riks",
    "save/load through Solution.save and cardillo.solver.load_solution in a temporary directory that is removed afterwards",
    "exceptions announcing non-convergence (RuntimeError / AssertionError / ValueError) are counted, not judged (C21 covers them)",
]
REQUIRED_MONITORS = ["GRID:start", "GRID:increments", "GRID:end", "FIELDS:shape", "ITER:records", "SAVELOAD:roundtrip"]
META = {
    "level_text": "Exploration: every solver of the package is run on generated small systems and decimal (t0, t1, dt) triples and the returned Solution object is checked by a post-condition monitor (grid start, step, end point; rows and widths of all fields; iterator records; dill save/load round trip). Held on the runs generated, apart from the recorded findings.",
    "level_note": "runs of at most 40 steps; grid end rule with tolerance 1e-9*dt; Riks is excluded from the grid clauses (its t is an arc-length load factor).",
    "technique": "runtime post-condition monitor (contract) on the objects returned by the real solve() methods",
}
CASE_TIMEOUT = 120
WALL_BUDGET = {"quick": 600, "thorough": 3000}

# ---------------------------------------------------------------------------------------------
# findings: one mechanism per solver class (each would be repaired by its own edit)
# ---------------------------------------------------------------------------------------------
ARANGE_KIND = {"Moreau": "closed", "ScipyIVP": "closed", "ScipyDAE": "closed",
               "Rattle": "open", "BackwardEuler": "open", "DualStormerVerlet": "open"}
KF = {
    "Moreau": "Moreau.__init__/arange-grid-extra-step",
    "ScipyIVP": "ScipyIVP.__init__/arange-grid-extra-step",
    "ScipyDAE": "ScipyDAE.__init__/arange-grid-extra-step",
    "Rattle": "Rattle.solve/arange-step-count-extra-step",
    "BackwardEuler": "BackwardEuler.solve/arange-step-count-extra-step",
    "DualStormerVerlet": "DualStormerVerlet.solve/arange-step-count-extra-step",
}
_ARANGE_SRC = {"closed": re.compile(r"np\.arange\(\s*t0\s*,\s*self\.t1\s*\+\s*self\.dt\s*,\s*self\.dt\s*\)"),
               "open": re.compile(r"np\.arange\(\s*self\.t0\s*,\s*self\.t1\s*,\s*self\.dt\s*\)")}


def _kf_arange(solver_name, cls, t, t0, t1, dt):
    """defect model: the solver derives its number of steps from np.arange(t0, t1 + dt, dt) resp. np.arange(t0, t1, dt); when
    (t1 - t0)/dt is an integer k in decimal but the floating-point quotient rounds up, numpy returns one element more, and the run
    ends exactly ONE step beyond the grid point that coincides with t1. Matches only if (i) t1 - t0 is a multiple of dt within
    1e-9 dt, (ii) the returned grid has exactly k + 2 points, ends at t0 + (k+1) dt and its previous point is t1, (iii) the very
    np.arange expression evaluated here has that many elements, (iv) the solver's source still contains that expression."""
    kind = ARANGE_KIND.get(solver_name)
    if kind is None:
        return None
    x = (t1 - t0) / dt
    k = int(round(x))
    if k < 1 or abs(x - k) > 1e-9:
        return None
    if len(t) != k + 2:
        return None
    if abs(t[-1] - (t0 + (k + 1) * dt)) > 1e-9 * dt or abs(t[-2] - t1) > 1e-9 * dt:
        return None
    n_arange = len(np.arange(t0, t1 + dt, dt)) - 1 if kind == "closed" else len(np.arange(t0, t1, dt))
    if n_arange != k + 1:
        return None
    try:
        src = inspect.getsource(cls)
    except Exception:
        return None
    if not _ARANGE_SRC[kind].search(src):
        return None
    return KF[solver_name]


# ---------------------------------------------------------------------------------------------
# cases
# ---------------------------------------------------------------------------------------------
EPS_T = float(np.finfo(float).eps)
KF_ROD_PICKLE = "Solution.save/rod-classes-pickled-by-value"
DYNAMIC = ["Moreau", "Rattle", "BackwardEuler", "DualStormerVerlet:LU", "DualStormerVerlet:MINRES", "DualStormerVerlet:MINRES (matrix free)",
           "ScipyIVP", "ScipyDAE"]
SYSTEMS_SMOOTH = ["free_pm", "free_rb", "pendulum_pm", "pendulum_rb_spherical", "pendulum_rb_revolute", "spring_compliance"]
SYSTEMS_CONTACT = ["ball_frictionless", "ball_friction", "ball_pm"]
DTS = ["0.1", "0.05", "0.02", "0.001"]
T0S = ["0", "1", "0.3", "-0.5", "2.5", "0.7", "10", "-1.2"]

# (solver, t0, t1, dt) that always trigger the arange findings
DIRECTED = [
    ("Moreau", "0", "1.1", "0.1"), ("Moreau", "0", "0.2", "0.1"),
    ("ScipyIVP", "0", "1.1", "0.1"), ("ScipyIVP", "0", "0.1", "0.05"),
    ("ScipyDAE", "0", "1.1", "0.1"), ("ScipyDAE", "0", "0.2", "0.1"),
    ("Rattle", "1", "1.1", "0.1"), ("Rattle", "0", "0.14", "0.02"),
    ("BackwardEuler", "1", "1.3", "0.1"), ("BackwardEuler", "0", "0.28", "0.02"),
    ("DualStormerVerlet:LU", "1", "1.1", "0.1"), ("DualStormerVerlet:MINRES (matrix free)", "0", "0.14", "0.02"),
    # decimal multiples of the step far from the time origin (the round-off of t1 - t0 is absolute there)
    ("Moreau", "86400", "86400.001", "0.0001"), ("Rattle", "3600", "3600.0001", "0.00001"), ("ScipyIVP", "1000000", "1000000.003", "0.001"),
    ("BackwardEuler", "31536000", "31536000.3", "0.1"), ("DualStormerVerlet:LU", "86400", "86400.001", "0.0001"), ("ScipyDAE", "3600", "3600.0001", "0.00001"),
]


def cases(tier, seed):
    n = {"quick": 400, "thorough": 9000}[tier]
    rng = np.random.default_rng([seed, 20])
    out = []
    for s, t0, t1, dt in DIRECTED:
        out.append({"solver": s, "system": "free_pm", "t0": t0, "t1": t1, "dt": dt, "grid": "directed"})
    for s_ in ("Moreau", "BackwardEuler", "Rattle"):
        out.append({"solver": s_, "system": "rod_free", "t0": "0", "t1": "0.003", "dt": "0.001", "grid": "multiple"})
    # long grids (thousands of steps) on the cheapest system: the end rule and the step must hold at step 5000 as at step 5
    longs = [("Moreau", "0", "0.001"), ("Rattle", "0.3", "0.001"), ("BackwardEuler", "-0.5", "0.001"), ("DualStormerVerlet:LU", "10", "0.0001"),
             ("ScipyIVP", "0", "0.0001"), ("ScipyDAE", "2.5", "0.001"), ("Moreau", "10", "0.0001"), ("Rattle", "-1.2", "0.0007")]
    for j, (s, t0, dt) in enumerate(longs if tier == "quick" else longs * 4):
        k = int(rng.integers(1200, 2200))
        if j % 2 == 0:
            t1, grid = str(Decimal(t0) + k * Decimal(dt)), "multiple"
        else:
            t1, grid = str(Decimal(t0) + (k - Decimal("0.37")) * Decimal(dt)), "non_multiple"
        out.append({"solver": s, "system": "free_pm", "t0": t0, "t1": t1, "dt": dt, "grid": grid, "long": True})
    i = 0
    while len(out) < n:
        r = i % 10
        i += 1
        if r == 8:
            out.append({"solver": "Newton", "system": ["static_spring", "static_pendulum", "static_compliance"][int(rng.integers(3))],
                        "nsteps": int(rng.integers(1, 13)), "provoke_truncation": bool(rng.random() < 0.2)})
            continue
        if r == 9:
            if rng.random() < 0.5:
                out.append({"solver": "Riks", "system": "static_spring"})
                continue
            r = int(rng.integers(8))
        solver = DYNAMIC[r]
        nonsmooth = not solver.startswith("Scipy")
        if nonsmooth and rng.random() < 0.35:
            system = SYSTEMS_CONTACT[int(rng.integers(len(SYSTEMS_CONTACT)))]
        else:
            system = SYSTEMS_SMOOTH[int(rng.integers(len(SYSTEMS_SMOOTH)))]
        dt = DTS[int(rng.integers(len(DTS)))]
        t0 = T0S[int(rng.integers(len(T0S)))] if rng.random() < 0.75 else str(round(float(rng.uniform(-3, 3)), int(rng.integers(1, 4))))
        k = int(rng.integers(1, 41))
        if rng.random() < 0.12 and Decimal(dt) >= Decimal("0.02"):
            # far from the time origin and / or a final time a tiny fraction of a step beyond a grid point
            t0 = ["10000", "-2000", "5000.5", t0][int(rng.integers(4))]
            frac = Decimal(1) - Decimal(["0.0001", "0.001", "0.00001"][int(rng.integers(3))])
            t1 = str(Decimal(t0) + (k - frac) * Decimal(dt))
            spec = {"solver": solver, "system": system, "t0": t0, "t1": t1, "dt": dt, "grid": "tiny_remainder"}
            out.append(spec)
            continue
        if rng.random() < 0.75:
            t1 = str(Decimal(t0) + k * Decimal(dt))
            grid = "multiple"
        else:
            frac = Decimal(str(round(float(rng.uniform(0.05, 0.95)), 3)))
            t1 = str(Decimal(t0) + (k - frac) * Decimal(dt))
            grid = "non_multiple"
        spec = {"solver": solver, "system": system, "t0": t0, "t1": t1, "dt": dt, "grid": grid}
        if solver in ("Moreau", "Rattle", "BackwardEuler") and system in SYSTEMS_CONTACT and rng.random() < 0.3:
            # one sweep of the contact fixed point only: a step with an active contact does not converge; whatever the solver
            # does then (raise, or announce and return the converged part), a returned Solution keeps its contract
            spec["provoke_fixed_point"] = True
        if solver == "BackwardEuler" and rng.random() < 0.15:
            spec["provoke_truncation"] = True      # Newton budget too small: the solver must announce and return the truncated run
        if solver.startswith("Scipy") and rng.random() < 0.2:
            spec["system"] = "blowup_pm"           # a force that blows up inside the horizon: the integrator gives up and the run is truncated
            spec["provoke_truncation"] = True
        out.append(spec)
    return out


# ---------------------------------------------------------------------------------------------
# systems
# ---------------------------------------------------------------------------------------------
def _rb(rng, RigidBody, r=None, name="body", u0=None):
    from vlib.gen import random_spd
    from vlib.forcegen import mat_to_quat
    A = quat_to_mat(rng.normal(size=4))
    r = rng.normal(size=3) if r is None else r
    m = float(loguniform(rng, 0.3, 3))
    return RigidBody(m, m * random_spd(rng, 3, 0.01, 0.2), q0=np.concatenate([r, mat_to_quat(A)]),
                     u0=np.zeros(6) if u0 is None else u0, name=name), A, m


def build_system(rng, kind, t0, t1=None):
    """small random real System (not assembled). Returns (system, description)"""
    from cardillo import System
    from cardillo.discrete import PointMass, RigidBody, Frame
    from cardillo.forces import Force
    from cardillo.constraints import Spherical, Revolute, FixedDistance
    from cardillo.interactions import TwoPointInteraction
    from cardillo.force_laws import Spring
    from cardillo.contacts import Sphere2Plane

    S = System(t0=t0)
    g = np.array([0.0, 0.0, -9.81])
    d = {"system": kind}
    if kind == "free_pm":
        m = float(loguniform(rng, 0.3, 3))
        pm = PointMass(m, q0=rng.normal(size=3), u0=rng.normal(size=3), name="pm")
        w = float(rng.uniform(0.5, 3))
        F0 = rng.normal(size=3)
        S.add(pm, Force((lambda t: F0 * np.cos(w * t)) if rng.random() < 0.5 else F0, pm, name="force"))
    elif kind == "blowup_pm":
        m = float(loguniform(rng, 0.3, 3))
        pm = PointMass(m, q0=rng.normal(size=3), u0=rng.normal(size=3), name="pm")
        ts = t0 + float(rng.uniform(0.35, 0.8)) * ((t1 if t1 is not None else t0 + 1.0) - t0)
        F0 = rng.normal(size=3)
        S.add(pm, Force(lambda t: F0 / (ts - t) ** 2 if t < ts else F0 * np.inf, pm, name="force"))
        d["t_singular"] = ts
    elif kind == "free_rb":
        rb, A, m = _rb(rng, RigidBody, u0=rng.normal(size=6))
        S.add(rb, Force(m * g, rb, B_r_CP=rng.normal(size=3) * 0.2, name="force"))
        if rng.random() < 0.5:
            # a measurement marker on the body (as in examples/double_pendulum): part of the system that is saved with the solution
            from cardillo.utility.sensor import Sensor
            S.add(Sensor(rb, B_r_PQ=rng.normal(size=3) * 0.1, name="marker"))
            d["sensor"] = True
    elif kind == "pendulum_pm":
        anchor = Frame(r_OP=rng.normal(size=3), name="anchor")
        L = float(rng.uniform(0.3, 1.0))
        dirn = random_unit(rng)
        m = float(loguniform(rng, 0.3, 3))
        r0 = anchor.r_OP(t0) + L * dirn
        w = np.cross(random_unit(rng), dirn) * float(rng.uniform(0, 2))
        pm = PointMass(m, q0=r0, u0=np.cross(w, L * dirn), name="pm")
        S.add(anchor, pm, FixedDistance(anchor, pm), Force(m * g, pm, name="gravity"))
    elif kind in ("pendulum_rb_spherical", "pendulum_rb_revolute"):
        anchor = Frame(r_OP=rng.normal(size=3), A_IB=quat_to_mat(rng.normal(size=4)), name="anchor")
        rJ = anchor.r_OP(t0)
        rb, A, m = _rb(rng, RigidBody, r=rJ + random_unit(rng) * float(rng.uniform(0.2, 0.6)))
        if kind.endswith("spherical"):
            j = Spherical(anchor, rb, r_OJ0=rJ, name="joint")
        else:
            j = Revolute(anchor, rb, int(rng.integers(3)), r_OJ0=rJ, A_IJ0=quat_to_mat(rng.normal(size=4)), name="joint")
        S.add(anchor, rb, j, Force(m * g, rb, name="gravity"))
    elif kind == "rod_free":
        # a short free-flying Cosserat rod (rod classes are made by a factory at run time)
        from cardillo.rods.cosseratRod import make_CosseratRod
        from cardillo.rods import CircularCrossSection, Simo1986, CrossSectionInertias
        Rod = make_CosseratRod(interpolation=["Quaternion", "SE3", "R12"][int(rng.integers(3))], mixed=bool(rng.random() < 0.5), polynomial_degree=1)
        Q = Rod.straight_configuration(1, 1.0, r_OP0=rng.normal(size=3))
        rod = Rod(CircularCrossSection(0.05), Simo1986(np.array([50.0, 10, 10]), np.array([5.0, 20, 20])), 1, Q=Q, q0=Q,
                  cross_section_inertias=CrossSectionInertias(A_rho0=1.0, B_I_rho0=np.diag([0.02, 0.01, 0.01])), name="rod")
        S.add(rod)
        d["contains_rod"] = True
    elif kind == "spring_compliance":
        anchor = Frame(r_OP=rng.normal(size=3), name="anchor")
        m = float(loguniform(rng, 0.3, 3))
        pm = PointMass(m, q0=anchor.r_OP(t0) + random_unit(rng) * float(rng.uniform(0.5, 1.5)), u0=rng.normal(size=3) * 0.3, name="pm")
        k = float(m * rng.uniform(2, 8) ** 2)
        S.add(anchor, pm, Spring(TwoPointInteraction(anchor, pm), k, l_ref=float(rng.uniform(0.5, 1.2)), compliance_form=True, name="spring"))
        if rng.random() < 0.5:
            S.add(Force(m * g, pm, name="gravity"))
    elif kind in ("ball_frictionless", "ball_friction", "ball_pm"):
        floor = Frame(name="floor")
        radius = float(rng.uniform(0.05, 0.3))
        h = radius + (0.0 if rng.random() < 0.3 else float(rng.uniform(0.0, 0.2)))
        mu = 0.0 if kind == "ball_frictionless" else float(rng.uniform(0.1, 0.8))
        e_N = float(rng.uniform(0, 0.8))
        vz = 0.0 if h == radius else float(rng.uniform(-1, 0.5))
        if kind == "ball_pm":
            m = float(loguniform(rng, 0.3, 3))
            body = PointMass(m, q0=np.array([*rng.normal(size=2), h]), u0=np.array([*rng.normal(size=2), vz]), name="ball")
        else:
            from vlib.forcegen import mat_to_quat
            m = float(loguniform(rng, 0.3, 3))
            Theta = 0.4 * m * radius**2 * np.eye(3)
            body = RigidBody(m, Theta, q0=np.array([*rng.normal(size=2), h, *mat_to_quat(quat_to_mat(rng.normal(size=4)))]),
                             u0=np.array([*rng.normal(size=2), vz, *rng.normal(size=3)]), name="ball")
        S.add(floor, body, Force(m * g, body, name="gravity"),
              Sphere2Plane(floor, body, mu=mu, r=radius, e_N=e_N, e_F=0.0 if mu > 0 else None, name="contact"))
        d.update({"mu": mu, "e_N": e_N, "closed": h == radius})
    elif kind in ("static_spring", "static_compliance", "static_pendulum"):
        anchor = Frame(r_OP=rng.normal(size=3), name="anchor")
        m = 1.0
        dirn = random_unit(rng)
        L = float(rng.uniform(0.5, 1.5))
        pm = PointMass(m, q0=anchor.r_OP(0) + L * dirn, name="pm")
        k = float(loguniform(rng, 10, 1000))
        S.add(anchor, pm)
        # orthonormal triad (dirn, e2, e3): supports in independent directions keep the tangent stiffness regular
        e2 = np.cross(dirn, random_unit(rng)); e2 /= np.linalg.norm(e2)
        e3 = np.cross(dirn, e2)
        p0 = anchor.r_OP(0) + L * dirn
        if kind == "static_pendulum":
            # mass on a rigid link, held sideways by two springs, loaded transversally
            S.add(FixedDistance(anchor, pm))
            for i, e in enumerate((e2, e3)):
                a = Frame(r_OP=p0 + e * float(rng.uniform(0.8, 1.5)), name=f"anchor{i + 2}")
                S.add(a, Spring(TwoPointInteraction(a, pm), k, l_ref=None, compliance_form=False, name=f"spring{i + 2}"))
            c = rng.normal(size=2)
            Fdir = (c[0] * e2 + c[1] * e3) / np.linalg.norm(c)
        else:
            S.add(Spring(TwoPointInteraction(anchor, pm), k, l_ref=L, compliance_form=(kind == "static_compliance"), name="spring"))
            for i, e in enumerate((e2, e3)):
                a = Frame(r_OP=p0 + e * float(rng.uniform(0.8, 1.5)), name=f"anchor{i + 2}")
                S.add(a, Spring(TwoPointInteraction(a, pm), k, l_ref=None, compliance_form=False, name=f"spring{i + 2}"))
            Fdir = random_unit(rng)
        Fmag = float(rng.uniform(0.05, 0.2)) * k
        S.add(Force(lambda t: t * Fmag * Fdir, pm, name="load"))
        d.update({"k": k})
    else:
        raise ValueError(kind)
    return S, d


# ---------------------------------------------------------------------------------------------
# the contract
# ---------------------------------------------------------------------------------------------
WIDTH = {"q": "nq", "q_dot": "nq", "u": "nu", "u_dot": "nu", "la_g": "nla_g", "P_g": "nla_g", "mu_g": "nla_g",
         "la_gamma": "nla_gamma", "P_gamma": "nla_gamma", "la_c": "nla_c", "la_N": "nla_N", "P_N": "nla_N",
         "la_F": "nla_F", "P_F": "nla_F"}
NOT_FIELDS = ("system", "solver_summary", "t")
TRUNC = re.compile(r"returning (the )?(solution|\d+ converged)|Returning solution up to", re.I)


def _fields(sol):
    return {k: v for k, v in vars(sol).items() if k not in NOT_FIELDS}


def check_contract(ctx, sol, system, solver_name, cls, t0, t1, dt, truncated, det, grid_clauses=True, fixed_step=True):
    site = f"{solver_name}.solve"
    t = getattr(sol, "t", None)
    if t is None or not isinstance(t, np.ndarray) or t.ndim != 1 or (len(t) == 0 and not truncated):
        ctx.mon("GRID:start")
        ctx.violation(site, "returned Solution has no one-dimensional non-empty time array", {**det, "t": repr(t)[:200]})
        return
    if len(t) == 0:
        # truncated before the first instant was accepted (static Newton failing in load step 0): nothing to say about the grid
        ctx.cls("run:truncated_empty")
        grid_clauses = False
    t = np.asarray(t, dtype=float)
    nt = len(t)
    det = {**det, "len_t": nt, "t_head": t[:3], "t_tail": t[-3:]}
    if grid_clauses:
        # ---- starts at the initial time
        ctx.mon("GRID:start")
        if t[0] != t0:
            ctx.violation(site, "time grid does not start at the initial time", det)
        # ---- increases with the requested step
        ctx.mon("GRID:increments")
        if nt > 1:
            inc = np.diff(t)
            if not np.all(inc > 0):
                ctx.violation(site, "time grid is not strictly increasing", det)
            elif fixed_step and np.abs(inc - dt).max() > 1e-9 * dt + 4 * EPS_T * max(abs(t0), abs(t1)):
                ctx.violation(site, "time grid increments differ from the requested step", {**det, "max_increment_error": float(np.abs(inc - dt).max())})
            elif fixed_step and np.abs(t - (t0 + np.arange(nt) * dt)).max() > 1e-6 * dt + 4 * EPS_T * max(abs(t0), abs(t1)):
                # (no drift: the k-th instant is t0 + k dt up to a millionth of a step, also after thousands of steps)
                ctx.violation(site, "time grid drifts away from t0 + k*dt", {**det, "max_drift_in_steps": float(np.abs(t - (t0 + np.arange(nt) * dt)).max() / dt)})
        # ---- ends at the first grid point at or after t1
        if truncated:
            ctx.count("truncated_runs")
            ctx.cls("run:truncated")
        else:
            ctx.mon("GRID:end")
            tol = 1e-9 * dt + 4 * EPS_T * max(abs(t0), abs(t1))       # (times far from the origin are only representable to a few ulp)
            if t[-1] < t1 - tol:
                ctx.violation(site, "time grid ends before the final time although the run was not truncated", det)
            elif nt > 1 and t[-2] >= t1 - tol:
                key = _kf_arange(solver_name, cls, t, t0, t1, dt)
                ctx.violation(site, "time grid continues beyond the first grid point at or after the final time (one step too many)",
                              {**det, "expected_last": float(t0 + math.ceil((t1 - t0) / dt - 1e-9) * dt)}, key=key)
    # ---- every stored field: one row per instant, system dimension as width
    fields = _fields(sol)
    for name, val in fields.items():
        if val is None:
            ctx.cls(f"field_none:{name}")
            continue
        ctx.mon("FIELDS:shape")
        if not isinstance(val, np.ndarray):
            ctx.violation(site, "stored field is not an array", {**det, "field": name, "type": type(val).__name__})
            continue
        ctx.cls(f"field:{name}")
        if val.ndim != 2 or val.shape[0] != nt:
            ctx.violation(site, "stored field does not have one row per time instant", {**det, "field": name, "shape": list(val.shape)})
            continue
        if name in WIDTH:
            w = int(getattr(system, WIDTH[name]))
            if val.shape[1] != w:
                ctx.violation(site, "stored field does not have the system dimension as width", {**det, "field": name, "shape": list(val.shape), "expected_width": w})
            elif w > 0:
                ctx.cls("field_width:positive")
        else:
            ctx.cls(f"field_unknown:{name}")
        if val.dtype.kind not in "fiu":
            ctx.violation(site, "stored field is not numeric", {**det, "field": name, "dtype": str(val.dtype)})
    # ---- iteration
    ctx.mon("ITER:records")
    try:
        recs = list(sol)
    except Exception as e:
        ctx.violation("Solution.__iter__", "iterating the solution raises", {**det, "error": f"{type(e).__name__}: {e}"[:300]})
        recs = None
    if recs is not None:
        if len(recs) != nt:
            ctx.violation("Solution.__iter__", "iteration does not yield one record per time instant", {**det, "records": len(recs)})
        else:
            bad = None
            for i, r in enumerate(recs):
                if not (hasattr(r, "t") and r.t == t[i]):
                    bad = ("t", i)
                    break
                for name, val in fields.items():
                    if not hasattr(r, name):
                        bad = (name, i, "missing")
                        break
                    rv = getattr(r, name)
                    if val is None:
                        if rv is not None:
                            bad = (name, i, "not None")
                            break
                    elif isinstance(val, np.ndarray) and val.ndim >= 1 and val.shape[0] == nt:
                        if not (isinstance(rv, np.ndarray) or np.isscalar(rv)) or not np.array_equal(np.asarray(rv), val[i], equal_nan=True):
                            bad = (name, i, "differs")
                            break
                if bad:
                    break
            if bad:
                ctx.violation("Solution.__iter__", "record does not equal the corresponding rows of the fields", {**det, "first_mismatch": list(bad)})
        # several iterations over the same solution alive at once (pairs of instants, look-ahead, nested loops): each of them
        # yields one record per instant
        try:
            pairs = list(zip(sol, sol))
            def drain(it):          # (the iterator object itself is not iterable on the pinned tree: use next())
                n_ = 0
                while True:
                    try:
                        next(it)
                    except StopIteration:
                        return n_
                    n_ += 1
            if nt >= 1:
                it1 = iter(sol); first = next(it1); it2 = iter(sol); n_rest = drain(it1); n_second = drain(it2)
            else:
                # (a run that was stopped in its very first step returns no instants at all: nothing to look ahead to)
                first, n_rest, n_second = None, nt - 1, drain(iter(sol))
            nested = sum(1 for _a in sol for _b in (sol if nt <= 60 else [0]))
        except Exception as e:
            ctx.violation("Solution.__iter__", "simultaneous iterations over the solution raise", {**det, "error": f"{type(e).__name__}: {e}"[:300]})
        else:
            want_nested = nt * (nt if nt <= 60 else 1)
            if len(pairs) != nt or any(a.t != b.t or a.t != t[i] for i, (a, b) in enumerate(pairs)) or n_rest != nt - 1 or n_second != nt or nested != want_nested or (nt >= 1 and first.t != t[0]):
                ctx.violation("Solution.__iter__", "two iterations over the same solution disturb each other (records skipped or mismatched)",
                              {**det, "zip_pairs": len(pairs), "rest_of_first_iterator": n_rest, "second_iterator": n_second, "nested_count": nested, "nested_expected": want_nested})
    # ---- save / load
    ctx.mon("SAVELOAD:roundtrip")
    # the SAME file name is reused by all cases of a worker process (a post-processing script overwriting its result file):
    # what is loaded must be what was saved last
    tmp = os.path.join(tempfile.gettempdir(), f"verif-c20-{os.getpid()}")
    os.makedirs(tmp, exist_ok=True)
    try:
        path = os.path.join(tmp, "solution.pkl")
        from cardillo.solver import load_solution
        try:
            with gen.quiet():
                sol.save(path)
                back = load_solution(path)
        except Exception as e:
            ctx.violation("Solution.save/load_solution", "saving or loading the solution raises", {**det, "error": f"{type(e).__name__}: {e}"[:300]},
                          key=KF_ROD_PICKLE if (det.get("contains_rod") and isinstance(e, TypeError) and "callable" in str(e)) else None)
            back = None
        if back is not None:
            a, b = {"t": sol.t, **fields}, {"t": getattr(back, "t", None), **_fields(back)}
            if set(a) != set(b):
                ctx.violation("Solution.save/load_solution", "loaded solution has different fields", {**det, "saved": sorted(a), "loaded": sorted(b)})
            else:
                for name in a:
                    x, y = a[name], b[name]
                    same = (x is None and y is None) or (isinstance(x, np.ndarray) and isinstance(y, np.ndarray) and x.shape == y.shape
                                                         and x.dtype == y.dtype and np.array_equal(x, y, equal_nan=True))
                    if not same:
                        ctx.violation("Solution.save/load_solution", "field changed in the save/load round trip", {**det, "field": name})
                        break
    finally:
        shutil.rmtree(tmp, ignore_errors=True)


# ---------------------------------------------------------------------------------------------
def run_case(spec, ctx):
    env.import_cardillo()
    import cardillo.solver as CS
    from cardillo.solver import SolverOptions
    rng = ctx.rng
    sname, _, variant = spec["solver"].partition(":")
    cls = getattr(CS, sname)
    static = sname in ("Newton", "Riks")
    if static:
        t0, t1 = 0.0, 1.0
        dt = 1.0 / spec["nsteps"] if sname == "Newton" else None
    else:
        t0, t1, dt = float(spec["t0"]), float(spec["t1"]), float(spec["dt"])
    det = {"solver": spec["solver"], "t0": t0, "t1": t1, "dt": dt, "grid": spec.get("grid")}
    ctx.cls(f"solver:{spec['solver']}")
    ctx.cls(f"system:{spec['system']}")
    if spec.get("provoke_truncation"):
        ctx.cls("options:newton_budget_too_small")
    if not static:
        ctx.cls(f"grid:{spec['grid']}")
        ctx.cls(f"dt:{spec['dt']}")
        ctx.cls("t0:zero" if t0 == 0 else "t0:nonzero")
    with gen.quiet():
        system, sd = build_system(rng, spec["system"], t0, t1)
        try:
            system.assemble(options=SolverOptions())
        except AssertionError as e:
            # the consistent-initial-condition iteration of cardillo gave up (closed frictional contact): no run, no verdict
            ctx.count("assemble_refused")
            ctx.undecided(f"assemble refused: {str(e)[:100]}")
            ctx.sig([spec, sd], nontrivial=False)
            return
    det.update(sd)
    det.update({n: int(getattr(system, n)) for n in ("nq", "nu", "nla_g", "nla_gamma", "nla_c", "nla_N", "nla_F")})
    sol, err, solver_obj = None, None, None
    with gen.quiet(), warnings.catch_warnings(record=True) as wlog:
        warnings.simplefilter("always")
        try:
            hard = SolverOptions(newton_max_iter=1, newton_atol=1e-13, newton_rtol=1e-13)
            if sname == "Newton":
                sol = cls(system, n_load_steps=spec["nsteps"], verbose=bool(rng.random() < 0.5),
                          options=hard if spec.get("provoke_truncation") else SolverOptions()).solve()
            elif sname == "Riks":
                sol = cls(system, la_arc0=1e-2, la_arc_span=np.array([0.0, 1.0]), iter_goal=3, max_load_steps=200,
                          options=SolverOptions(newton_atol=1e-8, newton_rtol=1e-8)).solve()
            elif sname.startswith("Scipy"):
                solver_obj = cls(system, t1, dt)
                sol = solver_obj.solve()
            elif sname == "DualStormerVerlet":
                sol = cls(system, t1, dt, options=SolverOptions(), linear_solver=variant).solve()
            else:
                opts = hard if spec.get("provoke_truncation") else SolverOptions()
                if spec.get("provoke_fixed_point"):
                    opts = SolverOptions(fixed_point_max_iter=1)
                    ctx.cls("options:fixed_point_budget_too_small")
                sol = cls(system, t1, dt, options=opts).solve()
        except (RuntimeError, AssertionError, ValueError) as e:
            err = e
        except Exception as e:
            ctx.mon("GRID:start")
            ctx.violation(f"{sname}.solve", f"solver raises {type(e).__name__} instead of returning a Solution",
                          {**det, "error": f"{type(e).__name__}: {e}"[:300]})
            ctx.sig([spec, det], nontrivial=True)
            return
    msgs = [str(w.message) for w in wlog]
    truncated = any(TRUNC.search(m) for m in msgs)
    if err is not None:
        ctx.count("solver_raised_nonconvergence")
        ctx.cls("run:raised")
        ctx.undecided(f"solver raised {type(err).__name__}: {str(err)[:100]}")
        ctx.sig([spec, det], nontrivial=False)
        return
    if not isinstance(sol, CS.Solution):
        ctx.mon("GRID:start")
        ctx.violation(f"{sname}.solve", "solve() does not return a Solution", {**det, "type": type(sol).__name__})
        ctx.sig([spec, det], nontrivial=True)
        return
    if sname == "Newton":
        dt_eff = 1.0 / spec["nsteps"]
        check_contract(ctx, sol, system, sname, cls, 0.0, 1.0, dt_eff, truncated, det)
    elif sname == "Riks":
        check_contract(ctx, sol, system, sname, cls, None, None, None, truncated, det, grid_clauses=False)
    else:
        check_contract(ctx, sol, system, sname, cls, t0, t1, dt, truncated, det, fixed_step=True)
    nt = len(sol.t) if getattr(sol, "t", None) is not None else 0
    if sname == "ScipyIVP" and solver_obj is not None and nt >= 2 and isinstance(sol.t, np.ndarray) and sol.t.flags.writeable:
        # post-processing in place (time in milliseconds since the start) and a second solve() of the same solver object: the second
        # Solution must honour the same contract - the returned arrays belong to the caller, not to the solver
        sol.t -= sol.t[0]
        sol.t *= 1e3
        with gen.quiet(), warnings.catch_warnings(record=True) as wlog2:
            warnings.simplefilter("always")
            try:
                sol2 = solver_obj.solve()
            except (RuntimeError, AssertionError, ValueError):
                sol2 = None
        ctx.mon("RESOLVE:second_solve")
        if isinstance(sol2, CS.Solution):
            ctx.cls("run:second_solve_after_inplace_postprocessing")
            check_contract(ctx, sol2, system, sname, cls, t0, t1, dt, any(TRUNC.search(str(w.message)) for w in wlog2),
                           {**det, "second_solve_after_inplace_postprocessing_of_the_first_solution": True}, fixed_step=True)
    ctx.sig([spec, det, system.q0.tolist(), system.u0.tolist()], nontrivial=nt >= 2 and system.nq > 0)
    ctx.sample({**det, "fields": sorted(k for k, v in _fields(sol).items() if v is not None), "truncated": truncated})


def finalize(agg):
    reasons = []
    c = agg["classes"]
    for s in DYNAMIC + ["Newton", "Riks"]:
        if c.get(f"solver:{s}", 0) == 0:
            reasons.append(f"solver {s} never run")
    for k in ("grid:multiple", "grid:non_multiple", "t0:nonzero", "field_width:positive"):
        if c.get(k, 0) == 0:
            reasons.append(f"input class {k} never reached")
    return reasons
