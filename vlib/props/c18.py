"""C18 Nonsmooth integrators satisfy the discrete Signorini-Coulomb laws."""

import warnings
import numpy as np
from vlib import env, gen
from vlib.oracles import dense, loguniform, random_unit, rodrigues

ID = "C18"
LEVEL = "exploration"
RULE = ("each case builds a random scene of 1-3 spheres (RigidBody with spherical or non-spherical inertia, PointMass) over 1-2 "
        "planes (ground, optionally tilted, optional wall) plus sphere-sphere contacts between the spheres, restitution and "
        "friction coefficients in [0,1] (or 0), grazing / normal / resting / stacked starts, with gravity or force-free, and "
        "integrates 30-150 steps with Moreau, Rattle, BackwardEuler or DualStormerVerlet at dt in {1e-3, 5e-3, 2e-2}. Every "
        "stored step is checked with quantities recomputed from the Solution by the real System methods: P_N >= 0, P_N = 0 on "
        "open contacts, complementarity with the gap (position-level schemes) or with the Newton-restituted gap rate at the "
        "scheme's own evaluation point (velocity-level schemes), no penetration (position-level), Coulomb disk, friction natural "
        "residual (stick and slip in one formula), friction opposes slip, kinetic energy non-increasing in force-free frictionless "
        "scenes. RATTLE stage percussions come from the guarded step recorder. distinct = scene + solver + dt; non-trivial = at "
        "least one contact closes during the run")
ASSUMPTIONS = ["fixed-point tolerances 1e-10 (atol = rtol); monitored residuals are bounded by CAL * (1 + |u|) * |W| with the calibrated constant CAL = 1e-6 (100 x the maximum observed on the unchanged tree over seeds 0-2), since the loops stop on increments",
               "the midpoint configuration of Moreau is recomputed as q_k + dt/2 q_dot(t_k, q_k, u_k), that of DualStormerVerlet by iterating its implicit midpoint rule to 1e-14",
               "runs in which the solver raises (non-convergence) are undecided (C21 covers them)",
               "the sphere-sphere tangent basis is path dependent (rotated in every step callback): all recomputations use a deep copy of the system whose step callbacks are replayed along the stored trajectory",
               "a contact whose gap is zero to rounding (|g_N| <= 1e-8) may be treated as open or closed by the scheme"]
REQUIRED_MONITORS = ["sign:P_N", "open:P_N", "compl:Moreau", "compl:DualStormerVerlet", "compl:Rattle", "compl:BackwardEuler", "penetration", "coulomb_disk",
                     "friction_residual", "friction_opposes", "energy", "rattle_stage1"]
META = {
    "level_text": "Exploration: trace monitor over every stored step of real simulations of generated contact scenes with the four nonsmooth integrators: discrete Signorini and Coulomb conditions recomputed from the Solution (and, for RATTLE, from the recorded stage percussions) with the real System methods. Held on the runs generated.",
    "level_note": "tolerances calibrated on the unchanged tree (constant CAL), because the fixed-point loops stop on increments; a mutant counts as detected only far above it.",
    "technique": "runtime trace monitor over stored solver steps (prox-form complementarity, Coulomb disk, energy) with guarded step recorder",
}
CASE_TIMEOUT = 400
WALL_BUDGET = {"quick": 1200, "thorough": 7200}
SOLVERS = ["Moreau", "Rattle", "BackwardEuler", "DualStormerVerlet"]
DTS = [1e-3, 5e-3, 2e-2]
FP = 1e-10
CAL = 1e-6
GRAV = np.array([0, 0, -9.81])


KF_SEPARATING = "Newton-impact-law/separating-contact-in-active-set"
KF_RATTLE_OLD_RATE = "Rattle.xi_N/pre-impact-rate-taken-at-the-old-configuration"


def cases(tier, seed):
    n = {"quick": 64, "thorough": 1200}[tier]
    directed = [{"solver": s_, "dt": 2e-2, "forcefree": False, "frictionless": fl, "directed": "resting_with_restitution"} for s_ in SOLVERS for fl in (True, False)]
    directed += [{"solver": s_, "dt": dt_, "forcefree": False, "frictionless": False, "directed": "mixed_resting"} for s_ in SOLVERS for dt_ in (1e-2, 2e-2)]
    directed += [{"solver": s_, "dt": dt_, "forcefree": True, "frictionless": True, "directed": "wedge"} for s_ in SOLVERS for dt_ in (1.44e-2, 1e-2)]
    # two elastic spheres (e_N = 1) meeting obliquely, no forces: the contact normal turns within the impact step
    directed += [{"solver": s_, "dt": 2e-2, "forcefree": True, "frictionless": True, "directed": "oblique_elastic"} for s_ in ("Rattle", "Moreau", "DualStormerVerlet")]
    return directed + [{"solver": SOLVERS[i % 4], "dt": DTS[(i // 4) % 3], "forcefree": (i // 12) % 3 == 2, "frictionless": (i // 12) % 3 != 0} for i in range(n)]


def _scene(rng, spec):
    from cardillo import System
    from cardillo.discrete import RigidBody, PointMass, Frame
    from cardillo.contacts import Sphere2Plane, Sphere2Sphere
    from cardillo.forces import Force
    S = System()
    info = {"spheres": [], "planes": 1}
    if spec.get("directed") == "oblique_elastic":
        R = 0.2
        m1, m2 = float(loguniform(rng, 0.5, 2)), float(loguniform(rng, 0.5, 2))
        # sphere 1 passes sphere 0 with an offset of about one radius: impact at 30-60 degrees off the line of centres
        off = float(rng.uniform(0.5, 1.4)) * R
        v = float(rng.uniform(1.5, 3.0))
        d0 = float(rng.uniform(0.6, 1.0))
        b0 = PointMass(m1, q0=np.zeros(3), u0=np.zeros(3), name="s0")
        b1 = PointMass(m2, q0=np.array([-d0, off, 0.0]), u0=np.array([v, 0.0, 0.0]), name="s1")
        ground = Frame(r_OP=np.array([0.0, 0.0, -5.0]), name="ground")
        S.add(ground, b0, b1, Sphere2Plane(ground, b0, 0.0, r=R, e_N=1.0, name="c_s0_p0"), Sphere2Sphere(b0, b1, R, R, 0.0, e_N=1.0, name="c_s0_s1"))
        info.update({"spheres": ["pm", "pm"], "planes": 1, "e_N": 1.0, "mu": 0.0, "start": "oblique_elastic", "tilt": 0.0})
        return S, info
    if spec.get("directed") == "wedge":
        # a ball bouncing into the corner of an acute wedge of two fixed frictionless planes with DIFFERENT restitution
        # coefficients, no applied forces (impacts against two contacts in the same or in consecutive steps)
        th = float(rng.uniform(0.6, 1.3))
        nB = np.array([0.0, np.sin(th), -np.cos(th)])
        t1w = np.array([1.0, 0, 0])
        planeA = Frame(A_IB=np.eye(3), name="ground")
        planeB = Frame(A_IB=np.vstack((t1w, np.cross(nB, t1w), nB)).T, name="wall")
        R, m = 0.1, float(loguniform(rng, 0.3, 3))
        mid = np.array([0.0, np.cos(th / 2), np.sin(th / 2)])
        pos = mid * (R + float(rng.uniform(0.03, 0.15))) / np.sin(th / 2) + np.array([float(rng.normal()) * 0.1, 0, 0])
        vel = -mid * float(rng.uniform(0.5, 2)) + np.array([0.0, rng.normal(), rng.normal()]) * 0.3
        eA, eB = float(rng.uniform(0.05, 0.3)), float(rng.uniform(0.8, 1.0))
        if rng.random() < 0.5:
            eA, eB = eB, eA
        b = PointMass(m, q0=pos, u0=vel, name="s0")
        S.add(planeA, planeB, b, Sphere2Plane(planeA, b, 0.0, r=R, e_N=eA, name="c_s0_p0"), Sphere2Plane(planeB, b, 0.0, r=R, e_N=eB, name="c_s0_p1"))
        info.update({"planes": 2, "e_N": [eA, eB], "distinct_e_N": True, "mu": 0.0, "start": "wedge", "tilt": 0.0, "wedge_angle": th, "spheres": ["pm"]})
        return S, info
    tilt = float(rng.uniform(0, 0.4)) if rng.random() < 0.4 and not spec["forcefree"] else 0.0
    if spec.get("directed"):
        tilt = 0.0
    A = rodrigues(np.array([1.0, 0, 0]) * tilt)
    if rng.random() < 0.3 and not spec["forcefree"] and not spec.get("directed"):
        # ground translating along its normal: the gap rate has an explicit time dependence (chi_N != 0)
        amp, om = float(rng.uniform(0.02, 0.1)), float(rng.uniform(3, 10))
        n0 = A[:, 2].copy()
        ground = Frame(r_OP=lambda t: n0 * amp * np.sin(om * t), r_OP_t=lambda t: n0 * amp * om * np.cos(om * t),
                       r_OP_tt=lambda t: -n0 * amp * om**2 * np.sin(om * t), A_IB=A, name="ground")
        info["moving_ground"] = True
    else:
        ground = Frame(A_IB=A, name="ground")
    planes = [(ground, A[:, 2], np.zeros(3))]
    S.add(ground)
    if rng.random() < 0.3:
        Aw = rodrigues(np.array([0, 1.0, 0]) * (np.pi / 2))    # wall with normal +x at x = -2
        wall = Frame(r_OP=np.array([-2.0, 0, 0]), A_IB=Aw, name="wall")
        planes.append((wall, Aw[:, 2], np.array([-2.0, 0, 0]))); S.add(wall); info["planes"] = 2
    ns = int(rng.integers(1, 4))
    e_N = float(rng.uniform(0, 1)) if rng.random() < 0.8 else float(rng.integers(0, 2))
    mu = 0.0 if spec["frictionless"] else float(rng.uniform(0.05, 1.0))
    spheres = []
    start = ["drop", "rest", "graze", "stack"][int(rng.integers(4))]
    if spec.get("directed") == "mixed_resting":
        # several spheres of different mass rest on / slide along the ground in the same steps; a frictionless contact is
        # assembled BEFORE frictional ones (and, with three spheres, possibly another one between them)
        start, ns = "rest_all", int(rng.integers(2, 4))
    elif spec.get("directed"):
        start, ns, e_N = "rest", 2, float(rng.uniform(0.4, 0.8))
    info.update({"e_N": e_N, "mu": mu, "start": start, "tilt": tilt})
    z = 0.0
    for i in range(ns):
        R = float(rng.uniform(0.1, 0.4))
        m = float(loguniform(rng, 0.3, 3))
        if start == "stack":
            pos = np.array([0.0, 0.0, z + R]); z += 2 * R
            vel = np.zeros(3)
        elif start == "rest_all":
            pos = np.array([i * 1.5, rng.normal() * 0.2, R]); vel = np.array([rng.normal(), rng.normal(), 0.0]) * 1.5
        elif start == "rest" and i == 0:
            pos = np.array([rng.normal(), rng.normal(), R]); vel = np.array([rng.normal(), rng.normal(), 0.0]) * float(rng.random() < 0.7)
        elif start == "graze":
            pos = np.array([i * 1.2, rng.normal(), R + 0.02 + 0.1 * rng.random()]); vel = np.array([rng.normal() * 2, rng.normal(), -0.2 * rng.random()])
        else:
            pos = np.array([i * 1.2 + 0.1 * rng.normal(), rng.normal() * 0.3, R + rng.uniform(0.02, 0.5)])
            vel = np.array([rng.normal(), rng.normal(), -rng.uniform(0.5, 3)])
        pos = A @ pos if tilt else pos
        vel = A @ vel if tilt else vel
        kind = ["rb_spherical", "rb_general", "pm"][int(rng.integers(3))]
        if kind == "pm":
            b = PointMass(m, q0=pos, u0=vel, name=f"s{i}")
        else:
            Theta = 0.4 * m * R * R * np.eye(3) if kind == "rb_spherical" else gen.random_spd(rng, 3, 0.3 * m * R * R, 0.6 * m * R * R)
            P = rng.normal(size=4); P /= np.linalg.norm(P)
            om = rng.normal(size=3) * 3 * float(rng.random() < 0.6 and not spec["forcefree"])
            b = RigidBody(m, Theta, q0=np.concatenate([pos, P]), u0=np.concatenate([vel, om]), name=f"s{i}")
        S.add(b)
        if not spec["forcefree"]:
            S.add(Force(m * GRAV, b, name=f"grav{i}"))
        for j, (pl, n, r0) in enumerate(planes):
            # some contacts of a frictional scene are frictionless (their friction laws do not exist at all), in any position
            mu_c = mu if (mu == 0.0 or rng.random() < 0.7 or spec.get("directed")) else 0.0
            if start == "rest_all":
                mu_c = 0.0 if (i == 0 or (i == 1 and ns == 3 and rng.random() < 0.5)) else mu
            if mu_c != mu:
                info["mixed_friction"] = True
            S.add(Sphere2Plane(pl, b, mu_c, r=R, e_N=e_N, e_F=0.0 if mu_c > 0 else None, name=f"c_s{i}_p{j}"))
        spheres.append((b, R, kind))
        info["spheres"].append(kind)
    for i in range(ns):
        for j in range(i + 1, ns):
            S.add(Sphere2Sphere(spheres[i][0], spheres[j][0], spheres[i][1], spheres[j][1], mu, e_N=e_N, e_F=0.0, name=f"c_s{i}_s{j}"))
    return S, info


def _dsv_midpoint(S, tn, qn, un, dt):
    tm = tn + 0.5 * dt
    qm = qn.copy()
    for _ in range(200):
        new = qn + 0.5 * dt * S.q_dot(tm, qm, un)
        if np.abs(new - qm).max() < 1e-15 * (1 + np.abs(new).max()):
            qm = new
            break
        qm = new
    return tm, qm


def _proj_disk(x, radius):
    n = np.linalg.norm(x)
    return x if n <= radius else x * (max(radius, 0.0) / n)


def run_case(spec, ctx):
    env.import_cardillo()
    import cardillo.solver as sv
    from cardillo.solver import SolverOptions
    from cardillo import _verif_hooks as vh
    rng = ctx.rng
    solver, dt = spec["solver"], spec["dt"]
    nsteps = int(rng.integers(30, 151)) if dt < 2e-2 else int(rng.integers(30, 80))
    if spec.get("directed"):
        nsteps = 80
    with gen.quiet(), warnings.catch_warnings():
        warnings.simplefilter("ignore")
        S, info = _scene(rng, spec)
        det = {**spec, **info, "nsteps": nsteps}
        try:
            S.assemble(options=SolverOptions(fixed_point_atol=1e-10))
        except Exception as e:
            ctx.undecided(f"assemble: {type(e).__name__}: {e}"[:150]); ctx.sig([det], nontrivial=False); return
        opts = SolverOptions(fixed_point_atol=FP, fixed_point_rtol=FP, newton_atol=1e-10, newton_rtol=1e-10, fixed_point_max_iter=20000, newton_max_iter=50)
        t1 = nsteps * dt
        vh.reset(); vh.recording = True
        import copy
        S_eval = copy.deepcopy(S)   # replays the step callbacks (path-dependent sphere-sphere tangent basis) in step with the evaluation
        try:
            if solver == "DualStormerVerlet":
                sol = sv.DualStormerVerlet(S, t1, dt, options=opts, linear_solver="LU", accelerated=bool(rng.random() < 0.5)).solve()
            else:
                sol = getattr(sv, solver)(S, t1, dt, options=opts).solve()
        except Exception as e:
            ctx.undecided(f"{solver} raised {type(e).__name__}: {e}"[:150]); ctx.cls(f"solver_raised:{solver}"); ctx.sig([det], nontrivial=False); return
        finally:
            vh.recording = False
        recs = [d for s_, d in vh.records if s_ == "rattle.step"]
        t, q, u = np.asarray(sol.t), np.asarray(sol.q), np.asarray(sol.u)
        P_N, P_F = np.asarray(sol.P_N), np.asarray(sol.P_F)
        ctx.cls(f"solver:{solver}"); ctx.cls(f"dt:{dt}"); ctx.cls(f"start:{info['start']}")
        ctx.cls("forcefree" if spec["forcefree"] else "gravity"); ctx.cls("frictionless" if info["mu"] == 0 else "friction")
        contacts = [c for c in S.contributions if hasattr(c, "nla_N")]
        closed_any = False
        worst = {}

        def note(name, val):
            worst[name] = max(worst.get(name, 0.0), float(val))

        E_prev = None
        S_run, S = S, S_eval
        for k in range(1, len(t)):
            tn, qn, un, tn1, qn1, un1 = t[k - 1], q[k - 1], u[k - 1], t[k], q[k], u[k]
            PN, PF = P_N[k], P_F[k]
            W_scale = 1.0
            # the scheme's own evaluation point for the velocity-level laws
            if solver == "Moreau":
                tm, qm = tn + 0.5 * dt, qn + 0.5 * dt * S.q_dot(tn, qn, un)
            elif solver == "DualStormerVerlet":
                tm, qm = _dsv_midpoint(S, tn, qn, un, dt)
            if solver in ("Moreau", "DualStormerVerlet"):
                gN_act = S.g_N(tm, qm)
                xiN = S.g_N_dot(tm, qm, un1) + S.e_N * S.g_N_dot(tm, qm, un)
                xiF = (S.gamma_F(tm, qm, un1) + S.e_F * S.gamma_F(tm, qm, un)) if S.nla_F else np.zeros(0)
                active = gN_act <= 1e-8
            elif solver == "Rattle":
                gN_act = S.g_N(tn1, qn1)
                xiN = S.xi_N(tn, tn1, qn, qn1, un, un1)
                xiF = S.xi_F(tn, tn1, qn, qn1, un, un1) if S.nla_F else np.zeros(0)
                active = gN_act <= 1e-8
            else:  # BackwardEuler: position-level, friction on the end-point slip velocity
                gN_act = S.g_N(tn1, qn1)
                xiN = None
                xiF = S.gamma_F(tn1, qn1, un1) if S.nla_F else np.zeros(0)
                active = gN_act <= 1e-8
            vs = 1.0 + np.abs(un1).max() + np.abs(un).max()
            tol = CAL * vs * (1.0 + np.abs(PN).max(initial=0.0))
            ex = {**det, "step": k, "t": float(tn1)}
            # ---- sign and open contacts
            ctx.mon("sign:P_N")
            if PN.size and PN.min() < -tol:
                ctx.violation(f"{solver}.solve", "negative normal percussion stored", {**ex, "P_N": PN})
            ctx.mon("open:P_N")
            open_tol = 1e-6 * (1 + dt * vs)
            for i in range(len(PN)):
                if gN_act[i] > open_tol and PN[i] > tol:
                    ctx.violation(f"{solver}.solve", "positive normal percussion on a contact that is not closed", {**ex, "contact": i, "gap": float(gN_act[i]), "P_N": float(PN[i])})
            if np.any(active):
                closed_any = True
            # ---- complementarity
            ctx.mon(f"compl:{solver}")
            if solver in ("Moreau", "DualStormerVerlet", "Rattle"):
                for i in np.where(active)[0]:
                    res = min(PN[i], xiN[i]) if PN[i] >= 0 else abs(PN[i])
                    note("compl", abs(res))
                    if xiN[i] < -tol or abs(min(PN[i], xiN[i])) > tol:
                        if abs(gN_act[i]) <= 1e-8 and PN[i] <= tol:
                            # gap zero to rounding: the schemes decide the active set with different strictness (g <= 0,
                            # isclose(g, 0), sign of the prox argument); treating such a contact as open is legitimate
                            ctx.cls("boundary_contact_treated_as_open")
                            continue
                        ctx.violation(f"{solver}.solve", "closed contact: normal percussion and Newton-restituted gap rate are not complementary (P_N >= 0, xi_N >= 0, P_N xi_N = 0)",
                                      {**ex, "contact": i, "P_N": float(PN[i]), "xi_N": float(xiN[i]), "gap": float(gN_act[i]), "tol": tol})
            if solver in ("Rattle", "BackwardEuler"):
                ctx.mon("penetration")
                gtol = CAL * (1 + dt * vs)
                note("penetration", -min(gN_act.min(initial=0.0), 0.0))
                if gN_act.size and gN_act.min() < -gtol:
                    ctx.violation(f"{solver}.solve", "position-level scheme lets a contact penetrate beyond the solver tolerance", {**ex, "gap": float(gN_act.min()), "tol": gtol})
                if solver == "BackwardEuler":
                    for i in range(len(PN)):
                        if PN[i] > tol and abs(gN_act[i]) > gtol:
                            ctx.violation("BackwardEuler.solve", "normal percussion not complementary to the gap", {**ex, "contact": i, "gap": float(gN_act[i]), "P_N": float(PN[i])})
            # ---- friction
            if S.nla_F:
                for c in contacts:
                    if not hasattr(c, "nla_F"):
                        continue
                    iN, iF = c.la_NDOF[0], c.la_FDOF
                    mu = c.friction_laws[0][2].r
                    pf, pn, xf = PF[iF], max(PN[iN], 0.0), xiF[iF]
                    ctx.mon("coulomb_disk")
                    if np.linalg.norm(pf) > mu * pn * (1 + 1e-10) + tol:
                        ctx.violation(f"{solver}.solve", "friction percussion outside the Coulomb disk scaled by the normal percussion",
                                      {**ex, "contact": c.name, "P_F": pf, "mu_P_N": mu * pn})
                    if not active[iN] or pn <= tol:
                        continue
                    ctx.mon("friction_residual")
                    nr = np.linalg.norm(pf + _proj_disk(xf - pf, mu * pn))   # P_F = -proj(xi_F - P_F)
                    note("friction_residual", nr)
                    if nr > tol * 10:
                        ctx.violation(f"{solver}.solve", "friction percussion violates the Coulomb law in prox form (natural residual of P_F = -proj(xi_F - P_F))",
                                      {**ex, "contact": c.name, "P_F": pf, "xi_F": xf, "mu_P_N": mu * pn, "residual": float(nr), "tol": tol * 10})
                    ctx.mon("friction_opposes")
                    if pf @ xf > tol * (1 + np.linalg.norm(xf)):
                        ctx.violation(f"{solver}.solve", "friction percussion does positive work on the slip", {**ex, "contact": c.name, "P_F": pf, "xi_F": xf})
                    if np.linalg.norm(xf) > 1e3 * tol and np.linalg.norm(pf) < mu * pn * (1 - 1e-3) - tol:
                        ctx.violation(f"{solver}.solve", "clearly sliding contact with friction percussion below the maximal magnitude", {**ex, "contact": c.name, "P_F": pf, "xi_F": xf, "mu_P_N": mu * pn})
            # ---- energy in force-free frictionless scenes
            if spec["forcefree"] and info["mu"] == 0:
                ctx.mon("energy")
                M = dense(S.M(tn1, qn1))
                E = 0.5 * un1 @ M @ un1
                if E_prev is None:
                    E_prev = 0.5 * un @ dense(S.M(tn, qn)) @ un
                if E > E_prev * (1 + 1e-9) + 1e-12:
                    key_ = KF_SEPARATING if info.get("distinct_e_N") else None
                    wit_ = {}
                    if key_ is None and solver == "Rattle":
                        # RATTLE restitutes the gap rate of the OLD configuration, g_N_dot(t_n, q_n, u_n), against the new one,
                        # g_N_dot(t_n+1, q_n+1, u_n+1); when the contact normal turns within the step (oblique sphere-sphere
                        # impact) the two refer to different directions. The gain this can explain is bounded by
                        # 1/2 sum_i P_N,i e_N,i |rate(q_n, u_n) - rate(q_n+1, u_n)|_i over the contacts with a percussion
                        g_old, g_new = S.g_N_dot(tn, qn, un), S.g_N_dot(tn1, qn1, un)
                        bound = 0.5 * float(np.sum(np.maximum(PN, 0.0) * np.asarray(S.e_N) * np.abs(g_old - g_new)))
                        wit_ = {"P_N": PN, "pre_impact_rate_at_old_configuration": g_old, "pre_impact_rate_at_new_configuration": g_new, "explained_gain_bound": bound}
                        if E - E_prev <= bound * (1 + 1e-6) + 1e-12 * (1 + E_prev):
                            key_ = KF_RATTLE_OLD_RATE
                    ctx.violation(f"{solver}.solve", "kinetic energy increases in a force-free frictionless scene with restitution <= 1", {**ex, **wit_, "E_before": float(E_prev), "E_after": float(E)},
                                  key=key_)
                E_prev = E
            # advance the path-dependent state of the evaluation copy exactly as the solver did after this step
            S.step_callback(tn1, qn1.copy(), un1.copy())
        # ---- RATTLE stage 1 from the recorder
        if solver == "Rattle":
            ctx.mon("rattle_stage1", len(recs))
            for d in recs:
                gN = S.g_N(d["tn1"], d["qn1"])
                vs = 1.0 + np.abs(d["un12"]).max()
                tol = CAL * vs * (1.0 + np.abs(d["P_N1"]).max(initial=0.0))
                gt = CAL * (1 + dt * vs)
                if d["P_N1"].size and (d["P_N1"].min() < -tol or np.any((d["P_N1"] > tol) & (np.abs(gN) > gt))):
                    ctx.violation("Rattle.solve", "stage-1 normal percussion not complementary to the gap at the end point", {**det, "t": float(d["tn1"]), "P_N1": d["P_N1"], "gap": gN})
                    break
        else:
            ctx.mon("rattle_stage1", 0)
        for kname, v in worst.items():
            ctx.extra(f"max_{kname}:{solver}", v)
    ctx.sig([det, S.q0.tolist()[:7]], nontrivial=closed_any)
    ctx.sample({**det, "closed_contact_seen": closed_any})


def finalize(agg):
    m = agg["monitors"]
    out = []
    if m.get("rattle_stage1", 0) == 0:
        out.append("RATTLE step recorder never delivered a record")
    return out
