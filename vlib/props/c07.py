"""C07 Force elements are energetically consistent and passive."""

import numpy as np
from vlib import env, gen, forcegen
from vlib import sysoracles as so
from vlib.oracles import dense, loguniform, fd_jac, compare, random_unit

ID = "C07"
LEVEL = "exploration"
RULE = ("each case builds one real System with one force element: Spring / KelvinVoigtElement (force and compliance form) / "
        "MaxwellElement on a TwoPointInteraction (8 subsystem pairings incl. moving frames, offsets) or on a Revolute joint "
        "(4 pairings), Force (constant and time dependent) on RigidBody / PointMass / rod, line-distributed load on the three rod "
        "interpolations; 3 states each (revolute: on the joint manifold built from the joint's own definition, winding through "
        "several turns). Decided: power = -dE_pot/dt (time frozen) for conservative elements, power + dE/dt <= 0 for "
        "spring-dampers and Maxwell elements, compliance residual zero at the force-form force, System.E_pot succeeds, "
        "gyroscopic power zero. distinct = element + pairing + parameters; non-trivial = nonzero relative velocity")
ASSUMPTIONS = ["dE_pot/dt is computed by Richardson central differences of the real System.E_pot along q + s*q_dot with the time argument frozen; "
               "comparison tolerance 1e-6*max(1,|.|) + 20*uncertainty; passivity sign test with tolerance 1e-9*(|P|+|E_dot|)",
               "revolute states lie on the joint manifold (constructed by an independent model of the joint), as the property states",
               "k, d, eta log-uniform in [1e-3, 1e3]"]
REQUIRED_MONITORS = ["ENERGY:conservative", "ENERGY:passive", "COMPLIANCE:residual", "E_pot:succeeds", "ENERGY:gyroscopic", "SWEEP:inplace_arguments"]
FORMAT_TWIN = True          # ambient monitor: every System matrix is also requested in the other documented formats (vlib/formattwin.py)
META = {
    "level_text": "Exploration: energy bookkeeping on the real System methods (E_pot, h, W_c, la_c, c) of generated systems at generated states: conservative elements do exactly the work their energy predicts, dissipative ones never create energy, compliance form and force form describe the same force. Held on the systems and states generated.",
    "level_note": "float64; energy rate by finite differences of System.E_pot with measured uncertainty; revolute states restricted to the joint manifold.",
    "technique": "runtime energy-bookkeeping monitors with finite-difference oracle + ambient format-twin monitor (every System matrix also requested as coo/csr/csc/array)",
}
CASE_TIMEOUT = 180
KINDS = ([f"tpi:{l}" for l in forcegen.LAWS] + [f"rev:{l}" for l in forcegen.LAWS] + ["force:rigid_body", "force:point_mass", "force:rod", "lineload", "gyro"])


def cases(tier, seed):
    n = {"quick": 225, "thorough": 6000}[tier]
    return [{"kind": KINDS[i % len(KINDS)], "variant": i // len(KINDS)} for i in range(n)]


def _exc(ctx, site, e, det, key=None):
    ctx.violation(site, f"raises {type(e).__name__}", {**det, "error": f"{type(e).__name__}: {e}"[:300]}, key=key)


KF_PG = "CosseratRod.interior-xi/velocity-field-interpolated-independently"


def _kf_rod_point_force(det, kind, law):
    """defect model: point force on a rod at a non-nodal xi where the position of the loaded point is NOT the linear
    interpolation of the nodal positions (SE3 interpolation, or a body-fixed offset): J_P u is the interpolated nodal
    velocity, not the rate of r_OP. Nodal xi, and centre-line points of Quaternion/R12 rods, are not covered."""
    if kind == "force" and law == "rod" and det.get("xi_class") == "interior":
        if det.get("interp") == "SE3" or bool(np.any(np.asarray(det.get("B_r_CP", 0.0)))):
            return KF_PG
    return None


def _energy_rate(S, t, q, u):
    """(dE/dt with time frozen, uncertainty) along q + s q_dot"""
    qd = S.q_dot(t, q, u)
    sc = 1.0 / max(1.0, np.abs(qd).max() if qd.size else 0.0)
    from vlib.oracles import path_derivative
    D, err = path_derivative(lambda s: np.array([S.E_pot(t, q + s * qd)]), scale=sc)
    return float(D[0]), float(err[0])


def _power(S, t, q, u):
    """generalized force power of force-form (h) and compliance-form (W_c la_c) contributions"""
    P = float(u @ S.h(t, q, u))
    if S.nla_c:
        la_c = S.la_c(t, q, u)
        P += float(u @ (dense(S.W_c(t, q)) @ la_c))
    return P


def run_case(spec, ctx):
    env.import_cardillo()
    from cardillo import System
    from cardillo.forces import Force
    rng = ctx.rng
    kind, _, law = spec["kind"].partition(":")
    t0 = float(rng.normal()) if rng.random() < 0.5 else 0.0
    det = {"kind": spec["kind"], "t0": t0}
    nontrivial = False
    with gen.quiet():
        system = System(t0=t0)
        model = None
        if kind in ("tpi", "rev"):
            if kind == "tpi":
                pair = forcegen.TPI_PAIRS[spec["variant"] % len(forcegen.TPI_PAIRS)]
                subs, mots, inter, info = forcegen.build_tpi(rng, pair)
            else:
                pair = forcegen.REV_PAIRS[spec["variant"] % len(forcegen.REV_PAIRS)]
                subs, mots, inter, info = forcegen.build_revolute(rng, pair)
            elem, linfo = forcegen.make_law(rng, law, inter)
            det.update(info); det.update(linfo)
            system.add(*subs)
            if kind == "rev" or rng.random() < 0.5:
                system.add(inter)
                det["interaction_added"] = True
            system.add(elem)
            # remove the gyroscopic/inertial contributions from the power balance by looking at the element alone:
            conservative = law.startswith("Spring")
        elif kind == "force":
            if law == "rod":
                from vlib import rodlite
                body, xi, rinfo = rodlite.simple_rod(rng, name="rod")
                det.update(rinfo)
            else:
                body, _, _, _ = gen.make_subsystem(rng, law, "body")
                xi = np.zeros(3)
            F0 = rng.normal(size=3) * loguniform(rng, 1e-2, 1e2)
            w = rng.uniform(0.5, 3)
            timedep = rng.random() < 0.5
            force = (lambda t: F0 * np.cos(w * t)) if timedep else F0
            B = rng.normal(size=3) * float(rng.random() < 0.6)
            elem = Force(force, body, xi=xi, B_r_CP=B)
            system.add(body, elem)
            det.update({"force_time_dependent": timedep, "B_r_CP": B})
            conservative = True
        elif kind == "lineload":
            from vlib import rodlite
            from cardillo.rods.force_line_distributed import Force_line_distributed
            body, xi, rinfo = rodlite.simple_rod(rng, name="rod")
            F0 = rng.normal(size=3) * loguniform(rng, 1e-2, 1e2)
            timedep = rng.random() < 0.5
            # load profile along the rod: constant vector (the documented shorthand), or a callable force(t, xi) that varies
            # along the rod (linear + non-polynomial part, so that no quadrature rule of the rod integrates it exactly by luck)
            profile = ["constant", "linear", "smooth"][int(rng.integers(3))] if not timedep else ["linear", "smooth"][int(rng.integers(2))]
            a_, b_, c_ = float(rng.uniform(0.5, 2)), float(rng.uniform(0.3, 1)), float(rng.uniform(1, 6))
            if profile == "constant":
                force = F0
            elif profile == "linear":
                force = (lambda t, xi: F0 * (1 + a_ * xi) * np.cos(t)) if timedep else (lambda t, xi: F0 * (1 + a_ * xi))
            else:
                force = ((lambda t, xi: F0 * (1 + a_ * xi + b_ * np.sin(c_ * xi)) * np.cos(t)) if timedep
                         else (lambda t, xi: F0 * (1 + a_ * xi + b_ * np.sin(c_ * xi))))
            ctx.cls(f"lineload:profile:{profile}")
            elem = Force_line_distributed(force, body)
            if rng.random() < 0.6:
                # other coordinates before the rod's (the rod's local and the system's global numbering differ)
                other, _, _, _ = gen.make_subsystem(rng, ["rigid_body", "point_mass"][int(rng.integers(2))], "other")
                system.add(other)
                ctx.cls("lineload:rod_not_first_in_system")
            system.add(body, elem)
            det.update(rinfo); det["force_time_dependent"] = timedep; det["load_profile"] = profile
            conservative = True
        else:  # gyroscopic terms of rigid bodies
            body, _, _, _ = gen.make_subsystem(rng, "rigid_body", "body")
            system.add(body)
            elem = body
            conservative = None
        try:
            system.assemble(options=gen.no_cic_options())
        except Exception as e:
            ctx.mon("E_pot:succeeds")
            _exc(ctx, f"{spec['kind']}.assemble", e, det)
            ctx.sig([det, "assemble-failed"], nontrivial=True)
            return
        if kind == "rev":
            model = forcegen.RevoluteModel(system, inter, subs, mots)
        ctx.cls(f"element:{spec['kind']}")
        if kind in ("tpi", "rev"):
            ctx.cls(f"pair:{kind}:{pair[0]}-{pair[1]}")
        # remove the element-independent contributions: evaluate the element's own methods through System by
        # building the power balance of the whole system minus the same system's other contributions
        visited = []
        for k in range(3):
            system.reset()
            if k == 2 and kind in ("tpi", "rev") and law != "Maxwell" and rng.random() < 0.6:
                # parameter study: the public stiffness / damping of the existing element are changed and the system is
                # assembled again; every clause must hold for the element as it is NOW
                linfo = dict(linfo)
                for attr in ("k", "d"):
                    if hasattr(elem, attr) and attr in linfo:
                        linfo[attr] = float(linfo[attr] * rng.uniform(0.3, 3.0))
                        setattr(elem, attr, linfo[attr])
                det = {**det, "parameters_changed_after_construction": {a: linfo[a] for a in ("k", "d") if a in linfo}}
                ctx.cls("element:parameters_changed_after_construction")
                try:
                    system.assemble(options=gen.no_cic_options())
                except Exception as e:
                    _exc(ctx, f"{spec['kind']}.assemble", e, det)
                    break
            t = t0 + float(rng.normal())
            if kind == "rev":
                phi = float(rng.uniform(-6 * np.pi, 6 * np.pi)) if k else float(rng.uniform(-1.4, 1.4))
                # wind the joint to phi in steps < pi/2 so that the joint's turn counter follows
                nsteps = int(abs(phi) / 1.0) + 1
                seed_k = int(rng.integers(1 << 30))   # same independent-body state while winding and at the final state
                for j in range(1, nsteps + 1):
                    qj, uj = model.manifold_state(np.random.default_rng(seed_k), t, phi * j / nsteps, 0.0)
                    inter.l(t, qj[inter.qDOF])
                q, u = model.manifold_state(np.random.default_rng(seed_k), t, phi, float(rng.normal() * 2), qnorm=1.0)
                det_state = {"phi": phi}
            else:
                q, u, _, qc = gen.random_system_state(rng, system)
                det_state = {"qclass": qc}
                if kind == "tpi":
                    # keep the two points apart
                    l_now = inter.l(t, q[inter.qDOF])
                    if l_now < 0.05:
                        continue
            if hasattr(elem, "my_qDOF") and kind in ("tpi", "rev") and law == "Maxwell":
                q[elem.my_qDOF] = rng.normal() * 0.5
            if kind == "tpi" and not any(hasattr(s_, "B_Theta_C") for s_ in subs) and rng.random() < 0.4:
                # whole-number coordinates in an INTEGER array (System.q0 has an integer dtype when every body was given
                # whole-number initial coordinates; point masses only - orientation coordinates are never whole numbers)
                qi = np.rint(np.asarray(q) * 2).astype(np.int64)
                if inter.l(t, qi[inter.qDOF]) >= 0.05:
                    q = qi
                    det_state["q_dtype"] = "int64"
                    ctx.cls("state:integer_dtype")
            ex = {**det, **det_state, "t": t, "q": q, "u": u}
            visited.append((t, np.array(q, dtype=float), np.array(u, dtype=float)))
            nontrivial |= bool(np.any(u))
            # ---- total potential energy must be evaluable
            ctx.mon("E_pot:succeeds")
            try:
                E = system.E_pot(t, q)
            except Exception as e:
                _exc(ctx, "System.E_pot", e, ex)
                continue
            if kind == "gyro":
                ctx.mon("ENERGY:gyroscopic")
                h = system.h(t, q, u)
                if abs(u @ h) > 1e-10 * np.linalg.norm(u) * np.linalg.norm(h) + 1e-12 * np.linalg.norm(u) ** 3 * np.abs(dense(system.M(t, q))).max():
                    ctx.violation("RigidBody.h", "gyroscopic forces do work", {**ex, "power": float(u @ h)})
                continue
            # ---- the assembled right-hand side must be evaluable
            try:
                system.h(t, q, u)
            except Exception as e:
                _exc(ctx, "System.h", e, ex)
            # ---- power of the element
            moving = any(m is not None and (m.moving or m.rotating) for m in (mots if kind in ("tpi", "rev") else []))
            try:
                if hasattr(elem, "h"):
                    P = float(u[elem.uDOF] @ np.asarray(elem.h(t, q[elem.qDOF], u[elem.uDOF])).reshape(-1))
                else:
                    la = system.la_c(t, q, u)
                    P = float(u @ (dense(system.W_c(t, q)) @ la))
                P_frame = 0.0
                if kind in ("tpi", "rev"):
                    # power delivered at an end that is a prescribed-motion frame: force * (l_dot - dl_dot/du . u)
                    qi, ui = q[inter.qDOF], u[inter.uDOF]
                    ld_full = float(inter.l_dot(t, qi, ui))
                    ld_body = float(np.asarray(inter.W_l(t, qi)).reshape(-1) @ ui)
                    if law == "Maxwell":
                        f = float(elem.force(t, q[elem.qDOF], u[elem.uDOF]))
                    else:
                        f = float(elem.la_c(t, qi, ui))
                    P_frame = f * (ld_full - ld_body)
                Eel = lambda tt, qq: float(elem.E_pot(tt, qq[elem.qDOF]))
                qd = system.q_dot(t, q, u)
                sc = 1.0 / max(1.0, np.abs(qd).max())
                from vlib.oracles import path_derivative
                Ed, Eerr = path_derivative(lambda s: np.array([Eel(t, q + s * qd)]), scale=sc)           # time frozen
                Ef, Ferr = path_derivative(lambda s: np.array([Eel(t + s, q + s * qd)]), scale=sc)       # full
                Ed, Eerr, Ef, Ferr = float(Ed[0]), float(Eerr[0]), float(Ef[0]), float(Ferr[0])
            except Exception as e:
                _exc(ctx, f"{spec['kind']}.power", e, ex)
                continue
            scale = max(1.0, abs(P), abs(Ed), abs(P_frame), abs(Ef))
            if max(Eerr, Ferr) > 1e-3 * scale:
                ctx.undecided("energy-rate oracle noisy")
                continue
            exx = {**ex, "power": P, "power_at_prescribed_frame": P_frame, "E_pot_rate_time_frozen": Ed, "E_pot_rate_full": Ef}
            if conservative:
                ctx.mon("ENERGY:conservative")
                if abs(P + Ed) > 1e-6 * scale + 20 * Eerr:
                    ctx.violation(f"{spec['kind']}.energy", "generalized force power differs from minus the rate of the reported potential energy",
                                  exx, key=_kf_rod_point_force(det, kind, law))
                if kind in ("tpi", "rev") and abs(P + P_frame + Ef) > 1e-6 * scale + 20 * Ferr:
                    ctx.violation(f"{spec['kind']}.energy", "total power (including the prescribed-motion end) differs from minus the full rate of the potential energy", exx)
            else:
                ctx.mon("ENERGY:passive")
                ctx.cls("passive:moving_end" if moving else "passive:autonomous")
                tot = P + P_frame + Ef
                if tot > 1e-9 * (abs(P) + abs(P_frame) + abs(Ef)) + 20 * Ferr + 1e-12:
                    ctx.violation(f"{spec['kind']}.passivity", "element generates energy (power at both ends + stored-energy rate > 0)", {**exx, "sum": tot})
                # exact dissipation models (independent closed forms)
                if law.startswith("KelvinVoigt"):
                    ref = -linfo["d"] * ld_full * ld_full
                    if abs(tot - ref) > 1e-6 * max(scale, abs(ref)) + 20 * Ferr:
                        ctx.violation(f"{spec['kind']}.dissipation", "power + stored-energy rate differs from -d*l_dot^2", {**exx, "sum": tot, "reference": ref})
                if law == "Maxwell":
                    ref = -f * f / linfo["d"]
                    if abs(tot - ref) > 1e-6 * max(scale, abs(ref)) + 20 * Ferr:
                        ctx.violation(f"{spec['kind']}.dissipation", "power + stored-energy rate differs from -force^2/eta", {**exx, "sum": tot, "reference": ref})
            # ---- compliance form describes the same force as the force form
            if system.nla_c:
                ctx.mon("COMPLIANCE:residual")
                la = system.la_c(t, q, u)
                c = system.c(t, q, u, la)
                lnow = float(inter.l(t, q[inter.qDOF]))
                ldn = float(inter.l_dot(t, q[inter.qDOF], u[inter.uDOF]))
                ref = -linfo["k"] * (lnow - (elem.l_ref)) - (linfo["d"] * ldn if law.startswith("KelvinVoigt") else 0.0)
                if np.abs(c).max() > 1e-9 * (1 + abs(lnow) + abs(ldn) * linfo["d"] / linfo["k"] + np.abs(la).max() / linfo["k"]):
                    ctx.violation(f"{spec['kind']}.c", "compliance residual does not vanish at the force-form force", {**ex, "la_c": la, "c": c})
                if abs(la[0] - ref) > 1e-9 * (1 + abs(ref)):
                    ctx.violation(f"{spec['kind']}.la_c", "force differs from -k (l - l_ref) - d l_dot", {**ex, "la_c": la, "reference": ref})
    # ---- sweep with ONE long-lived state array: the element (and its interaction) is called directly on arrays that the caller refills in
    # place between the states (a parameter sweep, a finite-difference loop); the values must be those obtained with fresh arrays
    if kind == "tpi" and len(visited) >= 2:      # (a Revolute joint counts full turns between calls by design: its angle is history-dependent)
        from vlib.oracles import inplace_check
        if rng.random() < 0.6:
            visited = [(visited[0][0], v[1], v[2]) for v in visited]       # one instant, several states (finite differences, Newton iterates)
            ctx.cls("sweep:same_time")
        sets_q = [(v[0], v[1][inter.qDOF]) for v in visited[:5]]
        sets_qu = [(v[0], v[1][inter.qDOF], v[2][inter.uDOF]) for v in visited[:5]]
        calls = []
        for name, sets in (("l", sets_q), ("l_q", sets_q), ("W_l", sets_q), ("l_dot", sets_qu)):
            if hasattr(inter, name):
                calls.append((f"{type(inter).__name__}.{name}", getattr(inter, name), sets, {}))
        e_q = [(v[0], v[1][elem.qDOF]) for v in visited[:5]]
        e_qu = [(v[0], v[1][elem.qDOF], v[2][elem.uDOF]) for v in visited[:5]]
        for name, sets in (("E_pot", e_q), ("h", e_qu), ("la_c", e_qu), ("W_c", e_q)):
            if hasattr(elem, name):
                calls.append((f"{spec['kind']}.{name}", (lambda *a, f_=getattr(elem, name): dense(f_(*a)) if name == "W_c" else f_(*a)), sets, {}))
        usable = []
        with gen.quiet():
            for c_ in calls:
                try:        # entry points that this element variant does not support (compliance methods of a force-form element) are not the subject here
                    c_[1](*[np.array(a, copy=True) if isinstance(a, np.ndarray) else a for a in c_[2][0]])
                    usable.append(c_)
                except Exception:
                    ctx.count("sweep_entry_point_not_supported", 1)
            inplace_check(ctx, usable, mon="SWEEP:inplace_arguments")
    ctx.sig([det], nontrivial=nontrivial or kind == "gyro")
    ctx.sample(det)
