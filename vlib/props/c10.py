"""C10 Cosserat rod internal forces are stress-free, objective and self-equilibrated.

One case = one generated rod (see vlib/rodgen.py) inside an assembled System.

* reference: at the reference coordinates Q (unit, commonly scaled and node-wise
  scaled nodal quaternions) E_pot = 0, internal forces h = 0, compliance residual
  c(Q, 0) = 0 and la_c(Q) = 0, internal-constraint residual g(Q) = 0; a System
  assembled at the reference at rest (with consistent initial conditions) gets zero
  accelerations and multipliers;
* objectivity: the harness superposes rigid motions x -> c + R x on all nodes
  (r_i -> c + R r_i, p_i -> quat(R) o p_i, independent quaternion algebra) of
  reference and random deformed states: E_pot, c(q, u, la_c) and g(q) must not
  change; pure translations must not change h, W_c la_c, W_g la_g;
* self-equilibrium: the centre-line parts of h, W_c la_c and W_g la_g (arbitrary
  la) summed over the nodes vanish.
"""

import warnings

import numpy as np

from vlib import env
from vlib import rodgen
from vlib.oracles import dense, quat_to_mat, loguniform

ID = "C10"
LEVEL = "exploration"
RULE = ("one case = one generated rod (interpolation Quaternion p=1..3 / SE3 / R12 p=1..3 x displacement|mixed x constraint "
        "set x 1..4 elements x straight/arc/helix/Frenet reference (unit, commonly scaled, node-wise scaled quaternions) x "
        "reduced/full integration x Simo1986/Harsch2021) in an assembled System; evaluated at the reference, and at 3 random "
        "deformed states (unit / non-unit nodal quaternions) each under 3 rigid motions (rotation classes: generic, half turn, "
        "tiny; translation magnitudes 1e-3..1e3 rod lengths) with random velocities and multipliers; distinct = distinct "
        "(spec, first state) hash; non-trivial = at least one deformed state with E_pot > 0 and a rotation angle > 0.1 rad")
ASSUMPTIONS = [
    "rigid motions are applied by independent quaternion algebra of the harness; nodal layout as produced by the classes' "
    "configuration helpers",
    "noise model: strains carry a rounding error delta = 1e-14*(1 + (max|r| + |c|)/node spacing); tolerances are "
    "1e-8*|value| + 100*delta*scale with scale = stiffness*length (energy), stiffness*(1+L+1/L) (forces), (1+L+total "
    "reference curvature angle)*(1+|la|/stiffness) (compliance / constraint residuals)",
    "zero at the reference: |E_pot| <= 1e-18*k*L, |h| <= 1e-10*force scale, |c|,|g| <= 1e-10*residual scale",
    "resultant: |sum_i f_i| <= 1e-10 * sum_i |f_i|",
]
REQUIRED_MONITORS = ["ref.E_pot", "ref.h", "ref.c", "ref.la_c", "ref.g", "ref.assembled_at_rest",
                     "obj.E_pot", "obj.c", "obj.g", "obj.h_translation", "obj.Wc_translation", "obj.Wg_translation",
                     "resultant.h", "resultant.W_c", "resultant.W_g"]
CASE_TIMEOUT = 120
WALL_BUDGET = {"quick": 600, "thorough": 3000}


def cases(tier, seed):
    n = {"quick": 126, "thorough": 3000}[tier]
    specs = rodgen.make_specs(n, seed, salt=10, full_fraction=0.25)
    rng = np.random.default_rng([int(seed) & 0xFFFFFFFF, 0xC10])
    for s in specs:
        s["kind"] = "sweep"
        r = rng.random()
        s["Qnorm"] = "unit" if r < 0.5 else ("common" if r < 0.75 else "nodewise")
        if s["Qnorm"] == "nodewise":
            s["assemble"] = "plain"
        if rng.random() < 0.25:
            s["q0"] = "perturbed"          # rod constructed with an initial configuration that is NOT the reference
            s["assemble"] = "plain"
    return specs


# ----------------------------------------------------------------------------
class Scales:
    def __init__(self, R):
        self.k = R.kmax
        self.L = R.L
        self.theta = float(R.ref_info.get("theta", 0.0))
        self.E = self.k * self.L
        self.f = self.k * (1.0 + self.L + 1.0 / self.L) * (1.0 + self.theta)
        self.res = (1.0 + self.L + self.theta)
        self.hnode = R.L / max(1, R.nn - 1)

    def delta(self, q_rod, nn, c=0.0):
        r, _ = rodgen.unpack(q_rod, nn)
        return 1e-14 * (1.0 + (float(np.max(np.abs(r))) + float(c)) / self.hnode)


def _report(ctx, mon, site, what, val, ref, tol, extra):
    """|val - ref| <= tol entrywise"""
    ctx.mon(mon)
    a = np.atleast_1d(np.asarray(val, dtype=float))
    b = np.atleast_1d(np.asarray(ref, dtype=float))
    if a.shape != b.shape:
        ctx.violation(site, what + " (shape)", {"shape": list(a.shape), "expected_shape": list(b.shape), **extra})
        return False
    if a.size == 0:
        return True
    d = np.abs(a - b)
    if not np.all(np.isfinite(a)) or float(np.max(d)) > tol:
        i = int(np.argmax(np.where(np.isfinite(d), d, np.inf)))
        ctx.violation(site, what, {"max_abs_difference": float(d.flat[i]) if np.isfinite(d.flat[i]) else "non-finite",
                                   "tolerance": float(tol), "index": i, "value_there": float(a.flat[i]),
                                   "expected_there": float(b.flat[i]), **extra})
        return False
    return True


def _random_motion(rng, L):
    """(R, c, label, angle)"""
    u = rng.random()
    if u < 0.55:
        Rm = quat_to_mat(rng.normal(size=4)); lab = "generic"
    elif u < 0.7:
        Rm = rodgen.rot_axis_angle(rng.normal(size=3), np.pi); lab = "half_turn"
    elif u < 0.85:
        Rm = rodgen.rot_axis_angle(rng.normal(size=3), float(loguniform(rng, 1e-9, 1e-3))); lab = "tiny_rotation"
    else:
        Rm = np.eye(3); lab = "translation_only"
    v = rng.random()
    if v < 0.15:
        c = np.zeros(3); clab = "c=0"
    elif v < 0.6:
        c = rng.normal(size=3) * L; clab = "c~L"
    elif v < 0.8:
        c = rng.normal(size=3) * L * float(loguniform(rng, 1e-3, 1e-1)); clab = "c<<L"
    else:
        c = rng.normal(size=3) * L * float(loguniform(rng, 1e1, 1e3)); clab = "c>>L"
    ang = float(np.arccos(np.clip(0.5 * (np.trace(Rm) - 1), -1, 1)))
    return Rm, c, lab + "/" + clab, ang


# ----------------------------------------------------------------------------
def reference_checks(ctx, R, rng, sc):
    sysm, rod, nn = R.system, R.rod, R.nn
    fname = rodgen.formulation_name(R.spec)
    r, P = rodgen.unpack(R.Q, nn)
    variants = [("Q", R.Q.copy())]
    s = float(loguniform(rng, 0.05, 20.0))
    variants.append(("Q with all quaternions times %.3g" % s, rodgen.pack(r, P * s)))
    if R.spec["interp"] in ("SE3", "R12"):
        # nodal rotations are interpolated, not the quaternions: node-wise rescaling is the same configuration
        variants.append(("Q with node-wise rescaled quaternions", rodgen.pack(r, P * loguniform(rng, 0.05, 20.0, size=nn)[:, None])))
    t = float(rng.uniform(0, 2))
    for label, q_rod in variants:
        ctx.cls("reference:" + label.split(" ")[0] + ("" if label == "Q" else "*"))
        ex = {"formulation": fname, "state": "reference " + label, "Qnorm": R.spec.get("Qnorm"), "ref": R.ref_info}
        q = R.qsys(q_rod)
        u0 = np.zeros(sysm.nu)
        if rng.random() < 0.5:
            # post-processing queries at this state first (strains / stresses at the quadrature points and at other cross-
            # sections, as a plotting script does): they must not change what the rod answers afterwards
            la_c_ = np.zeros(getattr(rod, "nla_c", 0)); la_g_ = np.zeros(getattr(rod, "nla_g", 0))
            try:
                for el in range(rod.nelement):
                    for i_ in range(rod.nquadrature):
                        xi_ = float(rod.qp[el, i_])
                        rod.eval_strains(t, q_rod, la_c_, la_g_, xi_, el)
                        rod.eval_stresses(t, q_rod, la_c_, la_g_, xi_, el if rng.random() < 0.5 else None)
                rod.eval_strains(t, q_rod, la_c_, la_g_, float(rng.uniform(0, 1)))
                ctx.cls("reference:after_post_processing_queries")
            except Exception as e_:
                ctx.count(f"post_processing_query_raised:{type(e_).__name__}")
        _report(ctx, "ref.E_pot", "System.E_pot", "strain energy of the reference configuration is not zero",
                sysm.E_pot(t, q), 0.0, 1e-18 * sc.E, ex)
        h = sysm.h(t, q, u0)[rod.uDOF]
        _report(ctx, "ref.h", "System.h", "internal forces of the reference configuration are not zero",
                h, np.zeros_like(h), 1e-10 * sc.f, ex)
        if R.nla_c:
            c0 = sysm.c(t, q, u0, np.zeros(sysm.nla_c))
            _report(ctx, "ref.c", "System.c", "compliance residual c(Q, la_c=0) of the reference configuration is not zero",
                    c0, np.zeros_like(c0), 1e-10 * sc.res, ex)
            lac = sysm.la_c(t, q, u0)
            _report(ctx, "ref.la_c", "System.la_c", "compliance stresses la_c(Q) of the reference configuration are not zero",
                    lac, np.zeros_like(lac), 1e-10 * sc.f, ex)
            if hasattr(rod, "E_comp_pot"):
                # the mixed formulation's own (complementary) energy: zero for the stress-free reference, and callable at all
                ctx.mon("ref.E_pot")
                try:
                    Ec = float(rod.E_comp_pot(t, np.asarray(lac)[rod.la_cDOF] if hasattr(rod, "la_cDOF") else lac))
                    if abs(Ec) > 1e-18 * sc.E:
                        ctx.violation("rod.E_comp_pot", "complementary strain energy of the reference configuration is not zero", {**ex, "E_comp_pot": Ec})
                except Exception as e_:
                    if rodgen.raised_in_cardillo(e_)[0]:
                        ctx.violation("rod.E_comp_pot", "complementary strain energy of a mixed rod cannot be evaluated", {**ex, "error": f"{type(e_).__name__}: {e_}"[:200]})
                    else:
                        raise
        if R.nla_g:
            g0 = sysm.g(t, q)
            _report(ctx, "ref.g", "System.g", "internal-constraint residual g(Q) of the reference configuration is not zero",
                    g0, np.zeros_like(g0), 1e-10 * sc.res, ex)
    # System assembled at the reference at rest with consistent initial conditions
    if R.spec.get("assemble") == "full" and R.assemble_error is None:
        ex = {"formulation": fname, "state": "assembled at the reference, at rest"}
        M = dense(sysm.M(sysm.t0, sysm.q0)).astype(float)
        ur = rod.uDOF
        f_acc = (M @ np.asarray(sysm.u_dot0, dtype=float))[ur]
        ok = _report(ctx, "ref.assembled_at_rest", "System.assemble", "inertia forces M*u_dot0 of a rod at rest in its reference configuration are not zero",
                     f_acc, np.zeros_like(f_acc), 1e-8 * sc.f, ex)
        if R.nla_c:
            _report(ctx, "ref.assembled_at_rest", "System.assemble", "la_c0 of a rod at rest in its reference configuration is not zero",
                    sysm.la_c0, np.zeros(sysm.nla_c), 1e-8 * sc.f, ex)
        if R.nla_g:
            fg = (dense(sysm.W_g(sysm.t0, sysm.q0)) @ np.asarray(sysm.la_g0, dtype=float))[ur]
            _report(ctx, "ref.assembled_at_rest", "System.assemble", "constraint forces W_g*la_g0 of a rod at rest in its reference configuration are not zero",
                    fg, np.zeros_like(fg), 1e-8 * sc.f, ex)


def _nodal_sum(R, f_sys):
    """sum over the nodes of the centre-line part of a generalized force vector (system size)"""
    f = np.asarray(f_sys, dtype=float)[R.rod.uDOF]
    v, _ = rodgen.unpack_u(f, R.nn)
    return v.sum(axis=0), float(np.abs(v).sum())


def state_checks(ctx, R, rng, sc, label, q_rod):
    sysm, rod, nn = R.system, R.rod, R.nn
    fname = rodgen.formulation_name(R.spec)
    t = float(rng.uniform(0, 2))
    u_rod = R.random_velocity(rng, float(loguniform(rng, 0.1, 10)))
    q, u = R.qsys(q_rod), R.usys(u_rod)
    la_c = rng.normal(size=sysm.nla_c) * R.kmax * float(loguniform(rng, 1e-2, 1.0)) if R.nla_c else None
    la_g = rng.normal(size=sysm.nla_g) * R.kmax * float(loguniform(rng, 1e-2, 1.0)) if R.nla_g else None
    ex0 = {"formulation": fname, "state": label}

    E = float(sysm.E_pot(t, q))
    h = sysm.h(t, q, u)
    c = sysm.c(t, q, u, la_c) if R.nla_c else None
    g = sysm.g(t, q) if R.nla_g else None
    Wc = dense(sysm.W_c(t, q)) @ la_c if R.nla_c else None
    Wg = dense(sysm.W_g(t, q)) @ la_g if R.nla_g else None
    lam_c = float(np.max(np.abs(la_c))) / R.kmax if R.nla_c else 0.0

    # ---- self-equilibrium ------------------------------------------------
    for mon, site, vec, what in (("resultant.h", "System.h", h, "internal forces h"),
                                 ("resultant.W_c", "System.W_c", Wc, "compliance forces W_c*la_c"),
                                 ("resultant.W_g", "System.W_g", Wg, "internal-constraint forces W_g*la_g")):
        if vec is None:
            continue
        S, A = _nodal_sum(R, vec)
        ctx.mon(mon)
        if not np.all(np.isfinite(S)) or float(np.max(np.abs(S))) > 1e-10 * A + 1e-300:
            ctx.violation(site, "nodal centre-line forces of the rod (%s) do not sum to zero" % what,
                          {"resultant": S, "sum_of_magnitudes": A, **ex0})

    # ---- objectivity -------------------------------------------------------
    big_angle = 0.0
    for _ in range(3):
        Rm, cvec, mlab, ang = _random_motion(rng, R.L)
        ctx.cls("motion:" + mlab.split("/")[0])
        ctx.cls("motion:" + mlab.split("/")[1])
        q2_rod = rodgen.rigid_motion(q_rod, nn, Rm, cvec)
        q2 = R.qsys(q2_rod)
        d = max(sc.delta(q_rod, nn), sc.delta(q2_rod, nn))
        ex = {**ex0, "motion": mlab, "rotation": Rm, "translation": cvec}
        E2 = float(sysm.E_pot(t, q2))
        _report(ctx, "obj.E_pot", "System.E_pot", "strain energy changes under a superposed rigid motion",
                E2, E, 1e-8 * max(abs(E), abs(E2)) + 100 * d * sc.E, ex)
        if R.nla_c:
            c2 = sysm.c(t, q2, u, la_c)
            _report(ctx, "obj.c", "System.c", "compliance residual c(q, u, la_c) changes under a superposed rigid motion",
                    c2, c, 1e-8 * float(np.max(np.abs(c))) + 100 * d * sc.res * (1 + lam_c), ex)
        if R.nla_g:
            g2 = sysm.g(t, q2)
            _report(ctx, "obj.g", "System.g", "internal-constraint residual g(q) changes under a superposed rigid motion",
                    g2, g, 1e-8 * float(np.max(np.abs(g))) + 100 * d * sc.res, ex)
        big_angle = max(big_angle, ang)
        # translations leave the internal forces unchanged
        q3_rod = rodgen.rigid_motion(q_rod, nn, np.eye(3), cvec)
        q3 = R.qsys(q3_rod)
        d3 = max(sc.delta(q_rod, nn), sc.delta(q3_rod, nn))
        ex3 = {**ex0, "translation": cvec}
        h3 = sysm.h(t, q3, u)
        hs = float(np.max(np.abs(h[rod.uDOF])))
        _report(ctx, "obj.h_translation", "System.h", "internal forces change under a translation of all nodes",
                h3[rod.uDOF], h[rod.uDOF], 1e-8 * hs + 100 * d3 * sc.f, ex3)
        if R.nla_c:
            Wc3 = dense(sysm.W_c(t, q3)) @ la_c
            _report(ctx, "obj.Wc_translation", "System.W_c", "compliance forces W_c*la_c change under a translation of all nodes",
                    Wc3[rod.uDOF], Wc[rod.uDOF], 1e-8 * float(np.max(np.abs(Wc))) + 100 * d3 * sc.f * (1 + lam_c), ex3)
        if R.nla_g:
            Wg3 = dense(sysm.W_g(t, q3)) @ la_g
            lam_g = float(np.max(np.abs(la_g))) / R.kmax
            _report(ctx, "obj.Wg_translation", "System.W_g", "internal-constraint forces W_g*la_g change under a translation of all nodes",
                    Wg3[rod.uDOF], Wg[rod.uDOF], 1e-8 * float(np.max(np.abs(Wg))) + 100 * d3 * sc.f * (1 + lam_g), ex3)
    return E, big_angle


def run_case(spec, ctx):
    env.import_cardillo()
    rng = ctx.rng
    with warnings.catch_warnings():
        warnings.simplefilter("ignore")
        R = rodgen.guarded(ctx, "rod construction / System.assemble", rodgen.build, spec, rng)
        if R is None:
            ctx.sig([spec, "construction failed"], nontrivial=False)
            return
        for c in rodgen.classes(spec):
            ctx.cls(c)
        ctx.cls("Qnorm:" + spec.get("Qnorm", "unit"))
        ctx.cls("q0:" + spec.get("q0", "reference"))
        if R.assemble_error:
            ctx.count("assemble_with_consistent_initial_conditions_failed")
            ctx.extra("assemble_error_example", {"formulation": rodgen.formulation_name(spec), "nel": spec["nel"],
                                                 "error": R.assemble_error})
        sc = Scales(R)
        rodgen.guarded(ctx, "rod routines at the reference configuration", reference_checks, ctx, R, rng, sc)
        states = [("reference", R.Q.copy())]
        states.append(("deformed/unit", R.perturbed_state(rng, amp=float(rng.uniform(0.05, 0.5)), qnorm="unit")))
        r = rng.random()
        qn = "moderate" if r < 0.5 else ("common" if r < 0.75 else "extreme")
        states.append(("deformed/nonunit:" + qn, R.perturbed_state(rng, amp=float(rng.uniform(0.05, 0.5)), qnorm=qn)))
        states.append(("slightly deformed/unit", R.perturbed_state(rng, qnorm="unit", tiny=float(loguniform(rng, 1e-8, 1e-2)))))
        states.append(("deformed/nonunit:tiny", R.perturbed_state(rng, amp=float(rng.uniform(0.05, 0.5)), qnorm="tiny")))
        nontrivial = False
        for label, q_rod in states:
            ctx.cls("state:" + label)
            out = rodgen.guarded(ctx, "rod energy / force / residual routines", state_checks, ctx, R, rng, sc, label, q_rod)
            if out is None:
                continue
            E, ang = out
            if label.startswith("deformed") and E > 1e-12 * sc.E and ang > 0.1:
                nontrivial = True
    ctx.sig([spec, [float(x) for x in states[1][1][:8]]], nontrivial=nontrivial)
    ctx.sample({"formulation": rodgen.formulation_name(spec), "nel": spec["nel"], "ref": spec["ref"], "Qnorm": spec.get("Qnorm"),
                "material": spec["material"], "L": R.L, "k_max": R.kmax, "assemble": spec.get("assemble")})


META = {
    "level_text": "Exploration: rods of every formulation family are generated inside real Systems; the reference "
                  "configuration (unit and non-unit nodal quaternions) is checked for zero strain energy, internal forces, "
                  "compliance/constraint residuals and zero consistent initial accelerations/multipliers; rigid motions applied "
                  "by the harness to reference and random deformed states must leave E_pot, c and g unchanged and translations "
                  "must leave h, W_c la_c, W_g la_g unchanged; nodal centre-line forces must sum to zero for arbitrary "
                  "multipliers. Held on the rods, states and motions generated, not a proof.",
    "level_note": "tolerances follow a rounding model that grows with |translation|/node spacing (translations up to 1e3 rod "
                  "lengths); relative nodal rotations stay below pi; mixed formulations only with the quadratic law Simo1986.",
    "technique": "runtime return-value monitors with closed-form identities (metamorphic rigid-motion relations) on generated rod systems",
}
