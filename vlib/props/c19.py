"""C19 RATTLE is second order, drift-free and reversible on conservative systems."""

import os
import warnings
import numpy as np
from vlib import env, gen, consgen

ID = "C19"
LEVEL = "exploration"
RULE = ("each case generates one random conservative constrained system without contacts (open tree rooted in a fixed "
        "Frame; PointMass / RigidBody; Spherical / Revolute / FixedDistance joints; force-form Springs on "
        "TwoPointInteraction; gravity as Force; consistent initial state built by forward position and velocity kinematics), "
        "integrates it with the real Rattle and decides ONE clause on the returned Solution with the total energy "
        "1/2 u'M(q)u + E_pot from the real System: 'drift' (long run, energy-error envelope of the last third vs the first "
        "third), 'order' (same horizon at dt, dt/2, dt/4: ratio of energy errors and of state differences), 'reverse' (N steps, "
        "FRESH system at (q_N, -u_N) with the joints restated body-fixed, N steps, back at (q0, -u0)). distinct = system "
        "parameters + initial state + dt + horizon; non-trivial = the system moves and the measured error is above the "
        "Newton floor (drift/order) resp. the state after N steps differs from the initial state (reverse)")
NEWTON_TOL = 1e-11
# Reversibility: tolerance on max(|q_back - q0|/(1+|q0|), |u_back + u0|/(1+|u0|)).  Calibrated once on the unchanged
# tree (seeds 0..4, both tiers; largest value observed see CALIBRATION below) x10 and frozen.
REV_TOL = 2.0e-6
CALIBRATION = "largest reversibility defect on the unchanged tree over seeds 0..4 x both tiers: see evidence counter rev_defect_max"
ASSUMPTIONS = [
    f"Newton tolerances newton_atol = newton_rtol = {NEWTON_TOL:g} (fresh SolverOptions per solver and per assemble)",
    "energy noise floor per run: steps * sqrt(n_x) * (newton_atol + newton_rtol * dt*|h|max) * |u|max (worst-case linear accumulation of "
    "the per-step Newton residual bound); order ratios are decided only when both errors are >= 100 floors, otherwise undecided",
    "drift clause decided in the regular regime only (chains started in a stable hanging equilibrium with moderate velocities, and "
    "one-body one-joint systems): there the error envelope is stationary and 'last third <= 2 x first third + floor' is meaningful; for "
    "chaotic multi-body motion the envelope of a bounded error fluctuates by more than the factor three a linear drift would produce",
    "order ratio from three runs (dt, dt/2, dt/4) over the same horizon: energy errors e(dt/2)/e(dt/4) on the common time points and "
    "state differences |x(dt)-x(dt/2)| / |x(dt/2)-x(dt/4)| must lie in [3, 5.5]",
    f"reversibility tolerance REV_TOL = {REV_TOL:g} (relative), calibrated on the unchanged tree and frozen; the chaotic "
    "amplification of the Newton residuals over the 2N steps is inside this constant",
    "a RuntimeError 'Newton is not converged' raised by the solver (step too large for the motion) is counted as undecided",
]
REQUIRED_MONITORS = ["DRIFT:envelope", "ORDER:energy", "ORDER:state", "REVERSE:return"]
META = {
    "level_text": "Exploration: the real Rattle integrates generated conservative constrained systems (pendula and chains of point masses and rigid bodies with spherical, revolute and fixed-distance joints, force-form springs, gravity); per run the energy computed with the real System methods decides boundedness of the energy error, the factor-four reduction under step halving, and the return to the reversed initial state after velocity reversal on a freshly built system. Held on the systems, step sizes and horizons generated.",
    "level_note": "float64; horizons of 1200-2400 steps for the drift clause (regular regime only), 16-64 coarse steps for the order clause, 40-160 steps for reversal; reversibility tolerance calibrated on the unchanged tree and frozen.",
    "technique": "runtime trace monitors on the returned Solution (energy envelope, Richardson-type order ratio, velocity-reversal round trip on a rebuilt system)",
}
CASE_TIMEOUT = 300
WALL_BUDGET = {"quick": 900, "thorough": 3600}
MIN_DECIDED = 0.6
DEBUG = bool(os.environ.get("C19_DEBUG"))


def cases(tier, seed):
    n = {"quick": 1, "thorough": 12}[tier]
    out = []
    fams = consgen.FAMILIES
    for rep in range(n):
        # drift: 16 per repetition
        for i, fam in enumerate(fams):
            for nb in (1, 2, 3):
                out.append({"mode": "drift", "family": fam, "nb": nb, "layout": "hanging", "dt": [0.01, 0.005][(i + nb + rep) % 2]})
            out.append({"mode": "drift", "family": fam, "nb": 1, "layout": "random1", "dt": [0.005, 0.01][(i + rep) % 2]})
        # order / reverse: 24 each per repetition
        for mode in ("order", "reverse"):
            for i, fam in enumerate(fams):
                for nb in (1, 2, 3):
                    for layout in ("random", "hanging"):
                        out.append({"mode": mode, "family": fam, "nb": nb, "layout": layout, "variant": (i + nb + rep) % 3})
    return out


def _opts():
    from cardillo.solver import SolverOptions
    return SolverOptions(newton_atol=NEWTON_TOL, newton_rtol=NEWTON_TOL, newton_max_iter=50)


class SolverRefused(Exception):
    pass


def _run(model, states, t0, dt, nsteps):
    """fresh system, assemble, N RATTLE steps. Returns (system, subs, sol)."""
    from cardillo.solver import Rattle
    with gen.quiet(), warnings.catch_warnings():
        warnings.simplefilter("ignore")
        system, subs, _, _ = consgen.build(model, states, t0)
        system.assemble(options=_opts())
        try:
            sol = Rattle(system, t0 + (nsteps - 0.5) * dt, dt, options=_opts()).solve()
        except RuntimeError as e:
            if "not converged" in str(e):
                raise SolverRefused(str(e))
            raise
    return system, subs, sol


def _energy(system, sol, stride=1):
    idx = np.arange(0, len(sol.t), stride)
    E = np.empty(len(idx))
    for j, k in enumerate(idx):
        u = sol.u[k]
        M = system.M(sol.t[k], sol.q[k], format="csr")
        E[j] = 0.5 * float(u @ (M @ u)) + float(system.E_pot(sol.t[k], sol.q[k]))
    return E


def _floor(system, sol, dt):
    """worst-case energy effect of the Newton residuals accumulated over the run"""
    nx = system.nq + system.nu + system.nla_g
    k = len(sol.t) // 2
    hmax = max(float(np.abs(system.h(sol.t[i], sol.q[i], sol.u[i])).max()) for i in (0, k, -1))
    umax = float(np.abs(sol.u).max())
    return (len(sol.t) - 1) * np.sqrt(nx) * NEWTON_TOL * (1.0 + dt * hmax) * max(umax, 1e-3)


def _describe(model, dt, extra):
    return {"family": model["family"], "layout": model["layout"], "bodies": [b["kind"] for b in model["bodies"]],
            "joints": [j["kind"] for j in model["joints"]], "springs": len(model["springs"]), "dt": dt, **extra}


def run_case(spec, ctx):
    env.import_cardillo()
    rng = ctx.rng
    mode, fam, nb = spec["mode"], spec["family"], spec["nb"]
    layout = spec["layout"]
    springs = True
    if layout == "random1":
        # one body, one joint, arbitrary energy: revolute pendulum with springs (1 DOF) / spherical pendulum without spring (integrable)
        springs = fam == "rb_revolute"
        if fam not in ("rb_revolute", "pm_fixeddistance"):
            layout = "hanging"
    moving = not (layout != "hanging" and rng.random() < 0.2)     # some large-amplitude systems start at rest
    far = float(rng.uniform(1e3, 5e3)) if rng.random() < 0.3 else None
    model, poses, vels = consgen.random_model(rng, fam, nb, springs=springs, moving=moving,
                                              layout="hanging" if layout == "hanging" else "random", far=far)
    ctx.cls("world:far_from_origin" if far else "world:near_origin")
    ctx.cls("springs:compliance_form" if any(sp.get("compliance") for sp in model["springs"]) else "springs:force_form_only")
    if any(sp.get("internal") for sp in model["springs"]):
        ctx.cls("springs:internal_pair_on_one_body")
    model["layout"] = layout
    states = consgen.state_arrays(model, poses, vels)
    t0 = float(np.round(rng.normal(), 3)) if rng.random() < 0.4 else 0.0
    ctx.cls(f"mode:{mode}")
    ctx.cls(f"family:{fam}:{nb}")
    ctx.cls(f"layout:{layout}")
    for j in model["joints"]:
        ctx.cls(f"joint:{j['kind']}")
    for b in model["bodies"]:
        ctx.cls(f"body:{b['kind']}")
    ctx.cls("start:moving" if moving else "start:at_rest")
    ctx.cls("t0:nonzero" if t0 else "t0:zero")
    sigdata = [mode, fam, nb, layout, t0, [s[0].tolist() for s in states], [s[1].tolist() for s in states]]
    try:
        if mode == "drift":
            _drift(spec, ctx, model, states, t0, sigdata)
        elif mode == "order":
            _order(spec, ctx, model, states, t0, sigdata)
        else:
            _reverse(spec, ctx, model, states, t0, sigdata)
    except SolverRefused as e:
        ctx.undecided(f"solver refused the step size: {e}")
        ctx.count("solver_refused")
        ctx.sig(sigdata, nontrivial=False)


# ---------------------------------------------------------------------------------------------
def _drift(spec, ctx, model, states, t0, sigdata):
    dt = spec["dt"]
    n = 1200 if ctx.tier == "quick" or ctx.rng.random() < 0.7 else 2400
    system, subs, sol = _run(model, states, t0, dt, n)
    E = _energy(system, sol)
    dE = np.abs(E - E[0])
    third = len(E) // 3
    first, last = float(dE[:third].max()), float(dE[-third:].max())
    floor = _floor(system, sol, dt)
    det = _describe(model, dt, {"steps": n, "t0": t0, "E0": float(E[0]), "max_first_third": first, "max_last_third": last,
                                "floor": floor, "nq": system.nq, "nla_g": system.nla_g})
    ctx.mon("DRIFT:envelope")
    above = first >= 10 * floor
    ctx.cls("drift:above_floor" if above else "drift:at_floor")
    if DEBUG:
        print("C19DBG drift", model["family"], len(model["bodies"]), model["layout"], dt, f"first={first:.3e} last={last:.3e} ratio={last/max(first,1e-300):.3f} floor={floor:.2e}", flush=True)
    if not np.all(np.isfinite(E)):
        ctx.violation("Rattle.solve/energy", "non-finite energy along the run", det)
    elif last > 2.0 * first + floor:
        # a drift moves the MEAN energy error (a linear trend that triples the envelope shifts the mean of the last third by two
        # thirds of it); an envelope that swells because modes beat against each other leaves the mean where it was - seen on
        # the unchanged tree for a three-body chain, where the envelope rises for 25 s and falls again while the mean wanders
        # by a tenth of it (DESIGN 8.4). Such a case is not decided by a run of this length.
        sE = E - E[0]
        shift = abs(float(sE[-third:].mean()) - float(sE[:third].mean()))
        det.update({"mean_shift_first_to_last_third": shift})
        if shift > 0.25 * last:
            ctx.violation("Rattle.solve/energy", "energy-error envelope grows: maximum over the last third exceeds twice the maximum over the first third", det)
        else:
            ctx.count("drift:envelope_modulated_without_shift_of_the_mean")
            ctx.undecided("energy-error envelope larger in the last third, but its mean has not moved: modulation or drift cannot be told apart in a run of this length")
    ctx.rec["extra"]["drift_ratio_list"] = [round(last / max(first, floor, 1e-300), 3)]
    ctx.sig(sigdata + [dt, n], nontrivial=above and float(np.abs(sol.u).max()) > 0)
    ctx.sample(det)


# ---------------------------------------------------------------------------------------------
def _order(spec, ctx, model, states, t0, sigdata):
    hanging = model["layout"] == "hanging"
    coarse = (0.02, 0.01, 0.01)[spec["variant"]] if hanging else (0.01, 0.005, 0.004)[spec["variant"]]
    ncoarse = int(ctx.rng.choice([32, 64] if hanging else [16, 32, 64]))
    tmax = 1.3 if hanging else 0.65          # stay in the asymptotic regime: at most about one period
    if coarse * ncoarse > tmax:
        ncoarse = int(tmax / coarse)
    runs = []
    for lev in range(3):
        dt = coarse / 2**lev
        system, subs, sol = _run(model, states, t0, dt, ncoarse * 2**lev)
        if len(sol.t) != ncoarse * 2**lev + 1:
            raise RuntimeError(f"harness: expected {ncoarse * 2**lev} steps, got {len(sol.t) - 1}")
        E = _energy(system, sol, stride=2**lev)
        runs.append({"dt": dt, "err": float(np.abs(E - E[0]).max()), "x": np.concatenate([sol.q[-1], sol.u[-1]]),
                     "floor": _floor(system, sol, dt), "umax": float(np.abs(sol.u).max())})
    e0, e1, e2 = (r["err"] for r in runs)
    floorE = max(r["floor"] for r in runs)
    d1 = float(np.linalg.norm(runs[0]["x"] - runs[1]["x"]))
    d2 = float(np.linalg.norm(runs[1]["x"] - runs[2]["x"]))
    nx = runs[0]["x"].size
    floorX = (ncoarse * 4) * np.sqrt(nx) * NEWTON_TOL * 10.0        # accumulated Newton residuals on the state (x10 for amplification)
    det = _describe(model, coarse, {"coarse_steps": ncoarse, "t0": t0, "energy_errors": [e0, e1, e2], "state_differences": [d1, d2],
                                    "energy_floor": floorE, "state_floor": floorX})
    if DEBUG:
        print("C19DBG order", model["family"], len(model["bodies"]), model["layout"], coarse, ncoarse,
              f"rE1={e0/max(e1,1e-300):.3f} rE2={e1/max(e2,1e-300):.3f} rX={d1/max(d2,1e-300):.3f} e2={e2:.2e} floorE={floorE:.2e} d2={d2:.2e} floorX={floorX:.2e}", flush=True)
    nontrivial = False
    # energy error shrinks by about four
    if min(e1, e2) >= 100 * floorE:
        ctx.mon("ORDER:energy")
        nontrivial = True
        r = e1 / e2
        det["energy_ratio"] = r
        ctx.rec["extra"]["order_energy_ratio_list"] = [round(r, 3)]
        if not (3.0 <= r <= 5.5):
            ctx.violation("Rattle.solve/order", "energy error does not shrink by about four when the step is halved", det)
    else:
        ctx.count("order_energy_at_floor")
    if min(d1, d2) >= 100 * floorX:
        ctx.mon("ORDER:state")
        nontrivial = True
        r = d1 / d2
        det["state_ratio"] = r
        ctx.rec["extra"]["order_state_ratio_list"] = [round(r, 3)]
        if r > 5.5:
            # shrinking FASTER than four is not a loss of order: the coarsest step is not yet in the asymptotic regime (a stiff
            # spring, omega*dt ~ 1; seen on the unchanged tree with ratios 10.9 and 6.6 on successive halvings while the energy
            # ratio, which is what the property names, was 4.03). Counted, not judged.
            ctx.count("order_state_shrinks_faster_than_four")
            r = 4.0
        if not (3.0 <= r <= 5.5):
            ctx.violation("Rattle.solve/order", "state differences between successive step halvings shrink by clearly less than four", det)
    else:
        ctx.count("order_state_at_floor")
    if not nontrivial:
        ctx.undecided("errors at the Newton floor")
    ctx.sig(sigdata + [coarse, ncoarse], nontrivial=nontrivial)
    ctx.sample(det)


# ---------------------------------------------------------------------------------------------
def _reverse(spec, ctx, model, states, t0, sigdata):
    dt = (0.01, 0.005, 0.02)[spec["variant"]] if model["layout"] == "hanging" else (0.01, 0.005, 0.0025)[spec["variant"]]
    N = int(ctx.rng.choice([40, 80, 160]))
    system, subs, sol = _run(model, states, t0, dt, N)
    if len(sol.t) != N + 1:
        raise RuntimeError(f"harness: expected {N} steps, got {len(sol.t) - 1}")
    q0, u0 = sol.q[0].copy(), sol.u[0].copy()
    qN, uN = sol.q[-1].copy(), sol.u[-1].copy()
    back_states = consgen.split_state(subs, qN, -uN)
    det = _describe(model, dt, {"steps": N, "t0": t0})
    ctx.mon("REVERSE:return")
    try:
        system2, subs2, sol2 = _run(model, back_states, float(sol.t[-1]), dt, N)
    except SolverRefused:
        raise
    except AssertionError as e:
        ctx.violation("Rattle.solve/reverse", "state reached by RATTLE is not accepted as a consistent initial state of the same system",
                      {**det, "error": str(e)[:200]})
        ctx.sig(sigdata + [dt, N], nontrivial=True)
        return
    if len(sol2.t) != N + 1:
        raise RuntimeError(f"harness: expected {N} steps, got {len(sol2.t) - 1}")
    # same ordering of coordinates in both systems (same construction order)
    qb, ub = sol2.q[-1], sol2.u[-1]
    eq = float(np.abs(qb - q0).max() / (1.0 + np.abs(q0).max()))
    eu = float(np.abs(ub + u0).max() / (1.0 + np.abs(u0).max()))
    moved = float(np.abs(qN - q0).max())
    defect = max(eq, eu)
    det.update({"defect_q": eq, "defect_u": eu, "moved": moved, "tol": REV_TOL})
    ctx.rec["extra"]["rev_defect_list"] = [defect]
    if DEBUG:
        print("C19DBG reverse", model["family"], len(model["bodies"]), model["layout"], dt, N, f"eq={eq:.2e} eu={eu:.2e} moved={moved:.2e}", flush=True)
    if not np.isfinite(defect) or defect > REV_TOL:
        ctx.violation("Rattle.solve/reverse", "forward N steps, velocity reversal, N steps does not return to the initial state with reversed velocities", det)
    ctx.sig(sigdata + [dt, N], nontrivial=moved > 1e-3)
    ctx.sample(det)


def finalize(agg):
    reasons = []
    ex = agg["extra"]
    recs = agg["recs"]

    def collect(key):
        out = []
        for r in recs:
            out.extend(r.get("extra", {}).get(key, []) or [])
        return out

    dr, oe, os_, rv = collect("drift_ratio_list"), collect("order_energy_ratio_list"), collect("order_state_ratio_list"), collect("rev_defect_list")
    out = {}
    if dr:
        out["drift_ratio_max"] = max(dr)
    if oe:
        out["order_energy_ratio_min_max"] = [min(oe), max(oe)]
    if os_:
        out["order_state_ratio_min_max"] = [min(os_), max(os_)]
    if rv:
        out["rev_defect_max"] = max(rv)
    agg["extra_out"] = out
    for k in ("drift_ratio_list", "order_energy_ratio_list", "order_state_ratio_list", "rev_defect_list"):
        ex.pop(k, None)
    c = agg["classes"]
    if c.get("drift:above_floor", 0) < 0.5 * max(1, agg["monitors"].get("DRIFT:envelope", 0)):
        reasons.append("fewer than half of the drift runs had an energy error above the Newton floor")
    return reasons
