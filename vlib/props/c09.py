"""C09 Scalar force laws default to a stress-free initial configuration."""

import numpy as np
from vlib import env, gen, forcegen
from vlib.oracles import dense

ID = "C09"
LEVEL = "exploration"
RULE = ("each case: one of {Spring, KelvinVoigtElement (force/compliance form), MaxwellElement} created WITHOUT l_ref on a "
        "TwoPointInteraction (all pairings of fixed Frame / PointMass / RigidBody, offsets) or on a Revolute joint (bodies, or cross-sections xi of curved rods; angle0 in "
        "[-3pi, 3pi] or default, random joint frames, t0 != 0), interaction added to the system or not, law added before or "
        "after the interaction; the real System.assemble() (including consistent initial conditions) must succeed and "
        "E_pot(t0,q0) = 0, h(t0,q0,u0) = 0, la_c(t0,q0,u0) = 0 with the bodies at rest. distinct = law + pairing + "
        "parameters; non-trivial = k != 0 and nonzero initial length / angle")
ASSUMPTIONS = ["bodies start at rest; with fixed frames the relative velocity is zero as the property requires; for pairings with a prescribed-motion frame (t0 != 0 matters there) only the stored energy is judged for damped laws",
               "zero means |.| <= 1e-10 * k * (1 + |l0|)"]
REQUIRED_MONITORS = ["assemble", "zero_energy", "zero_force"]
META = {
    "level_text": "Exploration: post-condition on the real System.assemble() for every force-law class x supported subsystem x initial configuration generated: assembly succeeds and energy and force vanish at (t0, q0, u0). Held on the systems generated.",
    "level_note": "bodies at rest, fixed frames; tolerance 1e-10 relative to k(1+|l0|).",
    "technique": "runtime post-condition monitor on System.assemble",
}
PAIRS_TPI = [("fixed_frame", "rigid_body"), ("fixed_frame", "point_mass"), ("point_mass", "point_mass"), ("rigid_body", "rigid_body"),
             ("rigid_body", "point_mass"), ("point_mass", "fixed_frame"), ("rigid_body", "fixed_frame"),
             ("moving_frame", "point_mass"), ("rigid_body", "rotating_frame"),
             ("rod", "rigid_body"), ("point_mass", "rod"), ("rod", "rod"), ("fixed_frame", "rod")]
PAIRS_REV = [("fixed_frame", "rigid_body"), ("rigid_body", "rigid_body"), ("rigid_body", "fixed_frame"),
             ("rod", "rigid_body"), ("rigid_body", "rod"), ("rod", "rod"), ("fixed_frame", "rod")]


def cases(tier, seed):
    out = []
    reps = {"quick": 2, "thorough": 40}[tier]
    for r in range(reps):
        for law in forcegen.LAWS:
            for p in PAIRS_TPI:
                for added in (False, True):
                    out.append({"law": law, "sub": "tpi", "pair": list(p), "added": added, "law_first": (r + len(out)) % 2 == 0})
            for p in PAIRS_REV:
                for a0 in ("default", "random"):
                    out.append({"law": law, "sub": "rev", "pair": list(p), "added": True, "angle0": a0, "law_first": (r + len(out)) % 2 == 0})
            for p in (("fixed_frame", "rigid_body"), ("rigid_body", "rigid_body"), ("moving_frame", "rigid_body"), ("rotating_frame", "rigid_body")):
                out.append({"law": law, "sub": "rev_late", "pair": list(p)})
    return out


def run_late(spec, ctx):
    """the joint exists and the system was assembled before; the system is re-initialised at another admissible state (restart
    workflow); THEN a force law without reference length is attached and the system assembled again: 'the initial
    configuration' is the one of this assembly"""
    from cardillo import System
    from cardillo.solver import SolverOptions
    import cardillo.constraints as C
    from vlib.oracles import quat_to_mat
    rng = ctx.rng
    t0 = float(rng.normal()) if rng.random() < 0.5 else 0.0
    det = dict(spec); det["t0"] = t0
    with gen.quiet():
        system = System(t0=t0)
        subs, mots = [], []
        for kind, nm in zip(spec["pair"], ("a", "b")):
            s_, _, _, m = gen.make_subsystem(rng, kind, nm)
            subs.append(s_); mots.append(m)
        for s_ in subs:
            if getattr(s_, "nu", 0):
                s_.u0 = np.zeros(s_.nu)
        if mots[0] is not None and (mots[0].moving or mots[0].rotating):
            # the body rides on the prescribed-motion frame at t0 (no relative velocity)
            m_, b_ = mots[0], subs[1]
            A_f = m_.A(t0) if m_.rotating else m_.A0
            Om_f = A_f @ m_.omega_B(t0) if m_.rotating else np.zeros(3)
            b_.u0 = np.concatenate([m_.r_t(t0) + np.cross(Om_f, b_.q0[:3] - m_.r(t0)), quat_to_mat(b_.q0[3:]).T @ Om_f])
        axis = int(rng.integers(3))
        angle0 = float(rng.uniform(-3 * np.pi, 3 * np.pi)) if rng.random() < 0.7 else 0.0
        joint = C.Revolute(subs[0], subs[1], axis, angle0=angle0, r_OJ0=rng.normal(size=3), A_IJ0=quat_to_mat(rng.normal(size=4)), name="joint")
        system.add(*subs); system.add(joint)
        ctx.cls(f"law:{spec['law']}"); ctx.cls(f"sub:rev_late:{spec['pair'][0]}-{spec['pair'][1]}")
        ctx.mon("assemble")
        try:
            system.assemble(options=SolverOptions())
            model = forcegen.RevoluteModel(system, joint, subs, mots)
            phi = float(rng.uniform(0.3, 1.2)) * (1 if rng.random() < 0.5 else -1)
            joint.l(system.t0, system.q0[joint.qDOF])
            # the restart happens LATER: a prescribed-motion partner is somewhere else by then, the new initial configuration is
            # the closed joint at that time (the body moves with the frame, relative rate zero)
            t1 = system.t0 + float(rng.uniform(0.1, 1))
            q1, u1 = model.manifold_state(rng, t1, phi, 0.0, u_ind=np.zeros(6))
            system.set_new_initial_state(q1, u1, t0=t1, options=SolverOptions())
            elem, linfo = forcegen.make_law(rng, spec["law"], joint, l_ref=None)
            system.add(elem)
            system.assemble(options=SolverOptions())
        except Exception as e:
            ctx.violation(f"{spec['law']}@rev_late.assemble", "attaching a force law without explicit reference length after a re-initialisation fails",
                          {**det, "error": f"{type(e).__name__}: {e}"[:300]})
            ctx.sig([det], nontrivial=True); ctx.sample(det)
            return
        det.update(linfo); det.update({"axis": axis, "angle0": angle0, "phi_at_reinitialisation": phi})
        t, q, u = system.t0, system.q0, system.u0
        l0 = float(joint.l(t, q[joint.qDOF]))
        k = linfo["k"]
        tol = 1e-10 * k * (1 + abs(l0))
        ex = {**det, "l0": l0, "l_ref": getattr(elem, "l_ref", None)}
        ctx.mon("zero_energy")
        E = float(system.E_pot(t, q))
        if abs(E) > tol * (1 + abs(l0)):
            ctx.violation(f"{spec['law']}@rev_late.E_pot", "element attached after a re-initialisation stores energy in the (new) initial configuration although no reference length was given", {**ex, "E_pot": E})
        ctx.mon("zero_force")
        h = system.h(t, q, u)
        for c_ in system.contributions:
            # (a body riding on a rotating frame spins: its own gyroscopic forces are not the element's)
            if c_ is not elem and hasattr(c_, "h") and hasattr(c_, "B_Theta_C"):
                h[c_.uDOF] -= c_.h(t, q[c_.qDOF], u[c_.uDOF])
        if np.abs(h).max() > tol * 10:
            ctx.violation(f"{spec['law']}@rev_late.h", "element attached after a re-initialisation exerts a force in the (new) initial configuration although no reference length was given", {**ex, "h": h})
        if system.nla_c and np.abs(system.la_c(t, q, u)).max() > tol:
            ctx.violation(f"{spec['law']}@rev_late.la_c", "compliance-form force is nonzero in the (new) initial configuration", {**ex, "la_c": system.la_c(t, q, u)})
    ctx.sig([det], nontrivial=True)
    ctx.sample(det)


def run_case(spec, ctx):
    env.import_cardillo()
    if spec["sub"] == "rev_late":
        return run_late(spec, ctx)
    from cardillo import System
    from cardillo.solver import SolverOptions
    import cardillo.constraints as C
    rng = ctx.rng
    t0 = float(rng.normal()) if rng.random() < 0.5 else 0.0
    det = dict(spec); det["t0"] = t0
    with gen.quiet():
        system = System(t0=t0)
        if spec["sub"] == "tpi":
            subs, mots, inter, info = forcegen.build_tpi(rng, tuple(spec["pair"]))
        else:
            subs, mots = [], []
            xis = []
            for kind, nm in zip(spec["pair"], ("a", "b")):
                if kind == "rod":
                    # joint on a rod cross-section (xi1 / xi2 of the joint); the rod starts in its curved, twisted, stress-free
                    # reference configuration, so the only force in the system is the one of the attached element
                    from vlib import rodlite
                    s, xi, rinfo = rodlite.simple_rod(rng, name=nm, nel=int(rng.integers(2, 5)), curved=True)
                    m = None
                    if rinfo["interp"] == "R12" and rinfo["xi_class"] == "interior":
                        # joints on non-nodal cross-sections of curved R12 rods do not assemble (finding recorded under C05,
                        # independent of force laws): such a rod is connected at a node here
                        xi = float(int(rng.integers(0, rinfo["nel"] + 1))) / rinfo["nel"]
                        rinfo = {**rinfo, "xi": xi, "xi_class": "node(moved from interior: R12)"}
                    det.setdefault("rods", []).append(rinfo)
                    ctx.cls(f"rod_end:{rinfo['interp']}{rinfo['p']}:xi={rinfo['xi_class']}")
                else:
                    s, _, _, m = gen.make_subsystem(rng, kind, nm)
                    xi = None
                subs.append(s); mots.append(m); xis.append(xi)
            placement = "given" if rng.random() < 0.6 else "default"
            r_OJ0 = rng.normal(size=3) if placement == "given" else None
            from vlib.oracles import quat_to_mat
            A_IJ0 = quat_to_mat(rng.normal(size=4)) if placement == "given" else None
            axis = int(rng.integers(3))
            kw = {}
            if spec["angle0"] == "random":
                kw["angle0"] = float(rng.uniform(-3 * np.pi, 3 * np.pi))
            if xis[0] is not None:
                kw["xi1"] = xis[0]
            if xis[1] is not None:
                kw["xi2"] = xis[1]
            inter = C.Revolute(subs[0], subs[1], axis, r_OJ0=r_OJ0, A_IJ0=A_IJ0, **kw)
            info = {"axis": axis, "placement": placement, **kw}
        for s in subs:  # at rest
            if hasattr(s, "u0") and getattr(s, "nu", 0):
                s.u0 = np.zeros(s.nu)
        if spec["sub"] == "tpi" and rng.random() < 0.35:
            # whole-number initial coordinates given as an INTEGER array (what a user writes as np.array([1, 0, 2]))
            pms = [s for s in subs if s.__class__.__name__ == "PointMass"]
            if pms:
                pm = pms[int(rng.integers(len(pms)))]
                qi = np.rint(np.asarray(pm.q0) * 3).astype(np.int64)
                if not np.any(qi):
                    qi[0] = 2
                pm.q0 = qi
                det["integer_q0"] = pm.name
                ctx.cls("q0:integer_array")
        elem, linfo = forcegen.make_law(rng, spec["law"], inter, l_ref=None)
        det.update(info); det.update(linfo)
        system.add(*subs)
        items = ([inter] if spec["added"] else [])
        items = [elem] + items if spec["law_first"] else items + [elem]
        system.add(*items)
        ctx.cls(f"law:{spec['law']}"); ctx.cls(f"sub:{spec['sub']}:{spec['pair'][0]}-{spec['pair'][1]}")
        ctx.cls("interaction_added" if spec["added"] else "interaction_not_added")
        ctx.mon("assemble")
        try:
            system.assemble(options=SolverOptions())
        except Exception as e:
            ctx.violation(f"{spec['law']}@{spec['sub']}.assemble", "system with a force law without explicit reference length fails to assemble",
                          {**det, "error": f"{type(e).__name__}: {e}"[:300]})
            ctx.sig([det], nontrivial=True)
            ctx.sample(det)
            return
        t, q, u = system.t0, system.q0, system.u0
        l0 = float(inter.l(t, q[inter.qDOF]))
        k = linfo["k"]
        tol = 1e-10 * k * (1 + abs(l0))
        ex = {**det, "l0": l0, "l_ref": getattr(elem, "l_ref", None)}
        ctx.mon("zero_energy")
        E = float(system.E_pot(t, q))
        if abs(E) > tol * (1 + abs(l0)):
            ctx.violation(f"{spec['law']}@{spec['sub']}.E_pot", "element stores energy in the initial configuration although no reference length was given", {**ex, "E_pot": E})
        ctx.mon("zero_force")
        h = system.h(t, q, u)
        moving = any(m is not None and (m.moving or m.rotating) for m in mots)
        damped = spec["law"].startswith("KelvinVoigt")
        if moving and damped:
            # a prescribed-motion end has nonzero relative velocity: the damper force d*l_dot is legitimate, only the
            # stored energy (checked above) must vanish
            ctx.cls("moving_end:damper_force_not_judged")
        elif np.abs(h).max() > tol * 10:
            ctx.violation(f"{spec['law']}@{spec['sub']}.h", "element exerts a force in the initial configuration although no reference length was given", {**ex, "h": h})
        if system.nla_c and not (moving and damped):
            la = system.la_c(t, q, u)
            if np.abs(la).max() > tol:
                ctx.violation(f"{spec['law']}@{spec['sub']}.la_c", "compliance-form force is nonzero in the initial configuration", {**ex, "la_c": la})
            if np.abs(system.la_c0).max() > tol:
                ctx.violation(f"{spec['law']}@{spec['sub']}.la_c0", "initial compliance force returned by assembly is nonzero", {**ex, "la_c0": system.la_c0})
        if spec["sub"] == "rev" and "rods" not in det and not moving:
            # a deep copy of the assembled system is its own system: winding the ORIGINAL joint through full turns afterwards
            # must not load the copy's element
            ctx.mon("zero_force")
            twin = system.deepcopy()
            model = forcegen.RevoluteModel(system, inter, subs, mots)
            turns = float(rng.uniform(1.2, 2.6)) * (1.0 if rng.random() < 0.5 else -1.0)
            qi_ = system.q0[subs[0].my_qDOF] if getattr(subs[0], "nq", 0) and getattr(subs[1], "nq", 0) else None
            for ph in np.linspace(0.0, turns * 2 * np.pi, int(abs(turns) * 2 * np.pi / 0.6) + 2):
                qw, _ = model.manifold_state(rng, t, l0 - info.get("angle0", 0.0) * 0 + ph, 0.0, q_ind=qi_)
                inter.l(t, qw[inter.qDOF])
            E2 = float(twin.E_pot(t, q)); h2 = twin.h(t, q, u)
            if abs(E2) > tol * (1 + abs(l0)) or np.abs(h2).max() > tol * 10 or (twin.nla_c and np.abs(twin.la_c(t, q, u)).max() > tol):
                ctx.violation(f"{spec['law']}@{spec['sub']}.deepcopy", "the element of a deep copy of the assembled system is loaded in its initial configuration after the ORIGINAL joint was wound through full turns",
                              {**ex, "turns_of_original": turns, "E_pot_copy": E2, "h_copy": h2})
            ctx.cls("deepcopy:original_wound_afterwards")
        if spec["sub"] == "rev" and spec["angle0"] == "random" and abs(l0 - info["angle0"]) > 1e-9 * (1 + abs(info["angle0"])):
            ctx.violation("Revolute.l", "initial joint angle differs from angle0", {**ex})
    ctx.sig([det], nontrivial=abs(l0) > 1e-6)
    ctx.sample(det)
