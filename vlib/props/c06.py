"""C06 Contact gaps and slip velocities are geometric and consistently differentiated."""

import numpy as np
from vlib import env, gen
from vlib import sysoracles as so
from vlib.oracles import dense as oracles_dense
from vlib.oracles import dense, quat_to_mat, loguniform, compare, fd_jac

ID = "C06"
LEVEL = "exploration"
RULE = ("each case builds one real System with one contact: Sphere2Plane (plane = Frame of constant random orientation, "
        "fixed or translating with smooth r(t); sphere carried by RigidBody or PointMass, radius 0..10, body-fixed centre "
        "offset, mu = 0 or in (0,1], anisotropy, e_N, e_F) or Sphere2Sphere (pairs of RigidBody / PointMass / moving Frame; "
        "with and without step_callback history); 3 states each (open, touching, penetrating; with and without spin; "
        "non-unit quaternions). Gap and slip velocity are compared with an independent geometric model, the remaining "
        "levels with T/W/D oracles on the System methods. distinct = contact kind + parameters + first state; "
        "non-trivial = friction present and nonzero spin")
ASSUMPTIONS = ["plane orientation constant in time (as the property states); translation with exact derivatives",
               "'explicitly declared unimplemented' is read as raising NotImplementedError; any other exception from an exposed System contact method is a violation",
               "tangent basis returned by the contact is only required to be orthonormal and perpendicular to the normal",
               "T/D oracles: Richardson central differences, violation iff error > 1e-6*max(1,|D|) + 20*uncertainty"]
REQUIRED_MONITORS = ["GEO:g_N", "GEO:revisit", "GEO:gamma_F", "T:g_dot", "T:g_ddot", "W:W", "D:g_q", "D:g_dot_q", "D:Wla_q",
                     "T:gamma_F_dot", "W:W_F", "D:gamma_F_q", "D:Wla_F_q", "D:gamma_F_dot_q", "D:gamma_F_dot_u"]
FORMAT_TWIN = True          # ambient monitor: every System matrix is also requested in the other documented formats (vlib/formattwin.py)
META = {
    "level_text": "Exploration: generated sphere-plane and sphere-sphere contact systems; gap and slip velocity decided by an independent geometric model, every derivative level by T/W/D oracles on the System-level contact methods; exposed methods must return or raise NotImplementedError. Held on the systems and states generated.",
    "level_note": "float64; plane orientation constant; finite-difference oracles with measured uncertainty.",
    "technique": "runtime return-value monitors with independent geometry model and T/D/W finite-difference oracles + ambient format-twin monitor (every System matrix also requested as coo/csr/csc/array)",
}
CASE_TIMEOUT = 180
KINDS = ["s2p:rigid_body", "s2p:rigid_body", "s2p:point_mass", "s2s:rigid_body:rigid_body", "s2s:rigid_body:point_mass",
         "s2s:point_mass:rigid_body", "s2s:rigid_body:moving_frame", "s2s:point_mass:point_mass",
         # a partner whose prescribed motion spins (a sphere on a driven spindle): its surface velocity has an Omega x r n part
         "s2s:rigid_body:rotating_frame", "s2s:rotating_frame:point_mass", "s2s:turntable:rigid_body"]


def cases(tier, seed):
    n = {"quick": 192, "thorough": 6000}[tier]
    return [{"kind": KINDS[i % len(KINDS)], "mu0": (i // len(KINDS)) % 4 == 3} for i in range(n)]


def _pose(sub, t, q):
    """independent pose/velocity model: returns (r_C, R, Omega_I getter)"""
    name = sub.__class__.__name__
    if hasattr(sub, "B_Theta_C"):
        return q[:3], quat_to_mat(q[3:])
    if name == "PointMass":
        return q[:3], np.eye(3)
    return None, None


def _kin(sub, mot, t, q, u, B):
    """centre position, centre velocity, inertial angular velocity of a carried point with body-fixed offset B"""
    if hasattr(sub, "B_Theta_C"):
        R = quat_to_mat(q[3:])
        Om = R @ u[3:]
        return q[:3] + R @ B, u[:3] + np.cross(Om, R @ B), Om
    if sub.__class__.__name__ == "PointMass":
        return q[:3] + B, u[:3].copy(), np.zeros(3)
    # moving frame (generator Motion)
    R = mot.A(t) if mot.rotating else mot.A0
    Om = R @ mot.omega_B(t) if mot.rotating else np.zeros(3)
    return mot.r(t) + R @ B, mot.r_t(t) + np.cross(Om, R @ B), Om


def _exc_key(site, e, det):
    return None


def _key(site, J, D, err, det):
    return None


def _friction(ctx, S, t, q, u, u_dot, la_F, label, ex, hrel=1e-4):
    P, sc = so.path(S, t, q, u, u_dot)
    sc = sc * min(1.0, hrel / 1e-4)      # near the pole of the tangent construction the path steps shrink with the distance to it as well
    ok, gam = so.guarded(ctx, f"{label}.gamma_F", lambda: S.gamma_F(t, q, u), extra=ex, key_fn=_exc_key)
    if not ok:
        return
    okd, gd = so.guarded(ctx, f"{label}.gamma_F_dot", lambda: S.gamma_F_dot(t, q, u, u_dot), extra=ex, key_fn=_exc_key)
    if okd:
        so.rate(ctx, f"{label}.gamma_F_dot", gd, lambda s: S.gamma_F(*P(s)), sc, {**ex, "u_dot": u_dot}, _key, mon="T:gamma_F_dot")
    okw, W = so.guarded(ctx, f"{label}.W_F", lambda: S.W_F(t, q), extra=ex, key_fn=_exc_key)
    if okw:
        so.jac(ctx, f"{label}.W_F", dense(W).T, lambda v: S.gamma_F(t, q, v), u, ex, _key, mon="W:W_F")
    okq, J = so.guarded(ctx, f"{label}.gamma_F_q", lambda: S.gamma_F_q(t, q, u), extra=ex, key_fn=_exc_key)
    if okq:
        so.jac(ctx, f"{label}.gamma_F_q", J, lambda x: S.gamma_F(t, x, u), q, ex, _key, mon="D:gamma_F_q", hrel=hrel)
    okq, J = so.guarded(ctx, f"{label}.xi_F_q", lambda: S.xi_F_q(t, q, u), extra=ex, key_fn=_exc_key)
    if okq:
        so.jac(ctx, f"{label}.xi_F_q", J, lambda x: S.gamma_F(t, x, u), q, ex, _key, mon="D:gamma_F_q", hrel=hrel)
    if okw:
        okq, J = so.guarded(ctx, f"{label}.Wla_F_q", lambda: S.Wla_F_q(t, q, la_F), extra=ex, key_fn=_exc_key)
        if okq:
            so.jac(ctx, f"{label}.Wla_F_q", J, lambda x: dense(S.W_F(t, x)) @ la_F, q, {**ex, "la_F": la_F}, _key, mon="D:Wla_F_q", hrel=hrel)
    if okd:
        ctx.mon("D:gamma_F_dot_q"); ctx.mon("D:gamma_F_dot_u")
        okq, J = so.guarded(ctx, f"{label}.gamma_F_dot_q", lambda: S.gamma_F_dot_q(t, q, u, u_dot), extra=ex, key_fn=_exc_key)
        if okq:
            so.jac(ctx, f"{label}.gamma_F_dot_q", J, lambda x: S.gamma_F_dot(t, x, u, u_dot), q, ex, _key, mon="D:gamma_F_dot_q", hrel=hrel)
        oku, J = so.guarded(ctx, f"{label}.gamma_F_dot_u", lambda: S.gamma_F_dot_u(t, q, u, u_dot), extra=ex, key_fn=_exc_key)
        if oku:
            so.jac(ctx, f"{label}.gamma_F_dot_u", J, lambda x: S.gamma_F_dot(t, q, x, u_dot), u, ex, _key, mon="D:gamma_F_dot_u")


def run_case(spec, ctx):
    env.import_cardillo()
    from cardillo import System
    from cardillo.discrete import Frame
    from cardillo.contacts import Sphere2Plane, Sphere2Sphere
    rng = ctx.rng
    parts = spec["kind"].split(":")
    t0 = float(rng.normal()) if rng.random() < 0.5 else 0.0
    mu = 0.0 if spec["mu0"] else float(rng.uniform(0.05, 1.0))
    e_N, e_F = float(rng.uniform(0, 1)), float(rng.uniform(0, 1))
    with gen.quiet():
        system = System(t0=t0)
        if parts[0] == "s2p":
            mot = gen.Motion(rng, moving=rng.random() < 0.7, rotating=False)
            frame = mot.frame(Frame, name="plane")
            sub, _, _, _ = gen.make_subsystem(rng, parts[1], "ball")
            r = float([0.0, rng.uniform(0.05, 2), loguniform(rng, 0.1, 10)][int(rng.integers(3))])
            B = rng.normal(size=3) * float(rng.random() < 0.6)
            aniso = np.ones(2) if rng.random() < 0.5 else rng.uniform(0.3, 2.0, size=2)
            # start above the plane so that assembly accepts the state
            n = mot.A0[:, 2]
            c0, _, _ = _kin(sub, None, t0, sub.q0, sub.u0, B)
            shift = (r + rng.uniform(0.1, 2) - n @ (c0 - mot.r(t0))) * n
            sub.q0[:3] = sub.q0[:3] + shift
            con = Sphere2Plane(frame, sub, mu, r=r, B_r_CP=B, e_N=e_N, e_F=e_F, anisotropy=aniso)
            system.add(frame, sub, con)
            n_extra = 0
            if rng.random() < 0.35:
                # further contact spheres on the SAME body (a body with several contact points) against the same plane: the
                # system-level quantities are sums / stacks over contacts that share the body's coordinates
                n_extra = int(rng.integers(1, 3))
                for j_ in range(n_extra):
                    r_j = float(rng.uniform(0.02, 0.5))
                    B_j = rng.normal(size=3) * 0.3
                    c_j, _, _ = _kin(sub, None, t0, sub.q0, sub.u0, B_j)
                    if n @ (c_j - mot.r(t0)) - r_j <= 0.05:
                        r_j = max(0.0, float(n @ (c_j - mot.r(t0)) - 0.05))
                    mu_j = mu if rng.random() < 0.7 else 0.0
                    system.add(Sphere2Plane(frame, sub, mu_j, r=r_j, B_r_CP=B_j, e_N=e_N, e_F=e_F if mu_j > 0 else None, name=f"extra{j_}"))
                ctx.cls(f"s2p:contacts_on_one_body:{n_extra + 1}")
            params = {"contact": "Sphere2Plane", "carrier": parts[1], "r": r, "B_r_CP": B, "mu": mu, "anisotropy": aniso, "plane_moving": mot.moving, "extra_contacts": n_extra}
            subs, mots = [sub], [None]
        else:
            subs, mots = [], []
            for k in (1, 2):
                s, _, _, m = gen.make_subsystem(rng, parts[k], f"ball{k}")
                subs.append(s); mots.append(m)
            r1, r2 = [float([0.0, rng.uniform(0.05, 2), loguniform(rng, 0.1, 10)][int(rng.integers(3))]) for _ in range(2)]
            # separate the centres so that the initial gap is positive
            c1, _, _ = _kin(subs[0], mots[0], t0, getattr(subs[0], "q0", None), getattr(subs[0], "u0", None), np.zeros(3))
            c2, _, _ = _kin(subs[1], mots[1], t0, getattr(subs[1], "q0", None), getattr(subs[1], "u0", None), np.zeros(3))
            d = c2 - c1
            dist = np.linalg.norm(d)
            want = r1 + r2 + rng.uniform(0.2, 2)
            mover = subs[1] if hasattr(subs[1], "nq") and subs[1].nq else subs[0]
            sgn = 1.0 if mover is subs[1] else -1.0
            dirn = d / dist if dist > 1e-9 else np.array([1.0, 0, 0])
            mover.q0[:3] = mover.q0[:3] + sgn * (want - dist) * dirn
            con = Sphere2Sphere(subs[0], subs[1], r1, r2, mu, e_N=e_N, e_F=e_F)
            if rng.random() < 0.5:
                system.add(*subs, con)
            else:
                system.add(subs[1], subs[0], con)          # subsystem 2 of the contact comes first in the System
                ctx.cls("s2s:subsystems_added_in_reverse_order")
            params = {"contact": "Sphere2Sphere", "carriers": parts[1:], "r1": r1, "r2": r2, "mu": mu}
        try:
            system.assemble(options=gen.no_cic_options())
        except Exception as e:
            ctx.mon("GEO:g_N")
            ctx.violation(f"{params['contact']}.assemble", "system with this contact fails to assemble", {**params, "error": f"{type(e).__name__}: {e}"[:300]})
            ctx.sig([params, "assemble-failed"], nontrivial=True)
            return
        label = params["contact"] + "[" + ",".join(parts[1:]) + "]"
        ctx.cls(f"contact:{label}")
        ctx.cls("friction" if mu > 0 else "frictionless")
        nontrivial = False
        first_state = None
        if parts[0] == "s2s" and rng.random() < 0.5:
            # step_callback history: rotates the reference tangent basis
            for _ in range(int(rng.integers(1, 4))):
                qh, uh, _, _ = gen.random_system_state(rng, system)
                system.step_callback(system.t0, qh.copy(), uh.copy())
            ctx.cls("s2s:with_step_callback_history")
        for k in range(3):
            q, u, u_dot, qc = gen.random_system_state(rng, system)
            t = t0 + float(rng.normal())
            if rng.random() < 0.3:
                for s_ in subs:
                    if hasattr(s_, "B_Theta_C"):
                        u[s_.my_uDOF[3:]] = 0.0   # no spin
            # place the ball(s) relative to the contact surface: open / touching / penetrating
            gap_target = [rng.uniform(0.05, 3), 0.0, -rng.uniform(0.01, 0.5)][k % 3]
            hrel = 1e-4
            if parts[0] == "s2p":
                sub = subs[0]
                qs = q[sub.my_qDOF]
                c, _, _ = _kin(sub, None, t, qs, u[sub.my_uDOF], params["B_r_CP"])
                n = mot.A0[:, 2]
                q[sub.my_qDOF[:3]] += (params["r"] + gap_target - n @ (c - mot.r(t))) * n
            else:
                cs = []
                for s_, m_ in zip(subs, mots):
                    qs = q[s_.my_qDOF] if hasattr(s_, "my_qDOF") and s_.nq else None
                    us = u[s_.my_uDOF] if hasattr(s_, "my_uDOF") and s_.nu else None
                    cs.append(_kin(s_, m_, t, qs, us, np.zeros(3))[0])
                d = cs[1] - cs[0]
                dist = np.linalg.norm(d)
                want = max(params["r1"] + params["r2"] + gap_target, 0.05)
                mover = subs[1] if getattr(subs[1], "nq", 0) else subs[0]
                sgn = 1.0 if mover is subs[1] else -1.0
                q[mover.my_qDOF[:3]] += sgn * (want - dist) * d / dist
                hrel = 1e-4
                if mu > 0 and rng.random() < 0.35:
                    # contact normal close to the pole of the tangent construction (the reference tangent t2 of the contact):
                    # the basis is smooth there but varies on the scale of the angular distance to the pole
                    delta = float(loguniform(rng, 1.5e-4, 0.05))
                    pole = np.asarray(con.reference_contact_basis[:, 1], dtype=float) * (1.0 if rng.random() < 0.5 else -1.0)
                    perp = np.cross(pole, rng.normal(size=3)); perp /= np.linalg.norm(perp)
                    n_t = np.cos(delta) * pole + np.sin(delta) * perp
                    other = cs[0] if mover is subs[1] else cs[1]
                    q[mover.my_qDOF[:3]] = other + sgn * want * n_t
                    # (the angular change of the normal along a difference step is step / centre distance: the step is scaled
                    #  with the distance as well - point-like spheres may sit 0.05 apart - and with the size of the coordinates)
                    hrel = min(1e-4, delta * 1e-2 * min(1.0, want) / max(1.0, float(np.abs(q[mover.my_qDOF[:3]]).max())))
                    ctx.cls(f"state:normal_near_tangent_pole:1e{int(np.floor(np.log10(delta)))}")
            ctx.cls(f"state:{['open', 'touching', 'penetrating'][k % 3]}:{'nonunit' if 'nonunit' in qc else 'unit'}")
            if first_state is None:
                first_state = [t, q.tolist()]
            la_N = rng.normal(size=system.nla_N)
            la_F = rng.normal(size=system.nla_F)
            ex = {**params, "t": t, "q": q, "u": u}
            # ---------------- independent geometry ----------------
            if parts[0] == "s2p":
                sub = subs[0]
                c, vc, Om = _kin(sub, None, t, q[sub.my_qDOF], u[sub.my_uDOF], params["B_r_CP"])
                n = mot.A0[:, 2]
                g_ref = n @ (c - mot.r(t)) - params["r"]
                vS = vc + np.cross(Om, -params["r"] * n)
                vrel = vS - mot.r_t(t)
                T = np.asarray(con.t1t2(t), dtype=float) if mu > 0 else None
                stretch = np.diag(params["anisotropy"])
            else:
                kin = []
                for s_, m_ in zip(subs, mots):
                    qs = q[s_.my_qDOF] if getattr(s_, "nq", 0) else None
                    us = u[s_.my_uDOF] if getattr(s_, "nu", 0) else None
                    kin.append(_kin(s_, m_, t, qs, us, np.zeros(3)))
                d = kin[1][0] - kin[0][0]
                n = d / np.linalg.norm(d)
                g_ref = np.linalg.norm(d) - params["r1"] - params["r2"]
                vP1 = kin[0][1] + np.cross(kin[0][2], params["r1"] * n)
                vP2 = kin[1][1] + np.cross(kin[1][2], -params["r2"] * n)
                vrel = vP2 - vP1
                T = np.asarray(con.t1t2(t, q[con.qDOF]), dtype=float) if mu > 0 else None
                stretch = np.eye(2)
            ctx.mon("GEO:g_N")
            gN = system.g_N(t, q)[con.la_NDOF]
            if abs(gN[0] - g_ref) > 1e-9 * (1 + abs(g_ref) + np.abs(q).max()):
                ctx.violation(f"{label}.g_N", "normal gap differs from the signed distance between the contact surfaces", {**ex, "g_N": gN[0], "distance": g_ref})
            if mu > 0:
                ctx.mon("GEO:gamma_F")
                if np.abs(T @ T.T - np.eye(2)).max() > 1e-10 or np.abs(T @ n).max() > 1e-10:
                    ctx.violation(f"{label}.t1t2", "tangent basis is not orthonormal and perpendicular to the contact normal", {**ex, "T": T, "n": n})
                gam = system.gamma_F(t, q, u)[con.la_FDOF]
                ref = stretch.T @ (T @ vrel)
                if np.abs(gam - ref).max() > 1e-9 * (1 + np.abs(vrel).max() * (1 + np.abs(stretch).max())):
                    ctx.violation(f"{label}.gamma_F", "friction velocity differs from the tangential relative velocity of the touching material points",
                                  {**ex, "gamma_F": gam, "reference": ref})
                nontrivial |= bool(np.any(u))
            # ---------------- hierarchy ----------------
            names = {"g": "g_N", "g_dot": "g_N_dot", "g_ddot": "g_N_ddot", "W": "W_N", "g_q": "g_N_q", "g_dot_q": "xi_N_q", "g_dot_u": None, "Wla_q": "Wla_N_q"}
            so.constraint_hierarchy(ctx, system, t, q, u, u_dot, la_N, label, names=names, extra=params, key_fn=_key, exc_key_fn=_exc_key)
            # the explicit time dependence of the gap rate is exposed as chi_N: the gap rate at u = 0
            okc, chi = so.guarded(ctx, f"{label}.chi_N", lambda: system.chi_N(t, q), extra=ex, key_fn=_exc_key)
            if okc:
                ctx.mon("GEO:g_N")
                ref_chi = np.asarray(system.g_N_dot(t, q, np.zeros_like(u)), dtype=float)
                if np.asarray(chi).shape != ref_chi.shape or np.abs(np.asarray(chi, dtype=float) - ref_chi).max() > 1e-12 * (1 + np.abs(ref_chi).max()):
                    ctx.violation(f"{label}.chi_N", "chi_N differs from the gap rate at zero velocity", {**ex, "chi_N": chi, "g_N_dot(u=0)": ref_chi})
            if mu > 0:
                _friction(ctx, system, t, q, u, u_dot, la_F, label, ex, hrel)
            else:
                for m in ("GEO:gamma_F", "T:gamma_F_dot", "W:W_F", "D:gamma_F_q", "D:Wla_F_q", "D:gamma_F_dot_q", "D:gamma_F_dot_u"):
                    pass
        # ---------------- revisit: the same coordinates at another time ----------------
        # (with a prescribed moving partner the contact kinematics change with t at fixed q; quantities remembered from the
        # previous evaluation at that q must not leak into this one)
        for t2 in (t + float(rng.uniform(0.2, 1.0)), t):
            system.g_N_dot(t, q, u); system.W_N(t, q)
            if mu > 0:
                system.gamma_F(t, q, u)
            if parts[0] == "s2p":
                sub = subs[0]
                c, vc, Om = _kin(sub, None, t2, q[sub.my_qDOF], u[sub.my_uDOF], params["B_r_CP"])
                n2 = mot.A0[:, 2]
                gd_ref = n2 @ (vc - mot.r_t(t2))
                g2_ref = n2 @ (c - mot.r(t2)) - params["r"]
            else:
                kin = []
                for s_, m_ in zip(subs, mots):
                    qs = q[s_.my_qDOF] if getattr(s_, "nq", 0) else None
                    us = u[s_.my_uDOF] if getattr(s_, "nu", 0) else None
                    kin.append(_kin(s_, m_, t2, qs, us, np.zeros(3)))
                d2 = kin[1][0] - kin[0][0]
                n2 = d2 / np.linalg.norm(d2)
                gd_ref = n2 @ (kin[1][1] - kin[0][1])
                g2_ref = np.linalg.norm(d2) - params["r1"] - params["r2"]
            ctx.mon("GEO:revisit")
            ex2 = {**params, "t_first": t, "t": t2, "q": q, "u": u}
            iN = int(con.la_NDOF[0])
            g2 = system.g_N(t2, q)[iN]
            gd = system.g_N_dot(t2, q, u)[iN]
            sc = 1 + np.abs(u).max() + abs(gd_ref)
            if abs(g2 - g2_ref) > 1e-9 * (1 + abs(g2_ref) + np.abs(q).max()):
                ctx.violation(f"{label}.g_N", "normal gap at the same coordinates but another time differs from the signed distance", {**ex2, "g_N": g2, "distance": g2_ref})
            if abs(gd - gd_ref) > 1e-9 * sc:
                ctx.violation(f"{label}.g_N_dot", "normal gap velocity at the same coordinates but another time differs from the normal relative velocity of the contact points",
                              {**ex2, "g_N_dot": gd, "reference": gd_ref})
            W = np.asarray(oracles_dense(system.W_N(t2, q)))[:, iN]
            gd0 = system.g_N_dot(t2, q, np.zeros_like(u))[iN]
            if abs(W @ u + gd0 - gd_ref) > 1e-9 * sc * (1 + np.abs(W).max()):
                ctx.violation(f"{label}.W_N", "W_N^T u + g_N_dot(u=0) at the same coordinates but another time differs from the normal relative velocity",
                              {**ex2, "value": float(W @ u + gd0), "reference": gd_ref})
            if mu > 0 and parts[0] == "s2s":
                T2 = np.asarray(con.t1t2(t2, q[con.qDOF]), dtype=float)
                if np.abs(T2 @ n2).max() > 1e-9 or np.abs(T2 @ T2.T - np.eye(2)).max() > 1e-9:
                    ctx.violation(f"{label}.t1t2", "tangent basis at the same coordinates but another time is not orthonormal / perpendicular to the contact normal",
                                  {**ex2, "T": T2, "n": n2})
    ctx.sig([params, first_state], nontrivial=nontrivial or mu == 0)
    ctx.sample({**params, "t0": t0})
