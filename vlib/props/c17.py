"""C17 Integrators keep bilateral constraints and unit quaternions at every step."""

import warnings
import numpy as np
from vlib import env, gen, chaingen
from vlib.oracles import dense

ID = "C17"
LEVEL = "exploration"
RULE = ("each case builds a random open or closed chain of 2-4 rigid bodies / point masses with random joints (all types), "
        "springs (both forms), dampers and gravity on the origin or on a translating / rotating base frame, assembles it with "
        "consistent initial conditions and integrates 20-60 steps with one of RATTLE, BackwardEuler, Moreau, DualStormerVerlet "
        "(LU), ScipyDAE, ScipyIVP at dt in {1e-3, 5e-3, 2e-2, 5e-2}. Every stored step is checked: |g| (Rattle, BackwardEuler, "
        "DualStormerVerlet), |g_dot| (Rattle), |g_dot| at the recomputed midpoint (Moreau), |g|,|g_dot| within the requested "
        "tolerance without drift (ScipyDAE), equations of motion and g_ddot = 0 for the reported (u_dot, la) (ScipyIVP), unit "
        "quaternions (the four stepping solvers). distinct = chain + solver + dt; non-trivial = the chain moves (|u| > 1e-3 at the end)")
ASSUMPTIONS = ["bounds: Newton-based solvers (Rattle, BackwardEuler): 20*sqrt(n)*(newton_atol + newton_rtol) with newton_atol = newton_rtol = 1e-9; "
               "DualStormerVerlet (stops on increments): 1e-8 calibrated (40 x the maximum 2.5e-10 observed over seeds 0-2 on the unchanged tree) (frozen constant CAL_DSV); Moreau midpoint velocity constraint: 1e-9*(1+|u|); "
               "ScipyDAE: 100*(atol + rtol*scale) with rtol=1e-6, atol=1e-8 and second-half maximum <= 3 x first-half maximum + floor; ScipyIVP residuals 1e-7*scale",
               "runs in which the solver itself raises are counted as undecided (non-convergence is the subject of C21)"]
REQUIRED_MONITORS = ["g:Rattle", "g_dot:Rattle", "g:BackwardEuler", "g:DualStormerVerlet", "g_dot_mid:Moreau", "g:ScipyDAE", "drift:ScipyDAE",
                     "eom:ScipyIVP", "eom:ScipyIVP:restart", "quat:Rattle", "quat:BackwardEuler", "quat:Moreau", "quat:DualStormerVerlet"]
META = {
    "level_text": "Exploration: trace monitor over every stored step of real simulations of generated constrained chains with all six solvers; constraint residuals are recomputed from the returned Solution with the real System methods and compared with bounds derived from the solver tolerances. Held on the runs generated.",
    "level_note": "bounds as listed in the assumptions (Newton-based: derived from the stopping criterion; DualStormerVerlet: calibrated constant); runs where the solver raises are undecided.",
    "technique": "runtime trace monitor over stored solver steps with residual recomputation",
}
CASE_TIMEOUT = 300
WALL_BUDGET = {"quick": 900, "thorough": 5400}
SOLVERS = ["Rattle", "BackwardEuler", "Moreau", "DualStormerVerlet", "ScipyDAE", "ScipyIVP"]
DTS = [1e-3, 5e-3, 2e-2, 5e-2]
CAL_DSV = 1e-8
TOL = 1e-9


def cases(tier, seed):
    n = {"quick": 72, "thorough": 1500}[tier]
    out = [{"kind": "ivp_restart", "solver": "ScipyIVP", "rep": r} for r in range({"quick": 3, "thorough": 40}[tier])]
    for i in range(n):
        out.append({"solver": SOLVERS[i % len(SOLVERS)], "dt": DTS[(i // len(SOLVERS)) % len(DTS)], "closed": (i // 3) % 4 == 0,
                    "base": ["origin", "origin", "moving", "rotating"][(i // 5) % 4], "actuated": (i // len(SOLVERS)) % 3 == 1,
                    "rest_start": (i // 7) % 2 == 0, "no_cic": SOLVERS[i % len(SOLVERS)] == "ScipyIVP" and (i // len(SOLVERS)) % 2 == 0})
    return out


def _quat_dofs(S):
    out = []
    for c in S.contributions:
        if hasattr(c, "B_Theta_C") and hasattr(c, "my_qDOF"):
            out.append(c.my_qDOF[3:])
    return out


def run_ivp_restart(spec, ctx):
    """ODE wrapper on a system that is restarted: a body on a revolute joint with a torsional spring spins through at least one
    full turn (leg 1), the system is re-initialised with the state reached (the joint keeps its turn count by design) and
    integrated further (leg 2). The accelerations reported for BOTH legs must satisfy the equations of motion; the reference
    residual is evaluated on a copy of the system taken before leg 1 and walked through all stored states in order."""
    import cardillo.solver as sv
    from cardillo import System
    from cardillo.discrete import RigidBody
    from cardillo.constraints import Revolute
    from cardillo.force_laws import Spring
    from cardillo.solver import SolverOptions
    rng = ctx.rng
    with gen.quiet(), warnings.catch_warnings():
        warnings.simplefilter("ignore")
        axis = int(rng.integers(3))
        e = np.eye(3)[axis]
        spin = float(rng.uniform(7, 11)) * (1 if rng.random() < 0.5 else -1)
        r0 = np.eye(3)[(axis + 1) % 3] * float(rng.uniform(0.3, 0.7))
        u0 = np.concatenate([np.cross(spin * e, r0), spin * e])
        Th = np.diag(rng.uniform(0.05, 0.3, size=3))
        S = System()
        b = RigidBody(float(rng.uniform(0.5, 2)), Th, q0=np.concatenate([r0, [1.0, 0, 0, 0]]), u0=u0, name="b")
        j = Revolute(S.origin, b, axis, angle0=float(rng.uniform(-1, 1)), r_OJ0=np.zeros(3), A_IJ0=np.eye(3), name="j")
        S.add(b, j, Spring(j, float(rng.uniform(0.1, 0.4)), l_ref=0.0, compliance_form=False, name="torsion"))
        S.assemble(options=SolverOptions())
        S_eval = S.deepcopy()
        dt = 1e-2
        T1 = 2 * np.pi / abs(spin) * float(rng.uniform(1.15, 1.6))        # leg 1 passes one full turn
        det = {**spec, "axis": axis, "spin": spin, "T1": T1}
        try:
            sol1 = sv.ScipyIVP(S, S.t0 + T1, dt, rtol=1e-9, atol=1e-11).solve()
            S.set_new_initial_state(np.asarray(sol1.q)[-1].copy(), np.asarray(sol1.u)[-1].copy(), t0=float(np.asarray(sol1.t)[-1]),
                                    options=SolverOptions(compute_consistent_initial_conditions=False))
            sol2 = sv.ScipyIVP(S, S.t0 + 0.4 * T1, dt, rtol=1e-9, atol=1e-11).solve()
        except Exception as e_:
            ctx.undecided(f"ivp_restart raised {type(e_).__name__}: {e_}"[:150]); ctx.sig([det], nontrivial=False); return
    ctx.cls("solver:ScipyIVP"); ctx.cls("ivp_restart")
    worst = {1: 0.0, 2: 0.0}
    for leg, sol in ((1, sol1), (2, sol2)):
        t, q, u, ud, lag = (np.asarray(getattr(sol, f)) for f in ("t", "q", "u", "u_dot", "la_g"))
        for k in range(len(t)):
            M = dense(S_eval.M(t[k], q[k]))
            h = S_eval.h(t[k], q[k], u[k])
            R = M @ ud[k] - h - dense(S_eval.W_g(t[k], q[k])) @ lag[k]
            worst[leg] = max(worst[leg], float(np.abs(R).max() / (1.0 + np.abs(h).max() + np.abs(lag[k]).max())))
    ctx.mon("eom:ScipyIVP")
    ctx.mon("eom:ScipyIVP:restart")
    for leg in (1, 2):
        if not worst[leg] <= 1e-7:
            ctx.violation("ScipyIVP.solve", "reported accelerations and multipliers do not satisfy the equations of motion at an output time",
                          {**det, "leg": leg, "rel_residual": worst[leg], "note": "leg 2 = run continued after set_new_initial_state; the joint carries a full turn from leg 1"})
            break
    ctx.sig([det], nontrivial=True)
    ctx.sample({**det, "max_rel_residual_leg1": worst[1], "max_rel_residual_leg2": worst[2]})


def run_case(spec, ctx):
    env.import_cardillo()
    if spec.get("kind") == "ivp_restart":
        return run_ivp_restart(spec, ctx)
    import cardillo.solver as sv
    from cardillo.solver import SolverOptions
    rng = ctx.rng
    solver, dt = spec["solver"], spec["dt"]
    nsteps = int(rng.integers(20, 61))
    with gen.quiet(), warnings.catch_warnings():
        warnings.simplefilter("ignore")
        kinds = ["Revolute", "Spherical", "Revolute"] if spec.get("actuated") else None      # actuated chains (motors / PD controllers sit on revolute joints)
        ms = 1.0
        if solver == "ScipyIVP" and rng.random() < 0.7:
            # the same mechanism made of very light or very heavy parts (all masses, inertias, stiffnesses and torques scaled):
            # the motion is the same, the forces and multipliers are not of order one (only for the ODE wrapper, whose
            # tolerances are on q and u; the Newton tolerances of the other solvers are absolute force residuals)
            ms = float(10.0 ** (rng.uniform(4, 8) if rng.random() < 0.6 else rng.uniform(-6, -2)))
            ctx.cls(f"mass_scale:1e{int(np.floor(np.log10(ms)))}")
        S, bodies, joints, info = chaingen.build_chain(rng, closed=spec["closed"], base=spec["base"], t0=float(rng.normal()) if rng.random() < 0.3 else 0.0, actuators=True,
                                                       joint_kinds=kinds, rest_start=bool(spec.get("rest_start")), mass_scale=ms)
        info["mass_scale"] = ms
        if spec.get("rest_start") and spec["base"] != "origin":
            ctx.cls("base:starts_from_rest")
        rbs = [b for b in bodies if hasattr(b, "B_Theta_C")]
        if solver in ("Rattle", "Moreau", "BackwardEuler", "DualStormerVerlet") and len(rbs) >= 2 and rng.random() < 0.4:
            # a collision guard between two links, added after the bodies (the usual order); the spheres are small enough never to
            # touch: the chain's constraints and quaternions must be kept exactly as without it
            from cardillo.contacts import Sphere2Sphere
            i_, j_ = sorted(rng.choice(len(rbs), size=2, replace=False).tolist())
            d_ = float(np.linalg.norm(rbs[i_].q0[:3] - rbs[j_].q0[:3]))
            if d_ > 1e-3:
                S.add(Sphere2Sphere(rbs[i_], rbs[j_], 1e-4 * d_, 1e-4 * d_, float(rng.uniform(0, 0.5)), e_N=0.0, e_F=0.0, name="guard"))
                info["guard_contact"] = True
                ctx.cls("chain:with_collision_guard")
        det = {**spec, **info, "nsteps": nsteps}
        try:
            if spec.get("no_cic"):
                # the ODE wrapper must report consistent accelerations / multipliers at t0 as well, whether or not assembly
                # was asked to precompute them
                S.assemble(options=SolverOptions(compute_consistent_initial_conditions=False))
                ctx.cls("assemble:without_consistent_initial_conditions")
            else:
                S.assemble(options=SolverOptions())
        except Exception as e:
            ctx.undecided(f"assemble: {type(e).__name__}: {e}"[:150])
            ctx.sig([det], nontrivial=False)
            return
        # contributions with a history (turn counting of revolute joints under a PD controller / spring) must see the stored
        # trajectory in order from t0: all residuals below are recomputed on a copy of the system taken BEFORE the run
        S_run, S = S, S.deepcopy()
        t1 = S.t0 + nsteps * dt
        opts = SolverOptions(newton_atol=TOL, newton_rtol=TOL, fixed_point_atol=TOL, fixed_point_rtol=TOL, newton_max_iter=50, fixed_point_max_iter=2000)
        try:
            if solver == "DualStormerVerlet":
                sol = sv.DualStormerVerlet(S_run, t1, dt, options=opts, linear_solver="LU").solve()
            elif solver == "ScipyDAE":
                sol = sv.ScipyDAE(S_run, t1, dt, rtol=1e-6, atol=1e-8).solve()
            elif solver == "ScipyIVP":
                sol = sv.ScipyIVP(S_run, t1, dt, rtol=1e-8, atol=1e-10).solve()
            else:
                sol = getattr(sv, solver)(S_run, t1, dt, options=opts).solve()
        except Exception as e:
            ctx.undecided(f"{solver} raised {type(e).__name__}: {e}"[:150])
            ctx.cls(f"solver_raised:{solver}")
            ctx.sig([det], nontrivial=False)
            return
        t, q, u = np.asarray(sol.t), np.asarray(sol.q), np.asarray(sol.u)
        n = S.nq + S.nu + S.nla_g + S.nla_c
        ctx.cls(f"solver:{solver}"); ctx.cls(f"dt:{dt}"); ctx.cls("closed" if spec["closed"] else "open"); ctx.cls(f"base:{spec['base']}")
        for jk in info["joints"]:
            ctx.cls(f"joint:{jk}")
        for ak in info.get("actuators", []):
            ctx.cls(f"actuator:{ak}:{solver}")
        g = np.array([S.g(ti, qi) for ti, qi in zip(t, q)])
        gd = np.array([S.g_dot(ti, qi, ui) for ti, qi, ui in zip(t, q, u)])
        scale = 1.0 + float(np.abs(q[:, :]).max())
        vscale = 1.0 + float(np.abs(u).max())
        newton_bound = 20 * np.sqrt(n) * (TOL + TOL) * scale

        def worst(a):
            if a.size == 0:
                return 0.0, 0
            k = int(np.argmax(np.abs(a).max(axis=1)))
            return float(np.abs(a[k]).max()), k

        def judge(name, arr, bound, what):
            ctx.mon(name)
            w, k = worst(arr)
            ctx.extra("max_" + name, w)
            if not w <= bound:
                ctx.violation(f"{solver}.solve", what, {**det, "max_residual": w, "bound": bound, "step": k, "t": float(t[k]), "dt": dt})

        if solver in ("Rattle", "BackwardEuler"):
            judge(f"g:{solver}", g, newton_bound, "position-level bilateral constraints violated at a stored step beyond the solver tolerance")
        if solver == "Rattle":
            judge("g_dot:Rattle", gd, newton_bound * vscale * 10, "velocity-level bilateral constraints violated at a stored step beyond the solver tolerance")
        if solver == "DualStormerVerlet":
            judge("g:DualStormerVerlet", g, CAL_DSV * scale, "position-level bilateral constraints violated at a stored step beyond the solver tolerance")
        if solver == "Moreau":
            mid = []
            for k in range(len(t) - 1):
                qm = q[k] + 0.5 * dt * S.q_dot(t[k], q[k], u[k])
                mid.append(S.g_dot(t[k] + 0.5 * dt, qm, u[k + 1]))
            judge("g_dot_mid:Moreau", np.array(mid), 1e-9 * vscale * scale, "velocity-level constraints violated at the midpoint configuration of a step")
        if solver == "ScipyDAE":
            b = 100 * (1e-8 + 1e-6 * scale)
            judge("g:ScipyDAE", g, b, "position-level constraints not kept at the order of the requested tolerance")
            judge("g:ScipyDAE", gd, b * vscale * 10, "velocity-level constraints not kept at the order of the requested tolerance")
            ctx.mon("drift:ScipyDAE")
            h = len(t) // 2
            if h > 3:
                for arr, nm in ((g, "g"), (gd, "g_dot")):
                    a1, a2 = np.abs(arr[:h]).max(), np.abs(arr[h:]).max()
                    if a2 > 3 * a1 + b * 0.1:
                        ctx.violation("ScipyDAE.solve", "constraint violation drifts (second-half maximum exceeds three times the first-half maximum)",
                                      {**det, "quantity": nm, "first_half_max": float(a1), "second_half_max": float(a2)})
        if solver == "ScipyIVP":
            ctx.mon("eom:ScipyIVP")
            ud, lag = np.asarray(sol.u_dot), np.asarray(sol.la_g)
            lac = np.asarray(sol.la_c) if getattr(sol, "la_c", None) is not None else np.zeros((len(t), 0))
            worst_r, worst_gdd, kk = 0.0, 0.0, 0
            for k in range(len(t)):
                M = dense(S.M(t[k], q[k]))
                R = M @ ud[k] - S.h(t[k], q[k], u[k]) - dense(S.W_g(t[k], q[k])) @ lag[k]
                if S.nla_tau:
                    R -= dense(S.W_tau(t[k], q[k])) @ S.la_tau(t[k], q[k], u[k])
                if S.nla_c:
                    R -= dense(S.W_c(t[k], q[k])) @ lac[k]
                    cres = S.c(t[k], q[k], u[k], lac[k])
                    R = np.concatenate([R, cres])
                gdd = S.g_ddot(t[k], q[k], u[k], ud[k])
                # (force scale for the equations of motion, acceleration scale for the acceleration-level constraints; both
                #  follow the mass scale of the mechanism)
                fs = ms + np.abs(S.h(t[k], q[k], u[k])).max() + (np.abs(lag[k]).max() if lag.size else 0.0)
                if np.abs(R[:S.nu]).max() / fs > worst_r:
                    worst_r, kk = float(np.abs(R[:S.nu]).max() / fs), k
                if S.nla_c and np.abs(R[S.nu:]).max() / (1.0 + fs / ms) > worst_r:
                    worst_r, kk = float(np.abs(R[S.nu:]).max() / (1.0 + fs / ms)), k
                worst_gdd = max(worst_gdd, float(np.abs(gdd).max() / (1.0 + fs / ms + vscale**2)) if gdd.size else 0.0)
            ctx.extra("max_eom:ScipyIVP", worst_r)
            if not worst_r <= 1e-7:
                ctx.violation("ScipyIVP.solve", "reported accelerations and multipliers do not satisfy the equations of motion at an output time", {**det, "rel_residual": worst_r, "step": kk})
            if not worst_gdd <= 1e-7:
                ctx.violation("ScipyIVP.solve", "reported accelerations violate the acceleration-level constraints at an output time", {**det, "rel_g_ddot": worst_gdd})
        if solver in ("Rattle", "BackwardEuler", "Moreau", "DualStormerVerlet"):
            ctx.mon(f"quat:{solver}")
            for dof in _quat_dofs(S):
                nr = np.abs(np.linalg.norm(q[:, dof], axis=1) - 1.0)
                if nr.max() > 1e-12:
                    k = int(np.argmax(nr))
                    ctx.violation(f"{solver}.solve", "stored orientation quaternion is not of unit length", {**det, "deviation": float(nr.max()), "step": k})
                    break
    ctx.sig([det, S.q0.tolist()[:6]], nontrivial=bool(np.abs(u[-1]).max() > 1e-3))
    ctx.sample({**det, "max_g": float(np.abs(g).max()) if g.size else 0.0, "max_g_dot": float(np.abs(gd).max()) if gd.size else 0.0})


def finalize(agg):
    c = agg["classes"]
    reasons = []
    for s in ("ScipyIVP",):
        if not any(k.startswith("actuator:") and k.endswith(":" + s) for k in c):
            reasons.append(f"no actuated chain was integrated with {s}")
    return reasons
