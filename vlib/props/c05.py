"""C05 Joint constraints obey the kinematic hierarchy."""

import numpy as np
from vlib import env, gen
from vlib import sysoracles as so
from vlib.oracles import dense

ID = "C05"
LEVEL = "exploration"
RULE = ("each case builds one real System: joint type x subsystem pairing (fixed / translating / rotating Frame, PointMass "
        "where no orientation is needed, RigidBody, rod cross-section at xi in {0, interior, element boundary, 1}) x axis x "
        "joint placement (given r_OJ0/A_IJ0 or defaulted) x argument order x t0 != 0, assembles it, checks g(t0,q0)=0 and then "
        "applies the T/W/D oracles to System.g, g_dot, g_ddot, W_g, g_q, g_dot_q, g_dot_u, Wla_g_q at 3 states (on the manifold "
        "q0 and random states with non-unit quaternions violating the joint); distinct = joint kind + pairing + parameters; "
        "non-trivial = at least one subsystem has coordinates and the state is off the reference configuration")
ASSUMPTIONS = ["systems are assembled with compute_consistent_initial_conditions=False so that arbitrary initial velocities are admissible; "
               "the consistency logic itself is the subject of C16",
               "T/D oracles: Richardson central differences, violation iff error > 1e-6*max(1,|D|) + 20*uncertainty; noisy => undecided"]
REQUIRED_MONITORS = ["EQ:g0", "T:g_dot", "W:W", "T:g_ddot", "D:g_q", "D:g_dot_q", "D:g_dot_u", "D:Wla_q"]
FORMAT_TWIN = True          # ambient monitor: every System matrix is also requested in the other documented formats (vlib/formattwin.py)
META = {
    "level_text": "Exploration: generated systems covering every joint type x subsystem pairing are assembled with the real System and every level of the constraint hierarchy is decided at on- and off-manifold states by time-derivative, transpose-Jacobian and finite-difference oracles on the system-level methods. Held on the systems and states generated.",
    "level_note": "float64 finite-difference oracles with measured uncertainty; consistent initial conditions disabled during assembly (C16 covers them).",
    "technique": "runtime return-value monitors on System methods with T/D/W finite-difference oracles + ambient format-twin monitor (every System matrix also requested as coo/csr/csc/array)",
}
CASE_TIMEOUT = 180

PAIRINGS = [
    ("fixed_frame", "rigid_body"), ("moving_frame", "rigid_body"), ("rotating_frame", "rigid_body"),
    ("rigid_body", "rigid_body"), ("rigid_body", "fixed_frame"), ("rigid_body", "rotating_frame"), ("turntable", "rigid_body"), ("rigid_body", "turntable"),
    ("rigid_body", "point_mass"), ("point_mass", "rigid_body"), ("point_mass", "point_mass"),
    ("moving_frame", "point_mass"), ("point_mass", "rotating_frame"),
    ("rod", "rigid_body"), ("rigid_body", "rod"), ("fixed_frame", "rod"), ("rod", "rod"), ("rod", "point_mass"),
]


def cases(tier, seed):
    n = {"quick": 224, "thorough": 6000}[tier]
    out = []
    i = 0
    while len(out) < n:
        kind = gen.JOINT_KINDS[i % len(gen.JOINT_KINDS)]
        pairing = PAIRINGS[(i // len(gen.JOINT_KINDS)) % len(PAIRINGS)]
        i += 1
        needs_orientation = kind not in ("Spherical", "FixedDistance")
        if needs_orientation and "point_mass" in pairing:
            continue
        out.append({"joint": kind, "pairing": list(pairing), "placement": "given" if (i // 3) % 3 else "default"})
    # mechanisms far from the origin whose joint point lies a hair beside a body's reference point
    for j, kind in enumerate([k for k in gen.JOINT_KINDS if k != "FixedDistance"] * {"quick": 2, "thorough": 40}[tier]):
        out.append({"joint": kind, "pairing": ["rigid_body", "rigid_body"] if j % 2 == 0 else ["rigid_body", "point_mass" if kind == "Spherical" else "rigid_body"],
                    "placement": "given", "far": True})
    return out


def _exc_key(site, e, det):
    return None


KF_PG = "CosseratRod.interior-xi/velocity-field-interpolated-independently"
KF_R12 = "CosseratRod.R12-interior-xi/cross-section-basis-not-orthonormal"


def _r12_key(subs, xis, rods, g0, joint):
    """defect model of the R12 finding: a joint is defined on a NON-nodal cross-section of an R12 rod whose nodal directors
    differ within the element (curved / twisted configuration). The interpolated director triad A_IB(xi) is then not
    orthonormal, the joint's body-fixed frames are obtained with A_IB^T instead of the inverse (and the default joint basis is
    A_IB itself), so g(t0, q0) is of the size of the orthonormality defect. Anything larger, or any other rod, is not covered."""
    worst = 0.0
    for s_, xi, r in zip([s for s in subs if hasattr(s, "nelement")], [x for x in xis if x is not None], rods):
        if r["interp"] == "R12" and r["xi_class"] == "interior" and r.get("curved"):
            A = np.asarray(s_.A_IB(s_.t0 if hasattr(s_, "t0") else 0.0, s_.q0[s_.local_qDOF_P(xi)], xi), dtype=float)
            arm = 1.0 + float(np.linalg.norm(np.asarray(joint.r_OJ0, dtype=float) - s_.r_OP(0.0, s_.q0[s_.local_qDOF_P(xi)], xi)))
            worst = max(worst, float(np.abs(A.T @ A - np.eye(3)).max()) * arm)
    if worst > 0 and np.abs(g0).max() <= 10 * worst:
        return KF_R12
    return None


def _key_fn(site, J, D, err, det):
    """defect model of the Petrov-Galerkin finding: a rod subsystem is attached at a NON-nodal xi, the state is not a
    rigid-body velocity field, and the refuted relation is a time-derivative relation (g_dot / g_ddot as rates).
    Derivative (D) and force-direction (W) relations are never covered, nor are nodal xi or rigid velocity fields."""
    if not (site.endswith(".g_dot") or site.endswith(".g_ddot")):
        return None
    if "time derivative" not in "claimed rate differs from the time derivative":
        return None
    if det.get("monitor_kind") != "T":
        return None
    interior = [r for r in det.get("rods", []) if r["xi_class"] == "interior"]
    if det.get("state") == "reference:rigid_field" and not any(r.get("curved") for r in interior):
        # nodal velocities of a rigid motion: on a straight rod the interpolated field IS rigid, the relations must hold.
        # (On a curved rod the nodal orientations differ, the interpolated B_Omega is not A_IB(xi)^T Omega inside an element:
        # that is the mechanism of the finding again.)
        return None
    if interior:
        return KF_PG
    return None


def run_case(spec, ctx):
    env.import_cardillo()
    from cardillo import System
    rng = ctx.rng
    kind, pairing = spec["joint"], spec["pairing"]
    t0 = float(rng.normal()) if rng.random() < 0.6 else 0.0
    subs, xis, rods = [], [], []
    with gen.quiet():
        system = System(t0=t0)
        for k, sk in enumerate(pairing):
            if sk == "rod":
                from vlib import rodlite
                # 40 %: the rod is defined in a curved, twisted configuration (an arc), so that the cross-section orientation
                # varies along the rod and inside each element
                rod, xi, rinfo = rodlite.simple_rod(rng, name=f"rod{k}", curved=bool(rng.random() < 0.4))
                subs.append(rod); xis.append(xi); rods.append(rinfo)
                if rinfo["curved"]:
                    ctx.cls(f"rod:curved:{rinfo['interp']}:xi={rinfo['xi_class']}")
            else:
                s, _, _, _ = gen.make_subsystem(rng, sk, f"s{k}")
                subs.append(s); xis.append(None)
        placement = spec["placement"]
        if kind == "Spherical" and not any(hasattr(s, "A_IB") for s in subs):
            placement = "given"
        joint, info = gen.make_joint(rng, kind, subs[0], subs[1], placement=placement, xi1=xis[0], xi2=xis[1])
        if spec.get("far"):
            from vlib.oracles import random_unit, loguniform
            shift = random_unit(rng) * float(loguniform(rng, 30, 3000))
            for s_ in subs:
                s_.q0 = np.array(s_.q0, dtype=float); s_.q0[:3] = s_.q0[:3] * 0.5 + shift
            # joint point beside the reference point of one of the bodies: the offset is tiny compared with the distance
            # from the origin, but it is an offset (the joint must still be satisfied where it was defined)
            who = subs[int(rng.integers(2))]
            joint.r_OJ0 = who.q0[:3] + rng.normal(size=3) * float(loguniform(rng, 1e-7, 1e-5)) * float(np.linalg.norm(shift))
            ctx.cls("placement:far_from_origin_small_offset")
        pms = [s_ for s_ in subs if s_.__class__.__name__ == "PointMass"]
        if kind == "Spherical" and pms:
            # a point mass can only be connected at its own position: the joint point is that position
            if len(pms) == 2:
                pms[1].q0 = pms[0].q0.copy()
            joint.r_OJ0 = pms[0].q0.copy()
        system.add(*subs)
        system.add(joint)
        extra = {"joint": kind, "pairing": pairing, "placement": placement, "t0": t0, "xi": xis, "rods": rods}
        ctx.cls(f"joint:{kind}")
        ctx.cls(f"pair:{pairing[0]}-{pairing[1]}")
        ctx.cls(f"placement:{placement}")
        try:
            system.assemble(options=gen.no_cic_options())
        except Exception as e:
            ctx.mon("EQ:g0")
            ctx.violation(f"{kind}.assemble", "system with this joint fails to assemble",
                          {**extra, "error": f"{type(e).__name__}: {e}"[:300]}, key=None)
            ctx.sig([kind, pairing, placement, "assemble-failed"], nontrivial=True)
            ctx.sample(extra)
            return
        # a joint is satisfied in the configuration in which it was defined
        g0 = system.g(system.t0, system.q0)
        ctx.mon("EQ:g0")
        scale = 1.0 + np.abs(system.q0).max() ** 2 if system.q0.size else 1.0
        if spec.get("far"):
            scale = 1.0 + np.abs(system.q0).max()       # positions enter g linearly here: rounding level is eps*|r|
        if np.abs(g0).max() > 1e-10 * scale:
            ctx.violation(f"{kind}.g", "joint is not satisfied in the configuration in which it was defined", {**extra, "g0": g0},
                          key=_r12_key(subs, xis, rods, g0, joint))
        label = f"{kind}[{pairing[0]},{pairing[1]}]"
        for k in range(4 if rods else 3):
            if k == 0:
                q = np.array(system.q0, dtype=float)
                _, u, u_dot, _ = gen.random_system_state(rng, system)
                cls = "on_manifold"
                if rods:  # rigid velocity field on every rod: the T-relations must hold even at interior xi
                    from vlib import rodlite
                    for s_ in subs:
                        if hasattr(s_, "nodalDOF_p"):
                            ur, udr = rodlite.rigid_field(s_, q[s_.my_qDOF], rng)
                            u[s_.my_uDOF], u_dot[s_.my_uDOF] = ur, udr
                    cls = "reference:rigid_field"
            elif k == 3:
                q = np.array(system.q0, dtype=float)
                _, u, u_dot, _ = gen.random_system_state(rng, system)
                cls = "on_manifold"
            else:
                q, u, u_dot, qc = gen.random_system_state(rng, system, perturb=0.3 if rods else 1.0)
                cls = "off_manifold:" + ("nonunit" if "nonunit" in qc else "unit")
            t = t0 + (float(rng.normal()) if k else 0.0)
            la = rng.normal(size=system.nla_g)
            ctx.cls(f"state:{cls}")
            so.constraint_hierarchy(ctx, system, t, q, u, u_dot, la, label, extra={**extra, "state": cls}, key_fn=_key_fn, exc_key_fn=_exc_key)
    ctx.sig([kind, pairing, placement, info, t0, system.q0.tolist()], nontrivial=system.nu > 0)
    ctx.sample({**extra, "nq": system.nq, "nu": system.nu, "nla_g": system.nla_g})
