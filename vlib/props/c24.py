"""C24 Restarting a simulation from an intermediate state reproduces the run (crash-point enumeration)."""

import warnings
import numpy as np
from vlib import env, gen
from vlib.oracles import dense, quat_to_mat, loguniform, random_unit

ID = "C24"
LEVEL = "fault_enumeration"
RULE = ("each case: one scenario (elastic pendulum on a compliance-form two-point spring; two-body chain with revolute + body-body joint; spring on a revolute joint wound past one turn; stiff torsional oscillator swinging about a whole number of turns; "
        "ball bouncing / sliding on a plane with friction; two balls with a sphere-sphere contact; point mass on a Maxwell "
        "element) x solver (Rattle, BackwardEuler, Moreau, ScipyIVP where applicable) x split step k. The uninterrupted run of N "
        "steps is compared with: run k steps, deep-copy the system, set_new_initial_state(q_k, u_k, t_k), run N-k steps. quick: 6 "
        "split points per run, thorough: every k. In addition a model-identity monitor evaluates the joints' body-fixed frames, "
        "the revolute angle, fixed distances and contact parameters at fixed probe states before and after re-initialisation. "
        "distinct = scenario + solver + k; non-trivial = 0 < k < N and the state at k differs from the initial state")
ASSUMPTIONS = ["solver tolerances 1e-10; trajectories must agree within 1e-6*(1+|q|) over all common steps (restart changes only warm starts of the iterations)",
               "a state reached by a solver that does not enforce position- and velocity-level constraints together (Moreau, BackwardEuler, ScipyIVP) is re-initialised with compute_consistent_initial_conditions=False, otherwise with the default options",
               "a Rattle state in which a contact is within assembly's closing tolerance (|g_N| <= 1e-8) and still approaching is re-initialised without the consistency assertions as well (assembly would call it 'g_N_dot0' inconsistent; counted)",
               "model identity: body-fixed joint point / axes, revolute angle at probe states, fixed distance, contact radius and friction data must be unchanged (1e-9)"]
REQUIRED_MONITORS = ["restart", "trajectory", "model_identity"]
META = {
    "level_text": "Crash-point enumeration: for each generated run every split step (quick: six of them) is used as restart point through the real deepcopy + set_new_initial_state + solver path; the continued trajectory is compared with the uninterrupted one and the model-identity probes with their values before re-initialisation. Held on the runs and split points enumerated.",
    "level_note": "tolerance 1e-6 relative on trajectories with solver tolerances 1e-10; probes at fixed states; Moreau/ScipyIVP states re-initialised without the consistency assertions.",
    "technique": "differential execution (full vs split run) over enumerated restart points plus model-identity probes",
}
CASE_TIMEOUT = 600
WALL_BUDGET = {"quick": 1200, "thorough": 7200}
SCEN = {"chain": ["Rattle", "BackwardEuler"], "wound": ["Rattle", "BackwardEuler", "ScipyIVP", "Moreau"], "ball": ["Moreau", "Rattle", "BackwardEuler"],
        "balls": ["Moreau", "Rattle"], "maxwell": ["Rattle", "Moreau", "ScipyIVP"], "carrier": ["Moreau", "BackwardEuler", "Rattle"],
        "oscillator": ["Moreau", "Rattle", "BackwardEuler"],
        # elastic pendulum on a compliance-form spring / spring-damper between two points: the force direction swings with the motion
        "elastic": ["Rattle", "Moreau", "BackwardEuler"]}
GRAV = np.array([0, 0, -9.81])
DT = 5e-3


def cases(tier, seed):
    out = []
    reps = {"quick": 1, "thorough": 6}[tier]
    for r in range(reps):
        for sc, solvers in SCEN.items():
            for sv_ in solvers:
                # (wound + Moreau: every split step also in the quick tier - the step in which the joint completes its turn is
                #  the interesting restart point, and Moreau evaluates the joint at the midpoint, not at the stored state)
                out.append({"scenario": sc, "solver": sv_, "rep": r, "all_k": tier == "thorough" or (sc in ("wound", "oscillator") and sv_ == "Moreau")})
        # runs that start at a negative time and are split exactly at t = 0.0
        for sc, sv_ in (("carrier", "Moreau"), ("chain", "Rattle"), ("ball", "Moreau"), ("carrier", "BackwardEuler"), ("maxwell", "ScipyIVP")):
            out.append({"scenario": sc, "solver": sv_, "rep": r, "all_k": False, "neg_t0": True})
    return out


def _build(rng, sc, horizon=0.15, t0=0.0):
    from cardillo import System
    from cardillo.discrete import RigidBody, PointMass, Frame
    from cardillo.constraints import Revolute, Spherical, FixedDistance
    from cardillo.forces import Force
    from cardillo.force_laws import Spring, MaxwellElement
    from cardillo.interactions import TwoPointInteraction
    from cardillo.contacts import Sphere2Plane, Sphere2Sphere
    S = System(t0=t0)
    info = {}
    if sc == "carrier":
        # pendulum hinged on a carrier Frame with prescribed translating and rocking motion (a joint partner without coordinates
        # whose pose depends on time: at a restart time it is somewhere else than at the first assembly)
        mot = gen.Motion(rng, moving=True, rotating=True)
        carrier = mot.frame(Frame, name="carrier")
        t0_ = t0
        A_c, r_c = mot.A(t0_), mot.r(t0_)
        hinge = r_c + A_c @ (rng.normal(size=3) * 0.3)
        P = rng.normal(size=4); P /= np.linalg.norm(P)
        r1 = hinge + random_unit(rng) * 0.5
        b1 = RigidBody(1.0, gen.random_spd(rng, 3, 0.02, 0.2), q0=np.concatenate([r1, P]), u0=np.zeros(6), name="b1")
        kindj = ["Revolute", "Spherical"][int(rng.integers(2))]
        if kindj == "Revolute":
            j1 = Revolute(carrier, b1, int(rng.integers(3)), r_OJ0=hinge, A_IJ0=quat_to_mat(rng.normal(size=4)), name="j1")
        else:
            j1 = Spherical(carrier, b1, r_OJ0=hinge, name="j1")
        # velocity consistent with the moving hinge at t0
        Om_c = A_c @ mot.omega_B(t0_)
        v_h = mot.r_t(t0_) + np.cross(Om_c, hinge - r_c)
        b1.u0 = np.concatenate([v_h + np.cross(Om_c, r1 - hinge), quat_to_mat(P).T @ Om_c])
        S.add(carrier, b1, j1, Force(GRAV * 1.0, b1, name="g1"))
        info.update({"joint": kindj})
    elif sc == "oscillator":
        # body on a revolute joint with a stiff torsional spring, swinging about an angle that is a whole number of turns (or
        # zero): the relative angle keeps crossing the branch of the joint's turn counting, in both directions, several times
        P = rng.normal(size=4); P /= np.linalg.norm(P)
        r1 = random_unit(rng) * 0.6
        Th = gen.random_spd(rng, 3, 0.02, 0.2)
        A_J = quat_to_mat(rng.normal(size=4))
        axis = int(rng.integers(3))
        e = A_J[:, axis]
        R1 = quat_to_mat(P)
        Th_axis = float(e @ (R1 @ Th @ R1.T) @ e + 1.0 * np.linalg.norm(np.cross(r1, e)) ** 2)
        om = float(rng.uniform(80, 130)); amp = float(rng.uniform(0.15, 0.4)) * (1.0 if rng.random() < 0.5 else -1.0)
        angle0 = float(rng.integers(-2, 3)) * 2 * np.pi
        b1 = RigidBody(1.0, Th, q0=np.concatenate([r1, P]), u0=np.concatenate([np.cross(e * amp * om, r1), R1.T @ (e * amp * om)]), name="b1")
        j1 = Revolute(S.origin, b1, axis, angle0=angle0, r_OJ0=np.zeros(3), A_IJ0=A_J, name="j1")
        S.add(b1, j1, Force(GRAV * 1.0, b1, name="g1"), Spring(j1, om * om * Th_axis, l_ref=angle0, compliance_form=False, name="torsion"))
        info.update({"axis": axis, "angle0": angle0, "omega": om, "amplitude": amp})
    elif sc in ("chain", "wound"):
        P = rng.normal(size=4); P /= np.linalg.norm(P)
        r1 = random_unit(rng) * 0.6
        b1 = RigidBody(1.0, gen.random_spd(rng, 3, 0.02, 0.2), q0=np.concatenate([r1, P]), u0=np.zeros(6), name="b1")
        A_J = quat_to_mat(rng.normal(size=4))
        axis = int(rng.integers(3))
        if sc == "wound":
            # wound past one turn by the angle offset AND completing a full relative turn (the joint's turn counter advances)
            # at 50-90 % of the run, in either direction; at most 1 rad per step so that the angle tracking can follow
            spin = min(2 * np.pi / (horizon * float(rng.uniform(0.5, 0.9))), 1.0 / DT) * (1.0 if rng.random() < 0.5 else -1.0)
            angle0 = float(rng.uniform(3, 5) * np.pi) * (1.0 if rng.random() < 0.5 else -1.0)
            info["spin"] = spin
        else:
            angle0 = float(rng.uniform(-1, 1))
        j1 = Revolute(S.origin, b1, axis, angle0=angle0, r_OJ0=np.zeros(3), A_IJ0=A_J, name="j1")
        S.add(b1, j1, Force(GRAV * 1.0, b1, name="g1"))
        info.update({"axis": axis, "angle0": angle0})
        if sc == "wound":
            S.add(Spring(j1, float(rng.uniform(0.5, 3)), l_ref=0.0, compliance_form=False, name="torsion"))
            # initial spin so that the joint keeps turning
            b1.u0 = np.concatenate([np.cross(A_J[:, axis] * spin, r1), quat_to_mat(P).T @ (A_J[:, axis] * spin)])
        else:
            P2 = rng.normal(size=4); P2 /= np.linalg.norm(P2)
            r2 = r1 + random_unit(rng) * 0.6
            b2 = RigidBody(0.7, gen.random_spd(rng, 3, 0.02, 0.2), q0=np.concatenate([r2, P2]), u0=np.zeros(6), name="b2")
            kind = ["Revolute", "Spherical", "FixedDistance"][int(rng.integers(3))]
            if kind == "Revolute":
                j2 = Revolute(b1, b2, int(rng.integers(3)), r_OJ0=0.5 * (r1 + r2), A_IJ0=quat_to_mat(rng.normal(size=4)), name="j2")
            elif kind == "Spherical":
                j2 = Spherical(b1, b2, r_OJ0=0.5 * (r1 + r2), name="j2")
            else:
                j2 = FixedDistance(b1, b2, B1_r_P1J1=rng.normal(size=3) * 0.1, B2_r_P2J2=rng.normal(size=3) * 0.1); j2.name = "j2"
            S.add(b2, j2, Force(GRAV * 0.7, b2, name="g2"))
            info["joint2"] = kind
    elif sc in ("ball", "balls"):
        R = 0.2
        mu, e_N = float(rng.uniform(0.1, 0.6)), float(rng.uniform(0.2, 0.8))
        balls = []
        for i in range(1 if sc == "ball" else 2):
            P = rng.normal(size=4); P /= np.linalg.norm(P)
            pos = np.array([0.45 * i, 0.0, R + 0.05 + 0.35 * i])
            u0 = np.concatenate([[1.0 - 2 * i, 0.3, 0.0], rng.normal(size=3)])
            b = RigidBody(1.0, 0.4 * R * R * np.eye(3), q0=np.concatenate([pos, P]), u0=u0, name=f"ball{i}")
            S.add(b, Force(GRAV, b, name=f"g{i}"), Sphere2Plane(S.origin, b, mu, r=R, e_N=e_N, e_F=0.0, name=f"s2p{i}"))
            balls.append(b)
        if sc == "balls":
            S.add(Sphere2Sphere(balls[0], balls[1], R, R, mu, e_N=e_N, e_F=0.0, name="s2s"))
        info.update({"mu": mu, "e_N": e_N})
    elif sc == "elastic":
        from cardillo.force_laws import KelvinVoigtElement
        pm = PointMass(1.0, q0=np.array([0.6, 0.2, -0.5]), u0=rng.normal(size=3) * 1.5, name="pm")
        tpi = TwoPointInteraction(S.origin, pm)
        k = float(rng.uniform(50, 300))
        kv = bool(rng.random() < 0.5)
        law = (KelvinVoigtElement(tpi, k, float(rng.uniform(0.5, 3)), l_ref=0.7, compliance_form=True, name="leg") if kv
               else Spring(tpi, k, l_ref=0.7, compliance_form=True, name="leg"))
        S.add(pm, tpi, law, Force(GRAV, pm, name="g"))
        info.update({"law": "KelvinVoigt:compliance" if kv else "Spring:compliance", "k": k})
    else:
        pm = PointMass(1.0, q0=np.array([0.8, 0.1, -0.3]), u0=rng.normal(size=3), name="pm")
        tpi = TwoPointInteraction(S.origin, pm)
        S.add(pm, MaxwellElement(tpi, float(rng.uniform(20, 60)), float(rng.uniform(1, 10)), l_ref=0.6, q0=np.array([0.05]), name="maxwell"), Force(GRAV, pm, name="g"))
    return S, info


def _solve(solver, S, t1, opts):
    import cardillo.solver as sv
    if solver == "ScipyIVP":
        return sv.ScipyIVP(S, t1, DT, rtol=1e-11, atol=1e-12).solve()
    return getattr(sv, solver)(S, t1, DT, options=opts()).solve()


def _probes(S, rng_seed):
    """model-identity probes: values that must not change when the system is re-initialised"""
    r = np.random.default_rng(rng_seed)
    out = {}
    qp = np.array(S.q0, dtype=float) * 0 + r.normal(size=S.nq)
    for c in S.contributions:
        if hasattr(c, "B_Theta_C") and hasattr(c, "my_qDOF"):
            qp[c.my_qDOF[3:]] /= np.linalg.norm(qp[c.my_qDOF[3:]])
    t = 0.3
    for c in S.contributions:
        nm = getattr(c, "name", "?")
        if hasattr(c, "r_OJ1") and hasattr(c, "qDOF"):
            qq = qp[c.qDOF]
            out[f"{nm}.joint_point_gap"] = np.asarray(c.r_OJ2(t, qq) - c.r_OJ1(t, qq))
            if hasattr(c, "A_IJ1") and getattr(c, "nla_g_rot", 0) > 0:
                out[f"{nm}.relative_joint_frame"] = np.asarray(c.A_IJ1(t, qq).T @ c.A_IJ2(t, qq))
        if hasattr(c, "dist"):
            out[f"{nm}.dist"] = np.array([c.dist])
        if c.__class__.__name__ == "Revolute":
            saved = (c.n_full_rotations, c.previous_quadrant)     # the probe must not disturb the tracked turns
            c.reset()
            out[f"{nm}.angle_at_probe"] = np.array([np.cos(c.l(t, qp[c.qDOF])), np.sin(c.l(t, qp[c.qDOF]))])
            c.n_full_rotations, c.previous_quadrant = saved
        if c.__class__.__name__ in ("Sphere2Plane",):
            out[f"{nm}.params"] = np.array([c.r, c.friction_laws[0][2].r if hasattr(c, "friction_laws") else 0.0, *np.atleast_1d(c.e_N)])
        if hasattr(c, "l_ref") and c.l_ref is not None:
            out[f"{nm}.l_ref"] = np.array([c.l_ref])
    return out


def run_case(spec, ctx):
    env.import_cardillo()
    from cardillo.solver import SolverOptions
    rng = ctx.rng
    sc, solver = spec["scenario"], spec["solver"]
    N = int(rng.integers(24, 41)) if not spec["all_k"] else int(rng.integers(10, 25))
    opts = lambda: SolverOptions(newton_atol=1e-10, newton_rtol=1e-10, fixed_point_atol=1e-10, fixed_point_rtol=1e-10, fixed_point_max_iter=20000, newton_max_iter=50)
    det = {**spec, "N": N}
    with gen.quiet(), warnings.catch_warnings():
        warnings.simplefilter("ignore")
        seed_build = int(rng.integers(1 << 30))
        T0 = 0.0
        if spec.get("neg_t0"):
            k0 = int(rng.integers(2, N - 1))
            T0 = -(k0 * DT)          # the k0-th grid point t0 + k0*dt is exactly 0.0
            det["t0"] = T0; det["k_at_time_zero"] = k0
            ctx.cls("restart:at_time_exactly_zero")
        S, info = _build(np.random.default_rng(seed_build), sc, horizon=N * DT, t0=T0)
        det.update(info)
        try:
            S.assemble(options=SolverOptions())
            full = _solve(solver, S, T0 + N * DT, opts)
        except Exception as e:
            ctx.undecided(f"reference run failed: {type(e).__name__}: {e}"[:150]); ctx.sig([det], nontrivial=False); return
        tF, qF, uF = np.asarray(full.t), np.asarray(full.q), np.asarray(full.u)
        if len(tF) < N + 1:
            # the reference run itself was truncated by the solver (announced non-convergence, C21's subject): nothing to split
            ctx.undecided(f"reference run returned only {len(tF)} of {N + 1} instants"); ctx.sig([det], nontrivial=False); return
        ks = list(range(1, N)) if spec["all_k"] else sorted(set(int(x) for x in np.linspace(1, N - 1, 6)))
        if spec.get("neg_t0"):
            ks = sorted(set(ks[:3] + [k0]))
        probe_seed = int(rng.integers(1 << 30))
        moved = False
        for k in ks:
            ctx.cls(f"scenario:{sc}:{solver}")
            exk = {**det, "k": k, "t_k": float(tF[k])}
            # fresh system, run to the split time
            S1, _ = _build(np.random.default_rng(seed_build), sc, horizon=N * DT, t0=T0)
            try:
                S1.assemble(options=SolverOptions())
                first = _solve(solver, S1, T0 + k * DT, opts)
            except Exception as e:
                ctx.undecided(f"first segment failed: {type(e).__name__}"); continue
            if len(np.asarray(first.t)) <= k:
                ctx.undecided("first segment shorter than k steps"); continue
            # (a solver may take one step more than k when k*dt is not exactly representable: use row k, not the last row)
            q_k, u_k, t_k = np.asarray(first.q)[k], np.asarray(first.u)[k], float(np.asarray(first.t)[k])
            if np.abs(q_k - qF[k]).max() > 1e-7:
                ctx.undecided(f"first segment differs from the reference run by {np.abs(q_k - qF[k]).max():.2e} at k={k} (solver not deterministic enough)"); continue
            moved |= bool(np.abs(q_k - qF[0]).max() > 1e-6)
            before = _probes(S1, probe_seed)
            S2 = S1.deepcopy()
            ctx.mon("restart")
            kw = {}
            if solver in ("Moreau", "ScipyIVP", "BackwardEuler"):
                kw["options"] = SolverOptions(compute_consistent_initial_conditions=False)
            if sc == "carrier" and solver == "Rattle" and False:
                kw["options"] = SolverOptions(compute_consistent_initial_conditions=False)
            try:
                try:
                    S2.set_new_initial_state(q_k.copy(), u_k.copy(), t0=t_k, **kw)
                except AssertionError as e0:
                    # assembly counts a contact as closed when |g_N| <= 1e-8; a state reached just before an impact (gap open by
                    # less than that, still approaching) is a legitimate state of the run but fails its g_N_dot0 assertion. The
                    # restart is then done the way the other solvers' states are: without the consistency assertions. The same
                    # holds for a gap of exactly 0.0 (or closed within the tolerance) whose stored velocity still approaches: RATTLE
                    # stores such states for slowly settling balls with restitution, assembly cannot start from an impact.
                    gN_ = S1.g_N(t_k, q_k) if S1.nla_N else np.zeros(0)
                    band = S1.nla_N and np.any(np.abs(gN_) <= 1e-8) and "g_N_dot0" in str(e0) and "options" not in kw
                    if not band:
                        raise
                    ctx.cls("restart:open_contact_within_assembly_tolerance(no_cic)")
                    S2 = S1.deepcopy()
                    S2.set_new_initial_state(q_k.copy(), u_k.copy(), t0=t_k, options=SolverOptions(compute_consistent_initial_conditions=False))
            except Exception as e:
                wit = {}
                if S1.nla_N:
                    try:
                        wit = {"g_N_at_state": S1.g_N(t_k, q_k), "g_N_dot_at_state": S1.g_N_dot(t_k, q_k, u_k)}
                    except Exception:
                        pass
                ctx.violation("System.set_new_initial_state", "re-initialising a copy of the system with a state reached by the solver raises",
                              {**exk, **wit, "error": f"{type(e).__name__}: {e}"[:300]}, key=_kf_restart(sc, det, e))
                continue
            # ---- model identity
            ctx.mon("model_identity")
            after = _probes(S2, probe_seed)
            for name, val in before.items():
                if name not in after or np.abs(after[name] - val).max() > 1e-9:
                    ctx.violation("System.set_new_initial_state", "re-initialisation changes the model (probe value differs)",
                                  {**exk, "probe": name, "before": val, "after": after.get(name)}, key=_kf_model(name, sc))
            # ---- continued trajectory
            try:
                second = _solve(solver, S2, t_k + (N - k) * DT, opts)
            except Exception as e:
                ctx.violation(f"{solver}.solve", "continuing from the re-initialised system raises", {**exk, "error": f"{type(e).__name__}: {e}"[:300]},
                              key=_kf_restart(sc, det, e))
                continue
            ctx.mon("trajectory")
            q2, u2, t2 = np.asarray(second.q), np.asarray(second.u), np.asarray(second.t)
            m = min(len(t2), len(tF) - k)
            # the continued run covers the remaining instants of the uninterrupted one (same times, same number of them)
            if len(t2) < len(tF) - k and np.abs(t2[:m] - tF[k:k + m]).max() <= 1e-9:
                # the continued run was cut short by the solver itself (a non-convergence it announces: the subject of C20 / C21);
                # found by the seed sweep: BackwardEuler, ball scene, last step of the continued run
                ctx.undecided(f"continued run returned only {len(t2)} of {len(tF) - k} remaining instants (truncated by the solver)")
                ctx.cls("restart:continued_run_truncated_by_solver")
                continue
            if len(t2) != len(tF) - k or np.abs(t2[:m] - tF[k:k + m]).max() > 1e-9:
                ctx.violation(f"{solver}.restart", "the run continued from the re-initialised system does not cover the remaining time instants of the uninterrupted run",
                              {**exk, "instants_continued": int(len(t2)), "instants_remaining": int(len(tF) - k), "t_first_continued": float(t2[0]), "t_k": float(tF[k]),
                               "t_last_continued": float(t2[-1]), "t_final": float(tF[-1])})
                continue
            dq = np.abs(q2[:m] - qF[k:k + m]).max()
            du = np.abs(u2[:m] - uF[k:k + m]).max()
            ctx.extra("max_dq", float(dq))
            if solver == "ScipyIVP":
                # the ODE wrapper reports accelerations and multipliers as functions of the state at each output time: the
                # continued run must report the same ones as the uninterrupted run
                for fld in ("u_dot", "la_g", "la_c"):
                    a_, b_ = getattr(second, fld, None), getattr(full, fld, None)
                    if a_ is None or b_ is None or np.asarray(a_).size == 0:
                        continue
                    a_, b_ = np.asarray(a_)[:m], np.asarray(b_)[k:k + m]
                    ctx.mon("fields")
                    if a_.shape != b_.shape or np.abs(a_ - b_).max() > 1e-5 * (1 + np.abs(b_).max()):
                        ctx.violation("ScipyIVP.restart", "accelerations / multipliers reported for the continued run differ from those of the uninterrupted run at the same states",
                                      {**exk, "field": fld, "max_diff": float(np.abs(a_ - b_).max()) if a_.shape == b_.shape else "shape"})
                        break
            if sc in ("ball", "balls") and solver in ("Moreau", "Rattle") and getattr(second, "P_F", None) is not None and getattr(full, "P_F", None) is not None:
                # contact data keep their meaning: the friction percussions of the continued run are those of the uninterrupted run,
                # component by component (the tangent directions they refer to are part of the model)
                a_, b_ = np.asarray(second.P_F)[1:m], np.asarray(full.P_F)[k + 1:k + m]
                a_N, b_N = np.asarray(second.P_N)[1:m], np.asarray(full.P_N)[k + 1:k + m]
                if a_.size and a_.shape == b_.shape:
                    ctx.mon("fields")
                    scale_ = 1e-12 + np.abs(b_).max()
                    if np.abs(a_N - b_N).max() <= 1e-6 * (1e-12 + np.abs(b_N).max()) and np.abs(a_ - b_).max() > 1e-5 * scale_ + 1e-9:
                        ctx.violation(f"{solver}.restart", "friction percussions of the continued run differ component by component from those of the uninterrupted run although the normal percussions agree (tangent directions changed by the re-initialisation)",
                                      {**exk, "max_dP_F": float(np.abs(a_ - b_).max()), "max_P_F": float(np.abs(b_).max())})
            if not (dq <= 1e-6 * (1 + np.abs(qF).max()) and du <= 1e-5 * (1 + np.abs(uF).max())):
                ctx.violation(f"{solver}.restart", "trajectory continued from the re-initialised system differs from the uninterrupted run",
                              {**exk, "max_dq": float(dq), "max_du": float(du)}, key=_kf_traj(sc, det))
    ctx.sig([det, seed_build], nontrivial=moved)
    ctx.sample(det)


# known-finding predicates (filled in below if findings are registered)
def _kf_restart(sc, det, e):
    return None


def _kf_model(name, sc):
    return None


def _kf_traj(sc, det):
    return None
