"""C01 Quaternion rotation kernel is algebraically exact.

Two execution modes of the REAL functions:
  float : float64 inputs over 200 decades of length, rounding-scaled tolerances
  exact : dtype=object arrays of fractions.Fraction (and dual numbers over
          Fraction for derivatives); identities checked with ==, no tolerance.
          By Schwartz-Zippel a rational identity of degree <= 8 that holds at a
          random point of a >= 2^40-point grid is wrong with probability < 2^-36
          per sample; this is how sampled executions approximate "every P at once".
"""

import numpy as np
from fractions import Fraction
from vlib import env
from vlib.oracles import loguniform

ID = "C01"
LEVEL = "exploration"
RULE = ("each case is a seeded batch of quaternions (and angular velocities) run through the real kernel in one mode "
        "(float / exact rational / algebra helpers); distinct = hash of the first inputs of the batch; non-trivial = "
        "every identity of the batch was evaluated on a nonzero, non-axis-aligned quaternion")
ASSUMPTIONS = ["float mode: |P| in [1e-150, 1e150] so that P.P neither under- nor overflows (float64 limit of the stated domain); the derivative beyond [1e-100, 1e100] is judged by its degree -1 homogeneity against the unit quaternion",
               "float tolerance 64*eps*(1+component dynamic range effect) on orthonormality etc.; derivative by complex step",
               "exact mode: module constants eye3 / ax2skew_a re-bound to integer-valued object arrays by the harness so that no float literal enters; helpers that multiply by a float literal (skew2ax) are replaced by the harness' own extraction"]
REQUIRED_MONITORS = ["float.orthonormal", "float.scale", "float.homomorphism", "float.TTinv", "float.spin", "float.derivative", "float.representation", "float.retention", "float.inplace_arguments",
                     "exact.orthonormal", "exact.scale", "exact.homomorphism", "exact.TTinv", "exact.spin", "exact.derivative", "algebra"]
META = {
    "level_text": "Exploration: the real kernel functions are executed on seeded hostile float inputs and, in exact mode, on Fraction-valued object arrays where every identity is decided with == (no tolerance); derivatives are obtained by executing the real map on dual numbers over Fraction. Held on the samples generated; not a symbolic proof.",
    "level_note": "sampled inputs only (Schwartz-Zippel argument for the rational identities); float mode limited to |P| in [1e-150,1e150]; module constants re-bound to exact integer arrays in exact mode.",
    "technique": "runtime return-value monitors; execution of the real code in exact rational / dual-number arithmetic + representation twins",
}

KINDS = ["float", "float", "exact", "algebra"]


def cases(tier, seed):
    n = {"quick": 320, "thorough": 8000}[tier]
    return [{"kind": KINDS[i % len(KINDS)], "batch": 20 if KINDS[i % len(KINDS)] != "exact" else 6} for i in range(n)]


# ------------------------------------------------------------------ dual numbers
class Dual:
    """a + b*eps with eps^2 = 0 over any field (Fraction here)"""
    __slots__ = ("a", "b")

    def __init__(self, a, b=0):
        self.a, self.b = a, b

    @staticmethod
    def _c(o):
        return o if isinstance(o, Dual) else Dual(o, 0)

    # binary operators defer to numpy (elementwise) when the other operand is an array
    def __add__(self, o):
        if isinstance(o, np.ndarray): return NotImplemented
        o = Dual._c(o); return Dual(self.a + o.a, self.b + o.b)
    __radd__ = __add__

    def __sub__(self, o):
        if isinstance(o, np.ndarray): return NotImplemented
        o = Dual._c(o); return Dual(self.a - o.a, self.b - o.b)

    def __rsub__(self, o):
        o = Dual._c(o); return Dual(o.a - self.a, o.b - self.b)

    def __mul__(self, o):
        if isinstance(o, np.ndarray): return NotImplemented
        o = Dual._c(o); return Dual(self.a * o.a, self.a * o.b + self.b * o.a)
    __rmul__ = __mul__

    def __truediv__(self, o):
        if isinstance(o, np.ndarray): return NotImplemented
        o = Dual._c(o); return Dual(self.a / o.a, (self.b * o.a - self.a * o.b) / (o.a * o.a))

    def __rtruediv__(self, o):
        return Dual._c(o).__truediv__(self)

    def __neg__(self):
        return Dual(-self.a, -self.b)

    def __pow__(self, n):
        assert isinstance(n, int) and n >= 0
        r = Dual(1, 0)
        for _ in range(n):
            r = r * self
        return r

    # branches in the executed code follow the primal value (ties: the sign of the derivative part), as in any forward-mode AD
    def _key(self):
        return (self.a, self.b)

    def __abs__(self):
        return -self if (self.a < 0 or (self.a == 0 and self.b < 0)) else self

    def __lt__(self, o):
        return self._key() < Dual._c(o)._key()

    def __le__(self, o):
        return self._key() <= Dual._c(o)._key()

    def __gt__(self, o):
        return self._key() > Dual._c(o)._key()

    def __ge__(self, o):
        return self._key() >= Dual._c(o)._key()


def _obj(lst):
    a = np.empty(len(lst), dtype=object)
    for i, v in enumerate(lst):
        a[i] = v
    return a


def _frac(rng, scale_bits=20):
    num = int(rng.integers(-(1 << scale_bits), 1 << scale_bits))
    den = int(rng.integers(1, 1 << scale_bits))
    return Fraction(num, den)


class exact_constants:
    """re-bind float module constants to exact integer object arrays"""

    def __enter__(self):
        import cardillo.math.rotations as R
        self.R = R
        self.saved = (R.eye3, R.ax2skew_a)
        e = np.empty((3, 3), dtype=object)
        for i in range(3):
            for j in range(3):
                e[i, j] = 1 if i == j else 0
        R.eye3 = e
        a_float = self.saved[1]()
        a = np.empty((3, 3, 3), dtype=object)
        for idx in np.ndindex(3, 3, 3):
            a[idx] = int(a_float[idx])
        R.ax2skew_a = lambda: a
        return self

    def __exit__(self, *exc):
        self.R.eye3, self.R.ax2skew_a = self.saved


def _is_exact(x):
    return isinstance(x, (int, Fraction)) and not isinstance(x, bool)


def _all_exact(A):
    return all(_is_exact(x) for x in np.asarray(A, dtype=object).ravel())


def _eq(A, B):
    A = np.asarray(A, dtype=object); B = np.asarray(B, dtype=object)
    return A.shape == B.shape and all(a == b for a, b in zip(A.ravel(), B.ravel()))


def _eye(n):
    e = np.empty((n, n), dtype=object)
    for i in range(n):
        for j in range(n):
            e[i, j] = 1 if i == j else 0
    return e


def _det3(M):
    return (M[0, 0] * (M[1, 1] * M[2, 2] - M[1, 2] * M[2, 1]) - M[0, 1] * (M[1, 0] * M[2, 2] - M[1, 2] * M[2, 0])
            + M[0, 2] * (M[1, 0] * M[2, 1] - M[1, 1] * M[2, 0]))


def _matmul(A, B):
    n, m, k = A.shape[0], B.shape[1], A.shape[1]
    C = np.empty((n, m), dtype=object)
    for i in range(n):
        for j in range(m):
            s = 0
            for l in range(k):
                s = s + A[i, l] * B[l, j]
            C[i, j] = s
    return C


# ------------------------------------------------------------------ float mode
def _quat(rng):
    """hostile nonzero quaternion"""
    P = rng.normal(size=4)
    c = int(rng.integers(8))
    if c == 0:
        P[0] = 0.0                                   # half turn
    elif c == 1:
        P[1:] = 0.0                                  # identity rotation
    elif c == 2:
        P *= loguniform(rng, 1e-8, 1.0, size=4)      # component dynamic range
    elif c == 3:
        k = int(rng.integers(1, 4)); P[1:] = 0; P[k] = rng.normal(); P[0] = rng.normal()  # axis aligned
    elif c == 4:
        P[0] = rng.normal() * 1e-9                   # near half turn
    elif c == 5:
        while True:                                  # sign / zero pattern: exact zeros, equal magnitudes, no positive component, ...
            P = rng.integers(-1, 2, size=4).astype(float)
            if np.any(P):
                break
    if not np.any(P):
        P[0] = 1.0
    P = P / np.linalg.norm(P)
    mode = int(rng.integers(5))
    if mode == 0:
        length = 1.0
    elif mode == 1:
        length = loguniform(rng, 1e-3, 1e3)
    elif mode == 4:
        # a hair off unit length (what a few integration steps without re-normalisation produce)
        length = 1.0 + (1 if rng.random() < 0.5 else -1) * loguniform(rng, 1e-15, 1e-4)
    elif mode == 2:
        length = loguniform(rng, 1e-100, 1e100)
    else:
        # up to the float64 limit of the stated domain: P.P is still a normal number
        length = loguniform(rng, 1e-150, 1e150)
    return P * length, ["half", "ident", "dynrange", "axis", "nearhalf", "pattern", "gen", "gen"][c], ["unit", "moderate", "extreme", "limit", "nearunit"][mode]


def run_float(ctx, n):
    import cardillo.math.rotations as R
    rng = ctx.rng
    eps = np.finfo(float).eps
    first = None
    for b in range(n):
        P, cls, lcls = _quat(rng)
        if first is None:
            first = P.tolist()
        ctx.cls(f"float:{cls}:{lcls}")
        normalize = True
        Pn = P / np.linalg.norm(P)
        A = R.Exp_SO3_quat(P, normalize=True)
        det = {"P": P, "class": cls}
        tol = 64 * eps
        ctx.mon("float.orthonormal")
        if np.abs(A.T @ A - np.eye(3)).max() > tol or abs(np.linalg.det(A) - 1) > tol:
            ctx.violation("Exp_SO3_quat", "rotation matrix not orthonormal with determinant +1",
                          {**det, "ATA_err": np.abs(A.T @ A - np.eye(3)).max(), "det": np.linalg.det(A)})
        # unit input, non-normalising variant agrees
        A1 = R.Exp_SO3_quat(Pn, normalize=False)
        if np.abs(A1 - A).max() > tol:
            ctx.violation("Exp_SO3_quat", "normalize=False on the unit quaternion differs from normalize=True", {**det, "err": np.abs(A1 - A).max()})
        # scale invariance
        s = loguniform(rng, 1e-30, 1e30) * (1 if rng.random() < 0.5 else -1)
        if 1e-150 <= np.linalg.norm(P * s) <= 1e150:
            As = R.Exp_SO3_quat(P * s)
            ctx.mon("float.scale")
            if np.abs(As - A).max() > tol:
                ctx.violation("Exp_SO3_quat", "rotation changes when the quaternion is scaled", {**det, "s": s, "err": np.abs(As - A).max()})
        # homomorphism
        Q, _, _ = _quat(rng)
        Q = Q / np.linalg.norm(Q) * loguniform(rng, 1e-3, 1e3)
        P2 = Pn * loguniform(rng, 1e-3, 1e3)
        P2arg = P2
        if rng.random() < 0.15:
            # integer-typed first factor (the product routine accepts it; the rotation matrices are built from float copies)
            P2arg = rng.integers(-3, 4, size=4)
            if not np.any(P2arg):
                P2arg[0] = 1
            P2 = P2arg.astype(float)
            ctx.cls("float:quatprod_integer_factor")
        PQ = R.quatprod(P2arg, Q)
        ctx.mon("float.homomorphism")
        e = np.abs(R.Exp_SO3_quat(np.asarray(PQ, dtype=float)) - R.Exp_SO3_quat(P2) @ R.Exp_SO3_quat(Q)).max() if np.any(PQ) else np.inf
        if e > 4 * tol:
            ctx.violation("quatprod/Exp_SO3_quat", "Exp(P o Q) differs from Exp(P) Exp(Q)", {"P": P2, "Q": Q, "err": e})
        # T * T_inv = I  (both variants)
        T = R.T_SO3_quat(P, normalize=True)
        Ti = R.T_SO3_inv_quat(P, normalize=True)
        ctx.mon("float.TTinv")
        e = np.abs(T @ Ti - np.eye(3)).max()
        if e > tol:
            ctx.violation("T_SO3_quat/T_SO3_inv_quat", "tangent map times its stated inverse is not the identity", {**det, "err": e})
        Tu = R.T_SO3_quat(Pn, normalize=False)
        Tiu = R.T_SO3_inv_quat(Pn, normalize=False)
        e = np.abs(Tu @ Tiu - np.eye(3)).max()
        if e > tol:
            ctx.violation("T_SO3_quat/T_SO3_inv_quat", "normalize=False: tangent map times inverse is not the identity on a unit quaternion", {**det, "err": e})
        # derivative by complex step (rational kernel, no branches)
        Pm = Pn * loguniform(rng, 1e-3, 1e3)
        # the stated derivative is checked with and without normalisation at the SAME points (the unit quaternion Pn, the
        # sampled P itself - which may be a hair off unit length - and a moderately scaled one), in a seeded order, so that a
        # result that depends on what was evaluated before at that point is seen as well
        combos = [(Pm, True), (Pn, False), (Pn, True)]
        if 1e-100 <= np.linalg.norm(P) <= 1e100:
            # (the derivative scales like 1/|P|: representable over the whole sampled range of lengths; the comparison below is
            #  scaled by |P|, so short and long quaternions are judged like unit ones)
            combos.append((P, True))
        else:
            # beyond the reach of the complex step (its imaginary parts would be subnormal): the normalising rotation map does
            # not depend on the length of P, hence its derivative is homogeneous of degree -1; the derivative at the unit
            # quaternion is judged by the complex step below
            ctx.mon("float.derivative_homogeneity")
            with np.errstate(all="ignore"):
                Jl = R.Exp_SO3_quat_P(P, normalize=True) * np.linalg.norm(P)
            e = np.abs(Jl - R.Exp_SO3_quat_P(Pn, normalize=True)).max()
            if not e <= 1e-10:
                ctx.violation("Exp_SO3_quat_P", "stated partial derivative at a very short / very long quaternion is not 1/|P| times the one at the unit quaternion",
                              {"P": P, "length": float(np.linalg.norm(P)), "scaled_err": e})
        order = rng.permutation(len(combos))
        for ci in order:
            Pd, nz = combos[int(ci)]
            J = R.Exp_SO3_quat_P(Pd, normalize=nz)
            D = np.zeros((3, 3, 4))
            h = 1e-30 * np.linalg.norm(Pd)
            for k in range(4):
                Pc = Pd.astype(complex); Pc[k] += 1j * h
                D[:, :, k] = np.imag(R.Exp_SO3_quat(Pc, normalize=nz)) / h
            ctx.mon("float.derivative")
            e = np.abs(J - D).max() * np.linalg.norm(Pd)
            if e > 1e-10:
                ctx.violation("Exp_SO3_quat_P", "stated partial derivative differs from complex-step derivative of Exp_SO3_quat",
                              {"P": Pd, "normalize": nz, "scaled_err": e})
        # purity: the kernel functions are pure; evaluating them again (after the other variant was evaluated at the same
        # point) must give the same values
        ctx.mon("float.purity")
        for name in ("Exp_SO3_quat", "Exp_SO3_quat_P", "T_SO3_quat", "T_SO3_inv_quat", "T_SO3_quat_P", "T_SO3_inv_quat_P"):
            f = getattr(R, name)
            a1 = np.array(f(Pn, normalize=True)); b1 = np.array(f(Pn, normalize=False)); a2 = np.array(f(Pn, normalize=True)); b2 = np.array(f(Pn, normalize=False))
            if not (np.array_equal(a1, a2) and np.array_equal(b1, b2)):
                ctx.violation(name, "repeated evaluation at the same quaternion returns different values (depends on the call history)",
                              {"P": Pn, "err_normalize_true": np.abs(a1 - a2).max(), "err_normalize_false": np.abs(b1 - b2).max()})
        # representation: the same quaternion / quaternion pair as strided, negatively strided or read-only arrays
        if b % 8 == 0:
            from vlib.oracles import representation_check
            Qm = rng.normal(size=4)
            calls = [(name, getattr(R, name), (Pm,), {"normalize": bool(nz_)}) for name in ("Exp_SO3_quat", "Exp_SO3_quat_P", "T_SO3_quat", "T_SO3_inv_quat") for nz_ in (True, False)]
            calls.append(("quatprod", R.quatprod, (Pm, Qm), {}))
            representation_check(ctx, calls, mon="float.representation")
            # products / matrices kept side by side, and one argument array refilled in place between calls
            from vlib.oracles import retention_check, inplace_check
            Qs = [rng.normal(size=4) * loguniform(rng, 1e-3, 1e3) for _ in range(4)]
            th = [("quatprod", {"P": a_, "Q": b_}, (lambda a_=a_, b_=b_: R.quatprod(a_.copy(), b_.copy()))) for a_ in Qs for b_ in Qs[:2]]
            for name in ("Exp_SO3_quat", "Exp_SO3_quat_P", "T_SO3_quat", "T_SO3_inv_quat", "T_SO3_quat_P", "T_SO3_inv_quat_P"):
                th += [(name, {"P": a_, "normalize": nz_}, (lambda f_=getattr(R, name), a_=a_, nz_=nz_: f_(a_.copy(), normalize=nz_))) for a_ in Qs for nz_ in (True, False)]
            retention_check(ctx, th, mon="float.retention")
            ip = [("quatprod", R.quatprod, [(a_, b_) for a_ in Qs for b_ in Qs[:2]][:6], {})]
            ip += [(name, getattr(R, name), [(a_,) for a_ in Qs], {"normalize": nz_}) for name in ("Exp_SO3_quat", "Exp_SO3_quat_P", "T_SO3_quat", "T_SO3_inv_quat") for nz_ in (True, False)]
            inplace_check(ctx, ip, mon="float.inplace_arguments")
        # spin: P_dot = T_inv(P) w ; body spin of Exp(P(t)) must be w
        w = rng.normal(size=3) * loguniform(rng, 1e-6, 1e6)
        Pdot = R.T_SO3_inv_quat(Pm) @ w
        Adot = _dir_derivative(R, Pm, Pdot)
        Am = R.Exp_SO3_quat(Pm)
        W = Am.T @ Adot
        spin = 0.5 * np.array([W[2, 1] - W[1, 2], W[0, 2] - W[2, 0], W[1, 0] - W[0, 1]])
        ctx.mon("float.spin")
        e = np.abs(spin - w).max() / np.linalg.norm(w)
        sym = np.abs(W + W.T).max() / np.linalg.norm(w)
        if e > 1e-10 or sym > 1e-10:
            ctx.violation("T_SO3_inv_quat", "quaternion rate from the inverse tangent map does not reproduce the angular velocity as body spin",
                          {"P": Pm, "omega": w, "spin": spin, "rel_err": e, "sym_part": sym})
        # T maps that rate back
        e = np.abs(R.T_SO3_quat(Pm) @ Pdot - w).max() / np.linalg.norm(w)
        if e > 1e-12:
            ctx.violation("T_SO3_quat", "T(P) T_inv(P) w differs from w", {"P": Pm, "omega": w, "rel_err": e})
    return first


def _dir_derivative(R, P, Pdot):
    """true directional derivative of Exp_SO3_quat by complex step"""
    h = 1e-30
    s = np.linalg.norm(P) / max(np.linalg.norm(Pdot), 1e-300)
    Pc = P.astype(complex) + 1j * h * s * Pdot
    return np.imag(R.Exp_SO3_quat(Pc)) / (h * s)


# ------------------------------------------------------------------ exact mode
def run_exact(ctx, n):
    import cardillo.math.rotations as R
    rng = ctx.rng
    first = None
    with exact_constants():
        for _ in range(n):
            bits = [4, 20, 40][int(rng.integers(3))]
            P = _obj([_frac(rng, bits) for _ in range(4)])
            c = int(rng.integers(7))
            if c == 0:
                P[0] = Fraction(0)
            elif c == 1:
                P[1] = P[2] = Fraction(0)
            elif c == 6:
                # exactly unit rational quaternion (stereographic projection of a rational point): P.P == 1 holds with ==
                t = [_frac(rng, min(bits, 20)) for _ in range(3)]
                tt = sum(x * x for x in t)
                P = _obj([(1 - tt) / (1 + tt)] + [2 * x / (1 + tt) for x in t])
            if all(x == 0 for x in P):
                P[0] = Fraction(1)
            if first is None:
                first = [str(x) for x in P]
            ctx.cls(f"exact:bits{bits}:{['p0=0','axis','gen','gen','gen','gen','unit'][c]}")
            det = {"P": [str(x) for x in P]}
            try:
                _exact_sample(ctx, R, rng, P, bits, det)
            except (TypeError, AttributeError, ValueError, ZeroDivisionError) as e:
                # the real code could not be executed on Fraction / dual-number objects (e.g. a float-only numpy routine was
                # introduced): exact mode says nothing about this sample; float mode decides
                ctx.count("exact_mode_unavailable:exception")
                ctx.count(f"exact_mode_exception:{type(e).__name__}")
    return first


def _exact_sample(ctx, R, rng, P, bits, det):
    if True:
        if True:
            A = R.Exp_SO3_quat(P.copy(), normalize=True)
            if not _all_exact(A):
                ctx.count("exact_mode_unavailable:Exp_SO3_quat")
                return
            ctx.mon("exact.orthonormal")
            if not _eq(_matmul(A.T, A), _eye(3)) or _det3(A) != 1:
                ctx.violation("Exp_SO3_quat", "exact arithmetic: rotation matrix not orthonormal with determinant +1", det)
            s = _frac(rng, 30)
            if s != 0:
                ctx.mon("exact.scale")
                if not _eq(R.Exp_SO3_quat(P * s), A):
                    ctx.violation("Exp_SO3_quat", "exact arithmetic: rotation changes when the quaternion is scaled", {**det, "s": str(s)})
            Q = _obj([_frac(rng, bits) for _ in range(4)])
            if all(x == 0 for x in Q):
                Q[0] = Fraction(1)
            PQ = R.quatprod(P, Q)
            ctx.mon("exact.homomorphism")
            if not _all_exact(PQ) or not _eq(R.Exp_SO3_quat(np.asarray(PQ, dtype=object)), _matmul(A, R.Exp_SO3_quat(Q.copy()))):
                ctx.violation("quatprod/Exp_SO3_quat", "exact arithmetic: Exp(P o Q) differs from Exp(P) Exp(Q)", {**det, "Q": [str(x) for x in Q]})
            T = R.T_SO3_quat(P.copy(), normalize=True)
            Ti = R.T_SO3_inv_quat(P.copy(), normalize=True)
            if _all_exact(T) and _all_exact(Ti):
                ctx.mon("exact.TTinv")
                if not _eq(_matmul(T, Ti), _eye(3)):
                    ctx.violation("T_SO3_quat/T_SO3_inv_quat", "exact arithmetic: tangent map times its stated inverse is not the identity", det)
            else:
                ctx.count("exact_mode_unavailable:T_SO3_quat")
            # true derivative by executing the real map on dual numbers
            w = _obj([_frac(rng, bits) for _ in range(3)])
            Pdot = _matmul(np.asarray(Ti, dtype=object), w.reshape(3, 1)).ravel()
            Pd = _obj([Dual(P[k], Pdot[k]) for k in range(4)])
            Ad = R.Exp_SO3_quat(Pd, normalize=True)
            Adot = np.empty((3, 3), dtype=object)
            Aval = np.empty((3, 3), dtype=object)
            ok = True
            for i in range(3):
                for j in range(3):
                    x = Ad[i, j]
                    if not isinstance(x, Dual) or not _is_exact(x.a) or not _is_exact(x.b):
                        ok = False
                    else:
                        Adot[i, j], Aval[i, j] = x.b, x.a
            if not ok or not _eq(Aval, A):
                ctx.count("exact_mode_unavailable:dual")
                return
            W = _matmul(A.T, Adot)
            ctx.mon("exact.spin")
            skew_ok = all(W[i, j] == -W[j, i] for i in range(3) for j in range(3))
            spin = [W[2, 1], W[0, 2], W[1, 0]]
            if not skew_ok or any(spin[i] != w[i] for i in range(3)):
                ctx.violation("T_SO3_inv_quat", "exact arithmetic: quaternion rate from the inverse tangent map does not reproduce the angular velocity as body spin",
                              {**det, "omega": [str(x) for x in w], "spin": [str(x) for x in spin]})
            J = R.Exp_SO3_quat_P(P.copy(), normalize=True)
            if _all_exact(J):
                ctx.mon("exact.derivative")
                JP = np.empty((3, 3), dtype=object)
                for i in range(3):
                    for j in range(3):
                        JP[i, j] = sum(J[i, j, k] * Pdot[k] for k in range(4))
                if not _eq(JP, Adot):
                    ctx.violation("Exp_SO3_quat_P", "exact arithmetic: stated partial derivative differs from the dual-number derivative of Exp_SO3_quat", det)
            else:
                ctx.count("exact_mode_unavailable:Exp_SO3_quat_P")


# ------------------------------------------------------------------ algebra helpers
def run_algebra(ctx, n):
    from cardillo.math import algebra as G
    rng = ctx.rng
    first = None
    for _ in range(n):
        a = rng.normal(size=3) * loguniform(rng, 1e-8, 1e8)
        b = rng.normal(size=3) * loguniform(rng, 1e-8, 1e8)
        if first is None:
            first = a.tolist()
        ctx.mon("algebra")
        S = G.ax2skew(a)
        ref = np.array([[0, -a[2], a[1]], [a[2], 0, -a[0]], [-a[1], a[0], 0]])
        na, nb = np.linalg.norm(a), np.linalg.norm(b)
        if not np.array_equal(S, ref):
            ctx.violation("ax2skew", "not the skew matrix of its argument", {"a": a})
        if np.abs(G.ax2skew_squared(a) - ref @ ref).max() > 8 * np.finfo(float).eps * na * na:
            ctx.violation("ax2skew_squared", "differs from ax2skew(a) @ ax2skew(a)", {"a": a})
        if np.abs(G.cross3(a, b) - np.cross(a, b)).max() > 8 * np.finfo(float).eps * na * nb:
            ctx.violation("cross3", "differs from the vector product", {"a": a, "b": b})
        if not np.array_equal(G.skew2ax(ref), a):
            ctx.violation("skew2ax", "does not invert ax2skew", {"a": a})
        if not np.array_equal(np.einsum("ijk,k->ij", G.ax2skew_a(), a), ref):
            ctx.violation("ax2skew_a", "is not the derivative of ax2skew", {"a": a})
        M = rng.normal(size=(3, 3))
        if np.abs(np.einsum("ijk,jk->i", G.skew2ax_A(), M) - G.skew2ax(M)).max() > 1e-15 * np.abs(M).max():
            ctx.violation("skew2ax_A", "is not the derivative of skew2ax", {"M": M})
        if abs(G.norm(a) - na) > 4 * np.finfo(float).eps * na:
            ctx.violation("norm", "differs from the Euclidean norm", {"a": a})
        i, j, k = (int(x) for x in rng.integers(0, 3, size=3))
        lc = int(np.linalg.det(np.eye(3)[[i, j, k]])) if len({i, j, k}) == 3 else 0
        if G.LeviCivita3(i, j, k) != lc:
            ctx.violation("LeviCivita3", "wrong permutation symbol", {"ijk": [i, j, k]})
    return first


def run_case(spec, ctx):
    env.import_cardillo()
    kind = spec["kind"]
    first = {"float": run_float, "exact": run_exact, "algebra": run_algebra}[kind](ctx, spec["batch"])
    ctx.cls(f"kind:{kind}")
    ctx.sig([kind, first], nontrivial=first is not None)
    ctx.sample({"kind": kind, "first_input": first, "batch": spec["batch"]})
