"""C15 Sparse COO assembly accumulates exactly (dense shadow monitor)."""

import numpy as np
from vlib import env

ID = "C15"
LEVEL = "exploration"
RULE = ("family 'system': the dense shadow (vlib/cooshadow.py) rides along on the assembly of random real systems (all system-level matrices at two states) - the write histories are the ones cardillo itself produces; otherwise each case is a seeded write history (0..40 writes) on one CooMatrix of random shape (0..12 per axis); values are "
        "0-d/1-d/2-d ndarrays (float and int), csr/csc/coo_array (with duplicates and explicit zeros), nested CooMatrix "
        "(possibly empty) and None; keys are int, list, ndarray, range, slices with steps, with repeated and overlapping "
        "indices; 30% of histories end with a deliberately inconsistent block shape that must be rejected at write time. "
        "After every accepted write one conversion (rotating toarray/tocoo/tocsr/tocsc/asformat) is compared with the dense "
        "shadow, after the last write all of them. distinct = hash of the write history; non-trivial = at least 2 accepted "
        "non-empty writes with overlapping cells")
ASSUMPTIONS = ["1-d values follow numpy.atleast_2d (row vector); out-of-range/negative indices are outside the stated input kinds and not generated",
               "equality up to summation-order rounding: (n+2)*eps*sum|entries| per cell with n summands",
               "the history stops at a rejected write (container state after a rejected write is unspecified)"]
REQUIRED_MONITORS = ["conversion.compare", "reject.expected", "write.accepted", "ambient.write", "ambient.conversion"]

META = {
    "level_text": "Exploration: random write histories on the real CooMatrix with a dense shadow (+=) as executable model; every supported conversion is compared with the shadow after every write; inconsistent block shapes must raise at write time. Held on the histories generated.",
    "level_note": "float64 data; index kinds as generated (no negative/out-of-range indices); shadow = numpy dense accumulation with np.add.at.",
    "technique": "shadow-state monitor (dense executable model) over random write histories",
}

CONVS = ["toarray", "tocoo", "tocsr", "tocsc", "asformat:coo", "asformat:csr", "asformat:csc", "asformat:array"]


def cases(tier, seed):
    n = {"quick": 1600, "thorough": 60000}[tier]
    m = {"quick": 40, "thorough": 1200}[tier]
    return [{"batch": 4} for _ in range(n // 4)] + [{"family": "system"} for _ in range(m)]


def _key(rng, n):
    """returns (key object, index array) for an axis of length n; may be empty"""
    kind = int(rng.integers(7))
    if n == 0:
        kind = [2, 3, 5][int(rng.integers(3))]
    if kind == 0:
        i = int(rng.integers(n))
        return (i if rng.random() < 0.5 else np.int64(i)), np.array([i])
    if kind == 1:  # list with possible repeats
        m = int(rng.integers(1, 6))
        idx = rng.integers(0, n, size=m)
        return [int(a) for a in idx], idx
    if kind == 2:  # ndarray (possibly empty)
        m = int(rng.integers(0, 6)) if n else 0
        idx = rng.integers(0, max(n, 1), size=m) if n else np.zeros(0, dtype=int)
        key = idx.astype([np.int64, np.int32, np.intp][int(rng.integers(3))])
        if m and rng.random() < 0.3:
            big = np.zeros(2 * m, dtype=key.dtype); big[::2] = key
            key = big[::2]                      # index array that is a strided view (a column of a DOF table)
            if rng.random() < 0.5:
                key.flags.writeable = False
        return key, idx
    if kind == 3:  # range
        a = int(rng.integers(0, n + 1)); b = int(rng.integers(a, n + 1))
        step = int(rng.integers(1, 4))
        r = range(a, b, step)
        return r, np.array(list(r), dtype=int)
    if kind == 4:  # sorted unique ndarray (typical DOF array)
        m = int(rng.integers(1, n + 1))
        idx = np.sort(rng.choice(n, size=m, replace=False))
        return idx, idx
    # slice with step / open ends
    a = None if rng.random() < 0.3 else int(rng.integers(0, n + 1))
    b = None if rng.random() < 0.3 else int(rng.integers(0, n + 1))
    step = [None, 1, 2, 3, -1, -2][int(rng.integers(6))]
    s = slice(a, b, step)
    return s, np.arange(*s.indices(n))


def _value(rng, shape, CooMatrix, wrong=False):
    """returns (value object, dense (r,c) contribution or None if it must be rejected, kind)"""
    from scipy.sparse import csr_array, csc_array, coo_array
    r, c = shape
    if wrong:
        while True:
            r2, c2 = r + int(rng.integers(-2, 3)), c + int(rng.integers(-2, 3))
            if (r2, c2) != (r, c) and r2 >= 0 and c2 >= 0 and not (r2 * c2 == 0 and r * c == 0 and False):
                break
        vshape = (r2, c2)
    else:
        vshape = (r, c)
    kinds = ["dense2d", "sparse_csr", "sparse_csc", "sparse_coo", "nested", "int2d"]
    if vshape[0] == 1:
        kinds.append("dense1d")
    if vshape == (1, 1):
        kinds.append("dense0d"); kinds.append("pyfloat")
    kind = kinds[int(rng.integers(len(kinds)))]
    A = rng.normal(size=vshape) * 10.0 ** rng.integers(-3, 4)
    if rng.random() < 0.15:
        A = A * 10.0 ** rng.uniform(-12, 12, size=vshape)      # entries of very different magnitude inside one block
    absA = cntA = None
    if rng.random() < 0.4:
        A[rng.random(size=vshape) < 0.5] = 0.0
    if kind == "dense2d":
        u_ = rng.random()
        if u_ < 0.5:
            v = A
        elif u_ < 0.65:
            v = np.asfortranarray(A)
        else:
            # other legitimate layouts of the same values: strided view, negative strides, transposed view, read-only
            from vlib.oracles import rep_variants
            alts = rep_variants(A) + [("transposed_view", np.ascontiguousarray(A.T).T)]
            v = alts[int(rng.integers(len(alts)))][1]
    elif kind == "int2d":
        A = np.round(A).astype(np.int64).astype(float)
        v = A.astype(np.int64)
    elif kind == "dense1d":
        v = A[0].copy()
    elif kind == "dense0d":
        v = np.array(A[0, 0])
    elif kind == "pyfloat":
        v = float(A[0, 0])
    elif kind.startswith("sparse"):
        if kind == "sparse_coo" and A.size and rng.random() < 0.5:
            # duplicates + explicit zeros
            m = int(rng.integers(1, 2 * A.size + 1))
            rr = rng.integers(0, vshape[0], size=m); cc = rng.integers(0, vshape[1], size=m)
            dd = rng.normal(size=m); dd[rng.random(size=m) < 0.2] = 0.0
            v = coo_array((dd, (rr, cc)), shape=vshape)
            A = np.zeros(vshape); np.add.at(A, (rr, cc), dd)
            absA = np.zeros(vshape); np.add.at(absA, (rr, cc), np.abs(dd))
            cntA = np.zeros(vshape); np.add.at(cntA, (rr, cc), 1.0)
        else:
            v = {"sparse_csr": csr_array, "sparse_csc": csc_array, "sparse_coo": coo_array}[kind](A)
    else:  # nested CooMatrix, possibly empty, built by its own writes
        v = CooMatrix(vshape)
        A = np.zeros(vshape); absA = np.zeros(vshape); cntA = np.zeros(vshape)
        if vshape[0] and vshape[1]:
            for _ in range(int(rng.integers(0, 3))):
                i = np.sort(rng.choice(vshape[0], size=int(rng.integers(1, vshape[0] + 1)), replace=False))
                j = np.sort(rng.choice(vshape[1], size=int(rng.integers(1, vshape[1] + 1)), replace=False))
                B = rng.normal(size=(len(i), len(j)))
                v[i, j] = B
                A[np.ix_(i, j)] += B
                absA[np.ix_(i, j)] += np.abs(B)
                cntA[np.ix_(i, j)] += 1
    if absA is None:
        absA, cntA = np.abs(A), np.ones(vshape)
    return v, (None if wrong else (A, absA, cntA)), kind


def _convert(coo, how):
    if how.startswith("asformat:"):
        out = coo.asformat(how.split(":")[1])
    else:
        out = getattr(coo, how)()
    fmt = getattr(out, "format", "array")
    return (out.toarray() if hasattr(out, "toarray") else np.asarray(out)), fmt


def run_system(spec, ctx):
    """the shadow rides along on the real assembly of a random system: the write histories are the ones cardillo itself
    produces (DOF index arrays of contributions that share coordinates, nested containers, scipy blocks, None)"""
    from vlib import cooshadow, gen
    from vlib.props import c14
    cooshadow.install()
    before = cooshadow.snapshot()
    rng = ctx.rng
    with gen.quiet():
        system, comp = c14._build_random_system(rng, ctx)
        try:
            system.assemble(options=gen.no_cic_options())
        except Exception as e:
            ctx.undecided(f"assemble: {type(e).__name__}")       # C14's subject
            ctx.sig(["system", comp], nontrivial=False)
            return
        for k in range(2):
            t = system.t0 + float(rng.normal())
            q, u, ud, _ = gen.random_system_state(rng, system, perturb=0.3)
            lam = {"la_g": rng.normal(size=system.nla_g), "la_c": rng.normal(size=system.nla_c), "la_N": rng.normal(size=system.nla_N), "la_F": rng.normal(size=system.nla_F)}
            try:
                c14._evaluate_all(system, t, q, u, ud, lam)
            except Exception as e:
                ctx.undecided(f"evaluation: {type(e).__name__}")
                break
    after = cooshadow.snapshot()
    d = {k: after[k] - before.get(k, 0) for k in after}
    ctx.mon("ambient.write", d["writes"])
    ctx.mon("ambient.conversion", d["conversions"])
    ctx.count("ambient_nested_writes", d["nested_writes"]); ctx.count("ambient_sparse_writes", d["sparse_writes"]); ctx.count("ambient_none_writes", d["none_writes"])
    ctx.count("ambient_untracked_containers", d["untracked"])
    for m in cooshadow.STATE["mismatch"]:
        ctx.violation("CooMatrix.tosparse", "conversion during the assembly of a real system differs from the dense sum of all written blocks", {**m, "composition": comp})
    for m in cooshadow.STATE["accepted_inconsistent"]:
        ctx.violation("CooMatrix.__setitem__", "write with inconsistent block shape was accepted during the assembly of a real system", {**m, "composition": comp})
    cooshadow.STATE["mismatch"].clear(); cooshadow.STATE["accepted_inconsistent"].clear()
    ctx.cls("family:system")
    ctx.sig(["system", comp, d["writes"]], nontrivial=d["writes"] >= 2 and d["conversions"] >= 1)
    ctx.sample({"family": "system", "composition": comp, **d})


def run_case(spec, ctx):
    env.import_cardillo()
    if spec.get("family") == "system":
        return run_system(spec, ctx)
    from cardillo.utility.coo_matrix import CooMatrix
    rng = ctx.rng
    sigs = []
    nontrivial = False
    for b in range(spec["batch"]):
        shape = (int(rng.integers(0, 13)), int(rng.integers(0, 13)))
        coo = CooMatrix(shape)
        shadow = np.zeros(shape)
        mass = np.zeros(shape)  # sum of |entries| per cell for the rounding bound
        cnt = np.zeros(shape)   # number of summands per cell
        nwrites = int(rng.integers(0, 41))
        ends_wrong = rng.random() < 0.3
        hist = []
        accepted_nonempty = 0
        overlap = False

        def check(how, step):
            ctx.mon("conversion.compare")
            try:
                got, fmt = _convert(coo, how)
            except Exception as e:
                ctx.violation(f"CooMatrix.{how}", "conversion raised", {"shape": shape, "error": repr(e)[:300], "history": hist[-6:]})
                return False
            ctx.cls(f"conv:{how}")
            want_fmt = how.split(":")[-1].replace("to", "")
            if want_fmt != "array" and fmt != want_fmt:
                ctx.violation(f"CooMatrix.{how}", "conversion returned another sparse format", {"format": fmt})
            tol = (cnt + 2) * np.finfo(float).eps * mass  # worst-case bound for summing cnt terms in any order
            if got.shape != shape or np.any(np.abs(got - shadow) > tol):
                d = np.abs(got - shadow) if got.shape == shape else None
                ctx.violation(f"CooMatrix.{how}", "conversion differs from the dense sum of all written blocks",
                              {"shape": shape, "after_write": step, "history": hist[-6:],
                               "max_abs_err": None if d is None else float(d.max()), "got_shape": list(got.shape)})
                return False
            return True

        ok = True
        for w in range(nwrites):
            rk, ri = _key(rng, shape[0])
            ck, ci = _key(rng, shape[1])
            wrong = ends_wrong and w == nwrites - 1
            if rng.random() < 0.08 and not wrong:
                v, A, kind = None, (np.zeros((len(ri), len(ci))),) * 3, "None"
            else:
                v, A, kind = _value(rng, (len(ri), len(ci)), CooMatrix, wrong=wrong)
            desc = {"rows": repr(rk)[:60], "cols": repr(ck)[:60], "kind": kind, "vshape": list(np.shape(A[0])) if A is not None else "inconsistent"}
            hist.append(desc)
            ctx.cls(f"value:{kind}")
            ctx.cls(f"key:{type(rk).__name__}")
            try:
                coo[rk, ck] = v
                raised = None
            except Exception as e:
                raised = e
            if wrong:
                ctx.mon("reject.expected")
                if raised is None:
                    ctx.violation("CooMatrix.__setitem__", "write with inconsistent block shape was accepted",
                                  {"shape": shape, "write": desc, "nrows": len(ri), "ncols": len(ci), "value_shape": list(np.shape(v)) if not hasattr(v, "shape") else list(v.shape)})
                    ok = False
                break
            if raised is not None:
                ctx.violation("CooMatrix.__setitem__", "consistent write raised", {"shape": shape, "write": desc, "error": repr(raised)[:300]})
                ok = False
                break
            ctx.mon("write.accepted")
            A, absA, cntA = A
            if A.size:
                if np.any(mass[np.ix_(ri, ci)] > 0) or len(set(ri.tolist())) < len(ri) or len(set(ci.tolist())) < len(ci):
                    overlap = True
                accepted_nonempty += 1
                np.add.at(shadow, (ri[:, None], ci[None, :]), A)
                np.add.at(mass, (ri[:, None], ci[None, :]), absA)
                np.add.at(cnt, (ri[:, None], ci[None, :]), cntA)
            if not check(CONVS[int(rng.integers(len(CONVS)))], w):
                ok = False
                break
        if ok:
            for how in CONVS:
                if not check(how, "end"):
                    break
        sigs.append([shape, hist])
        nontrivial |= accepted_nonempty >= 2 and overlap
    ctx.sig(sigs, nontrivial=nontrivial)
    ctx.sample({"shape": sigs[0][0], "writes": len(sigs[0][1]), "first_writes": sigs[0][1][:3]})
