"""C16 Consistent initial conditions solve the initial equations of motion."""

import numpy as np
from vlib import env, gen, forcegen
from vlib.oracles import dense, loguniform, quat_to_mat, random_unit

ID = "C16"
LEVEL = "exploration"
RULE = ("each case builds one real System and calls the real assemble() with consistent initial conditions: "
        "'rev' = frame/body - Revolute - body under gravity with Motor / PD / PID / Spring (both forms) / KelvinVoigt / Maxwell "
        "and a random joint-consistent initial velocity; 'chain' = frame - Spherical - body - Revolute/Cylindrical/... - body at rest with a "
        "compliance-form spring; 'contact' = one or two balls (RigidBody / PointMass) on a tilted plane, resting / sliding / "
        "rolling / opening, mu = 0 or > 0, optional stack with a sphere-sphere contact; 'multi' = 2-3 independent balls on one plane with mixed frictionless / frictional contacts added in a seeded order; actuators optionally together with a compliance-form element; 'reject' = the same systems with a "
        "deliberately inconsistent initial state (velocity violating the joint, penetrating or approaching contact). Decided on "
        "the values returned by assembly (u_dot0, la_g0, la_c0, la_N0, la_F0): equations of motion incl. actuator and "
        "compliance forces, g_ddot = 0, Signorini and Coulomb on acceleration level; inconsistent states must be rejected. "
        "distinct = scenario + parameters; non-trivial = nonzero forces")
ASSUMPTIONS = ["residual tolerance 1e-9*scale for smooth systems and 20*fixed_point_atol*scale for systems with closed contacts (the fixed-point loop stops on increments of the accelerations)",
               "Coulomb direction tests use isotropic friction; sliding = |gamma_F| > 1e-3",
               "rejection = any exception raised by assemble()",
               "an assemble() that raises because its fixed-point iteration for the contact forces did not converge returns nothing to judge: counted as undecided (the property speaks about returned values), never as held"]
REQUIRED_MONITORS = ["EOM", "g_ddot", "signorini", "coulomb", "reject"]
FORMAT_TWIN = True          # ambient monitor: every System matrix is also requested in the other documented formats (vlib/formattwin.py)
META = {
    "level_text": "Exploration: post-conditions on the real System.assemble(): the returned initial accelerations and forces are substituted into the equations of motion, the acceleration-level constraints and the Signorini/Coulomb conditions recomputed from the real System methods; deliberately inconsistent initial states must be rejected. Held on the systems generated.",
    "level_note": "tolerances tied to SolverOptions.fixed_point_atol for contact systems; isotropic friction for direction tests.",
    "technique": "runtime post-condition monitors on System.assemble with residual recomputation + ambient format-twin monitor (every System matrix also requested as coo/csr/csc/array)",
}
CASE_TIMEOUT = 180
KINDS = ["rev", "rev", "chain", "contact", "contact", "multi", "contact", "reject:velocity", "reject:penetration", "reject:approach"]
ACT = ["none", "Motor", "PD", "PID", "Spring:force", "Spring:compliance", "KelvinVoigt:compliance", "KelvinVoigt:force", "Maxwell"]
GRAV = np.array([0.0, 0.0, -9.81])


def cases(tier, seed):
    n = {"quick": 180, "thorough": 4500}[tier]
    return ([{"kind": KINDS[i % len(KINDS)], "variant": i // len(KINDS)} for i in range(n)]
            + [{"kind": "belt", "variant": i} for i in range({"quick": 12, "thorough": 200}[tier])])


def _run_belt(spec, ctx):
    """block on a belt (the contribution of examples/friction_belt): dry friction with a CONSTANT force reservoir R, no normal
    contact anywhere. Initial equations: m u_dot = -k q + la_F with la_F = -R sign(gamma_F) while sliding, and |la_F| <= R with
    u_dot = 0 (gamma_F_dot = 0) or maximal opposing force while sticking."""
    from cardillo import System
    from cardillo.solver import SolverOptions
    from vlib.props.c21 import _BlockOnBelt
    rng = ctx.rng
    blk = _BlockOnBelt(rng)
    mode = ["slip+", "slip-", "stick", "stick_breaks"][spec["variant"] % 4]
    if mode == "slip+":
        blk.u0 = np.array([blk.u_b + float(rng.uniform(0.2, 2))])
    elif mode == "slip-":
        blk.u0 = np.array([blk.u_b - float(rng.uniform(0.2, 2))])
    else:
        blk.u0 = np.array([blk.u_b])
        blk.q0 = np.array([(0.5 if mode == "stick" else 2.0) * blk.reservoir / blk.k * (1 if rng.random() < 0.5 else -1)])
    det = {"kind": "belt", "mode": mode, "mass": blk.mass, "k": blk.k, "reservoir": blk.reservoir, "q0": blk.q0, "u0": blk.u0, "belt_speed": blk.u_b}
    with gen.quiet():
        S = System(); S.add(blk)
        ctx.mon("assemble")
        try:
            S.assemble(options=SolverOptions())
        except Exception as e:
            ctx.violation("System.assemble", "a consistent state of a system with constant-reservoir friction is rejected", {**det, "error": f"{type(e).__name__}: {e}"[:300]})
            ctx.sig([det], nontrivial=True); return
    laF, ud = float(S.la_F0[0]), float(S.u_dot0[0])
    R, spring = blk.reservoir, -blk.k * float(blk.q0[0])
    ctx.mon("eom"); ctx.mon("coulomb"); ctx.cls(f"belt:{mode}")
    ex = {**det, "la_F0": laF, "u_dot0": ud}
    if abs(blk.mass * ud - spring - laF) > 1e-8 * (1 + abs(spring) + R):
        ctx.violation("consistent_initial_conditions/eom", "returned accelerations and friction force do not satisfy the equations of motion", ex)
    if mode.startswith("slip"):
        want = -R if mode == "slip+" else R
        if abs(laF - want) > 1e-6 * R:
            ctx.violation("consistent_initial_conditions/coulomb", "sliding contact: friction force is not -R gamma_F/|gamma_F| (constant force reservoir)", {**ex, "reference": want})
    elif mode == "stick":
        if abs(ud) > 1e-6 or abs(laF + spring) > 1e-6 * (1 + R) or abs(laF) > R * (1 + 1e-9):
            ctx.violation("consistent_initial_conditions/coulomb", "sticking contact within the force reservoir: friction force does not balance the applied force", ex)
    else:
        want = -np.sign(spring) * R
        if abs(laF - want) > 1e-6 * R:
            ctx.violation("consistent_initial_conditions/coulomb", "sticking contact that starts to slide: friction force is not maximal and opposing the slip acceleration", {**ex, "reference": want})
    ctx.sig([det], nontrivial=True)
    ctx.sample(det)


def _gravity(system, bodies):
    from cardillo.forces import Force
    for b in bodies:
        if getattr(b, "nq", 0):
            system.add(Force(b.mass * GRAV, b, name=f"grav_{b.name}"))


KF_SLOW = "consistent_initial_conditions/slow-sliding-friction"


def _residuals(ctx, S, det, contact):
    """recompute the initial equations from the returned values"""
    t, q, u = S.t0, S.q0, S.u0
    ud = S.u_dot0
    M = dense(S.M(t, q))
    h = S.h(t, q, u)
    R = M @ ud - h
    R -= dense(S.W_g(t, q)) @ S.la_g0
    if S.nla_gamma:
        R -= dense(S.W_gamma(t, q)) @ S.la_gamma0
    if S.nla_c:
        R -= dense(S.W_c(t, q)) @ S.la_c0
    if S.nla_tau:
        R -= dense(S.W_tau(t, q)) @ S.la_tau(t, q, u)
    if S.nla_N:
        R -= dense(S.W_N(t, q)) @ S.la_N0
    if S.nla_F:
        R -= dense(S.W_F(t, q)) @ S.la_F0
    scale = max(1.0, np.abs(M).max(), np.abs(h).max(), np.abs(ud).max() * np.abs(M).max())
    tol = (2e-5 if contact else 1e-9) * scale
    ex = {**det, "u_dot0": ud, "la_g0": S.la_g0, "la_c0": S.la_c0, "la_N0": S.la_N0, "la_F0": S.la_F0}
    ctx.mon("EOM")
    if not np.all(np.isfinite(R)) or np.abs(R).max() > tol:
        # which force is missing? (diagnostic only)
        ctx.violation("consistent_initial_conditions/EOM", "returned initial accelerations and forces do not satisfy the equations of motion",
                      {**ex, "residual": R, "tol": tol})
    if S.nla_c:
        c = S.c(t, q, u, S.la_c0)
        if np.abs(c).max() > 1e-9 * (1 + np.abs(S.la_c0).max()):
            ctx.violation("consistent_initial_conditions/la_c0", "returned compliance forces do not satisfy the compliance equations", {**ex, "c": c})
    ctx.mon("g_ddot")
    gdd = S.g_ddot(t, q, u, ud)
    if S.nla_g and np.abs(gdd).max() > (2e-5 if contact else 1e-8) * max(1.0, np.abs(ud).max(), np.abs(u).max() ** 2):
        ctx.violation("consistent_initial_conditions/g_ddot", "acceleration-level bilateral constraints violated by the returned accelerations", {**ex, "g_ddot": gdd})
    if S.nla_N:
        gN, gNd = S.g_N(t, q), S.g_N_dot(t, q, u)
        gNdd = S.g_N_ddot(t, q, u, ud)
        gamma = S.gamma_F(t, q, u) if S.nla_F else None
        gamma_dot = S.gamma_F_dot(t, q, u, ud) if S.nla_F else None
        atol = 2e-5 * scale
        for c in S.contributions:
            if not hasattr(c, "nla_N"):
                continue
            iN = c.la_NDOF[0]
            closed = abs(gN[iN]) <= 1e-8 and abs(gNd[iN]) <= 1e-8
            laN = S.la_N0[iN]
            ctx.mon("signorini")
            ctx.cls(f"contact:{'persistent' if closed else 'not_persistent'}")
            exc = {**ex, "contact": c.name, "g_N": gN[iN], "g_N_dot": gNd[iN], "g_N_ddot": gNdd[iN], "la_N": laN}
            if not closed:
                if abs(laN) > atol:
                    ctx.violation("consistent_initial_conditions/la_N0", "normal force on a contact that is not closed and persistent", exc)
            else:
                if laN < -atol or gNdd[iN] < -atol or abs(laN * gNdd[iN]) > atol * max(1.0, abs(laN), abs(gNdd[iN])):
                    ctx.violation("consistent_initial_conditions/signorini", "acceleration-level Signorini conditions violated (la_N >= 0, g_N_ddot >= 0, la_N g_N_ddot = 0)", exc)
            if hasattr(c, "nla_F"):
                iF = c.la_FDOF
                laF, gam, gamd = S.la_F0[iF], gamma[iF], gamma_dot[iF]
                mu = c.friction_laws[0][2].r
                ctx.mon("coulomb")
                excf = {**exc, "la_F": laF, "gamma_F": gam, "gamma_F_dot": gamd, "mu": mu}
                if not closed or laN <= atol:
                    if np.linalg.norm(laF) > atol + mu * max(laN, 0):
                        ctx.violation("consistent_initial_conditions/la_F0", "friction force without normal force", excf)
                    continue
                if np.linalg.norm(laF) > mu * laN * (1 + 1e-6) + atol:
                    ctx.violation("consistent_initial_conditions/coulomb", "friction force outside the Coulomb disk", excf)
                iso = not hasattr(c, "A") or np.allclose(np.diag(c.A), 1.0)
                if not iso:
                    continue
                if np.linalg.norm(gam) > 1e-3:
                    ctx.cls("friction:slip")
                    ref = -mu * laN * gam / np.linalg.norm(gam)
                    if np.linalg.norm(laF - ref) > atol + 1e-5 * mu * laN:
                        ctx.violation("consistent_initial_conditions/coulomb", "sliding contact: friction force is not -mu la_N gamma_F/|gamma_F|", {**excf, "reference": ref})
                elif np.linalg.norm(gam) > 1e-8:
                    # slow sliding (between assembly's stick tolerance 1e-8 and 1e-3): Coulomb's law knows no slow sliding, the
                    # force is the full -mu la_N gamma_F/|gamma_F| here as well
                    ctx.cls("friction:slow_slip")
                    ref = -mu * laN * gam / np.linalg.norm(gam)
                    if np.linalg.norm(laF - ref) > atol + 1e-3 * mu * laN:
                        ctx.violation("consistent_initial_conditions/coulomb", "slowly sliding contact: friction force is not -mu la_N gamma_F/|gamma_F|",
                                      {**excf, "reference": ref, "slip_speed": float(np.linalg.norm(gam))}, key=KF_SLOW)
                elif np.linalg.norm(gam) <= 1e-8:
                    if np.linalg.norm(gamd) > 1e-3 * max(1.0, np.abs(ud).max()):
                        ctx.cls("friction:stick->slip")
                        ref = -mu * laN * gamd / np.linalg.norm(gamd)
                        if np.linalg.norm(laF - ref) > 10 * atol + 1e-3 * mu * laN:
                            ctx.violation("consistent_initial_conditions/coulomb", "sticking contact that starts to slide: friction force is not maximal and opposing the slip acceleration", {**excf, "reference": ref})
                    else:
                        ctx.cls("friction:stick")


def _build_rev(rng, ctx, det, act, inconsistent=False):
    from cardillo import System
    from cardillo.solver import SolverOptions
    from cardillo.actuators import Motor, PDcontroller, PIDcontroller
    pair = [("fixed_frame", "rigid_body"), ("rigid_body", "rigid_body"), ("rigid_body", "fixed_frame")][int(rng.integers(3))]
    t0 = float(rng.normal()) if rng.random() < 0.4 else 0.0
    system = System(t0=t0)
    subs, mots, joint, info = forcegen.build_revolute(rng, pair)
    det.update(info); det["actuator"] = act; det["t0"] = t0
    system.add(*subs); system.add(joint)
    _gravity(system, subs)
    a, w = rng.normal(), rng.uniform(0.5, 2)
    if act == "Motor":
        system.add(Motor(joint, float(rng.normal() * 3)))
    elif act == "PD":
        system.add(PDcontroller(joint, 3.0, 0.5, lambda t: np.array([a * np.sin(w * t), a * w * np.cos(w * t)])))
    elif act == "PID":
        system.add(PIDcontroller(joint, 3.0, 0.7, 0.5, lambda t: np.array([a * np.sin(w * t), a * w * np.cos(w * t)])))
    elif act != "none":
        e, linfo = forcegen.make_law(rng, act, joint)
        det.update(linfo)
        system.add(e)
    if act in ("Motor", "PD", "PID") and rng.random() < 0.5:
        # actuator AND a compliance-form element in the same system (both enter the initial equations of motion)
        law2 = ["Spring:compliance", "KelvinVoigt:compliance"][int(rng.integers(2))]
        e2, linfo2 = forcegen.make_law(rng, law2, joint)
        e2.name = "extra_compliance"
        system.add(e2)
        det["extra_compliance"] = law2
        ctx.cls("rev:actuator+compliance")
    system.assemble(options=gen.no_cic_options())
    model = forcegen.RevoluteModel(system, joint, subs, mots)
    ind = 0 if getattr(subs[1], "nq", 0) else 1
    si = subs[ind]
    q_ind = si.q0 if getattr(si, "nq", 0) else None
    u_ind = rng.normal(size=6) if getattr(si, "nq", 0) else None
    q, u = model.manifold_state(rng, t0, 0.0, float(rng.normal() * 2), q_ind=q_ind, u_ind=u_ind)
    if inconsistent:
        dep = subs[1 - ind] if getattr(subs[1 - ind], "nq", 0) else si
        u[dep.my_uDOF] += rng.normal(size=6) * 0.5
    for s in subs:
        if getattr(s, "nu", 0):
            s.u0 = u[s.my_uDOF].copy()
    return system


def _build_chain(rng, ctx, det):
    from cardillo import System
    from cardillo.interactions import TwoPointInteraction
    system = System()
    f, _, _, _ = gen.make_subsystem(rng, "fixed_frame", "base")
    b1, _, _, _ = gen.make_subsystem(rng, "rigid_body", "b1")
    b2, _, _, _ = gen.make_subsystem(rng, "rigid_body", "b2")
    for b in (b1, b2):
        b.u0 = np.zeros(6)
    k1 = ["Spherical", "Revolute"][int(rng.integers(2))]
    k2 = ["Revolute", "Cylindrical", "Prismatic", "Planarizer", "Spherical", "FixedDistance", "RigidConnection"][int(rng.integers(7))]
    j1, _ = gen.make_joint(rng, k1, f, b1, placement="given"); j1.name = "j1"
    j2, _ = gen.make_joint(rng, k2, b1, b2, placement="given"); j2.name = "j2"
    system.add(f, b1, b2, j1, j2)
    _gravity(system, [b1, b2])
    law = ["Spring:compliance", "KelvinVoigt:compliance", "Spring:force"][int(rng.integers(3))]
    tpi = TwoPointInteraction(f, b2, B_r_CP2=rng.normal(size=3))
    e, linfo = forcegen.make_law(rng, law, tpi)
    system.add(e)
    det.update({"joints": [k1, k2], **linfo})
    return system


def _build_contact(rng, ctx, det, bad=None):
    from cardillo import System
    from cardillo.discrete import Frame, RigidBody, PointMass
    from cardillo.contacts import Sphere2Plane, Sphere2Sphere
    from cardillo.forces import Force
    system = System()
    tilt = float(rng.uniform(0, 0.6)) if rng.random() < 0.7 else 0.0
    ax = random_unit(rng); ax[2] = 0; ax = ax / (np.linalg.norm(ax) + 1e-300)
    from vlib.oracles import rodrigues
    A = rodrigues(ax * tilt) @ rodrigues(np.array([0, 0, 1.0]) * rng.uniform(0, 6))
    aligned = bad is None and rng.random() < 0.2
    if aligned:
        # horizontal plane whose tangent directions are the coordinate axes: slip velocities along one of them have an EXACTLY
        # zero component
        A, tilt = np.eye(3), 0.0
    n = A[:, 2]
    r0 = rng.normal(size=3)
    plane = Frame(r_OP=r0, A_IB=A, name="plane")
    mu = 0.0 if rng.random() < 0.3 else float(rng.uniform(0.05, 1.0))
    scen = ["rest", "slide", "roll", "open", "spin"][int(rng.integers(5))] if bad is None else "rest"
    carrier = "rigid_body" if rng.random() < 0.7 else "point_mass"
    R = float(rng.uniform(0.1, 1.0))
    t1, t2 = A[:, 0], A[:, 1]
    pos = r0 + rng.normal() * t1 + rng.normal() * t2 + R * n
    vt = (rng.normal() * t1 + rng.normal() * t2) * 2
    if aligned:
        vt = (t1 if rng.random() < 0.5 else t2) * float(rng.normal() * 2 + 0.1)
        ctx.cls("contact:slip_along_a_tangent_axis")
    elif bad is None and scen == "slide" and rng.random() < 0.35:
        vt = vt / np.linalg.norm(vt) * float(loguniform(rng, 3e-8, 1e-3))      # creeping contact
        det["slow_slide_speed"] = float(np.linalg.norm(vt))
    if bad == "penetration":
        pos = pos - n * float(rng.uniform(1e-3, 0.3))
    if carrier == "rigid_body":
        from vlib.oracles import quat_to_mat
        P = rng.normal(size=4); P /= np.linalg.norm(P)
        m = float(loguniform(rng, 0.1, 10))
        Theta = 0.4 * m * R * R * np.eye(3) if rng.random() < 0.6 else gen.random_spd(rng, 3, 0.01, 1.0)
        u0 = np.zeros(6)
        Ab = quat_to_mat(P)
        if scen == "slide":
            u0[:3] = vt
        elif scen == "roll":   # v_contact = v_C + Omega x (-R n) = 0
            Om = np.cross(n, vt) / R
            u0[:3] = vt; u0[3:] = Ab.T @ Om
        elif scen == "open":
            u0[:3] = vt + n * float(rng.uniform(0.1, 2))
        elif scen == "spin":
            u0[3:] = Ab.T @ (n * float(rng.normal() * 3) + np.cross(n, vt))
        if bad == "approach":
            u0[:3] = vt - n * float(rng.uniform(1e-3, 2))
        ball = RigidBody(m, Theta, q0=np.concatenate([pos, P]), u0=u0, name="ball")
    else:
        m = float(loguniform(rng, 0.1, 10))
        u0 = np.zeros(3)
        if scen in ("slide", "roll", "spin"):
            u0 = vt
        elif scen == "open":
            u0 = vt + n * float(rng.uniform(0.1, 2))
        if bad == "approach":
            u0 = vt - n * float(rng.uniform(1e-3, 2))
        ball = PointMass(m, q0=pos, u0=u0, name="ball")
    aniso = np.ones(2) if rng.random() < 0.8 else rng.uniform(0.5, 2, size=2)
    c = Sphere2Plane(plane, ball, mu, r=R, e_N=0.0, e_F=0.0, anisotropy=aniso, name="s2p")
    system.add(plane, ball, c)
    system.add(Force(m * GRAV, ball, name="grav"))
    if rng.random() < 0.4 or aligned:
        system.add(Force(rng.normal(size=3) * m * 3, ball, name="push"))
    det.update({"scenario": scen, "mu": mu, "carrier": carrier, "tilt": tilt, "radius": R, "anisotropy": aniso})
    if bad is None and rng.random() < 0.3:
        # a second ball resting on the first one (sphere-sphere contact), exactly touching along the plane normal
        R2 = float(rng.uniform(0.1, 0.6))
        m2 = float(loguniform(rng, 0.1, 5))
        b2 = PointMass(m2, q0=pos + n * (R + R2), u0=(u0[:3] if scen != "roll" else np.zeros(3)) * float(scen in ("rest",)), name="ball2")
        if scen == "rest":
            mu2 = 0.0 if rng.random() < 0.4 else float(rng.uniform(0.05, 1.0))
            system.add(b2, Sphere2Sphere(ball, b2, R, R2, mu2, e_N=0.0, e_F=0.0, name="s2s"), Force(m2 * GRAV, b2, name="grav2"))
            det["stack"] = {"R2": R2, "mu2": mu2}
    return system


def _build_multi(rng, ctx, det, integer=False):
    """2-3 independent balls on one plane; each contact has its own friction coefficient (0 or > 0), mass and scenario
    (rest / slide), and the contacts are added in a seeded order - the bookkeeping between active normal contacts and their
    friction laws must not mix them up"""
    from cardillo import System
    from cardillo.discrete import Frame, RigidBody, PointMass
    from cardillo.contacts import Sphere2Plane
    from cardillo.forces import Force
    from vlib.oracles import rodrigues
    system = System()
    tilt = float(rng.uniform(0, 0.3)) if rng.random() < 0.5 and not integer else 0.0
    ax = random_unit(rng); ax[2] = 0; ax = ax / (np.linalg.norm(ax) + 1e-300)
    A = rodrigues(ax * tilt) @ rodrigues(np.array([0, 0, 1.0]) * rng.uniform(0, 6)) if not integer else np.eye(3)
    n, t1, t2 = A[:, 2], A[:, 0], A[:, 1]
    r0 = rng.normal(size=3) if not integer else np.zeros(3)
    plane = Frame(r_OP=r0, A_IB=A, name="plane")
    system.add(plane)
    nb = int(rng.integers(2, 4))
    mus = [0.0 if rng.random() < 0.5 else float(rng.uniform(0.1, 1.0)) for _ in range(nb)]
    if all(m > 0 for m in mus) or all(m == 0 for m in mus):
        mus[0], mus[-1] = 0.0, float(rng.uniform(0.1, 1.0))          # always a mixture
    items = []
    for i in range(nb):
        R = float(rng.uniform(0.1, 0.4))
        m = float(loguniform(rng, 0.1, 10))
        pos = r0 + (3.0 * i + rng.normal() * 0.2) * t1 + rng.normal() * t2 + R * n
        scen = ["rest", "slide"][int(rng.integers(2))]
        vt = (rng.normal() * t1 + rng.normal() * t2) * 2 if scen == "slide" else np.zeros(3)
        if integer:
            # every coordinate of the system is a whole number handed over as Python ints (System.q0 then has an integer dtype)
            R = int(rng.integers(1, 3))
            ball = PointMass(m, q0=[int(4 * i + rng.integers(0, 2)), int(rng.integers(-3, 4)), R], u0=vt, name=f"ball{i}")
        elif rng.random() < 0.5:
            P = rng.normal(size=4); P /= np.linalg.norm(P)
            ball = RigidBody(m, 0.4 * m * R * R * np.eye(3), q0=np.concatenate([pos, P]), u0=np.concatenate([vt, np.zeros(3)]), name=f"ball{i}")
        else:
            ball = PointMass(m, q0=pos, u0=vt, name=f"ball{i}")
        con = Sphere2Plane(plane, ball, mus[i], r=R, e_N=0.0, e_F=0.0, name=f"s2p{i}")
        items.append((ball, con, Force(m * GRAV, ball, name=f"grav{i}"), {"mu": mus[i], "m": m, "scenario": scen}))
    for ball, _, grav, _ in items:
        system.add(ball, grav)
    if not integer and rng.random() < 0.5:
        # a rider: a second body carried by one of the (rigid) balls through a joint - its weight reaches the ground only
        # through the joint AND the contact, so the returned joint forces depend on the contact forces
        from cardillo.constraints import RigidConnection, Revolute, Spherical
        rb = [it for it in items if it[0].__class__.__name__ == "RigidBody"]
        if rb:
            ball, _, _, inf = rb[int(rng.integers(len(rb)))]
            m2 = float(inf["m"] * rng.uniform(0.2, 1.5))
            pos2 = ball.q0[:3] + float(rng.uniform(0.5, 1.0)) * n + 0.1 * rng.normal() * t1
            P2 = rng.normal(size=4); P2 /= np.linalg.norm(P2)
            rider = RigidBody(m2, 0.1 * m2 * np.diag(rng.uniform(0.5, 1.5, size=3)), q0=np.concatenate([pos2, P2]),
                              u0=np.concatenate([ball.u0[:3], np.zeros(3)]), name="rider")
            jk = ["RigidConnection", "Revolute", "Spherical"][int(rng.integers(3))]
            if jk == "RigidConnection":
                joint = RigidConnection(ball, rider, name="rider_joint")
            elif jk == "Revolute":
                joint = Revolute(ball, rider, int(rng.integers(3)), r_OJ0=0.5 * (ball.q0[:3] + pos2), name="rider_joint")
            else:
                joint = Spherical(ball, rider, r_OJ0=0.5 * (ball.q0[:3] + pos2), name="rider_joint")
            system.add(rider, Force(m2 * GRAV, rider, name="grav_rider"), joint)
            det["rider"] = {"joint": jk, "m": m2, "on": ball.name}
            ctx.cls(f"multi:rider:{jk}")
    order = rng.permutation(nb)
    for i in order:
        system.add(items[int(i)][1])
    det.update({"balls": [it[3] for it in items], "contact_order": [int(i) for i in order], "tilt": tilt})
    ctx.cls("multi:frictionless_before_frictional" if any(mus[int(order[a])] == 0 and mus[int(order[b])] > 0 for a in range(nb) for b in range(a + 1, nb)) else "multi:other_order")
    return system


def run_case(spec, ctx):
    env.import_cardillo()
    from cardillo.solver import SolverOptions
    rng = ctx.rng
    if spec["kind"] == "belt":
        return _run_belt(spec, ctx)
    kind, _, sub = spec["kind"].partition(":")
    det = {"kind": spec["kind"]}
    with gen.quiet():
        try:
            if kind == "rev":
                system = _build_rev(rng, ctx, det, ACT[spec["variant"] % len(ACT)])
            elif kind == "chain":
                system = _build_chain(rng, ctx, det)
            elif kind == "contact":
                system = _build_contact(rng, ctx, det)
            elif kind == "multi":
                system = _build_multi(rng, ctx, det, integer=(spec["variant"] % 3 == 2))
                if spec["variant"] % 3 == 2:
                    ctx.cls("multi:integer_coordinates")
            elif sub == "velocity":
                system = _build_rev(rng, ctx, det, "none", inconsistent=True)
            else:
                system = _build_contact(rng, ctx, det, bad=sub)
        except Exception as e:
            ctx.violation("setup", "building the system raised before consistent initial conditions were requested", {**det, "error": f"{type(e).__name__}: {e}"[:300]})
            ctx.sig([det], nontrivial=True)
            return
        ctx.cls(f"kind:{spec['kind']}")
        err = None
        try:
            system.assemble(options=SolverOptions())
        except Exception as e:
            err = e
        if kind == "reject":
            ctx.mon("reject")
            if err is None:
                ctx.violation("consistent_initial_conditions/reject", "inconsistent initial state accepted", {**det, "g_dot0": system.g_dot(system.t0, system.q0, system.u0),
                              "g_N0": system.g_N(system.t0, system.q0), "g_N_dot0": system.g_N_dot(system.t0, system.q0, system.u0)})
            ctx.sig([det], nontrivial=True)
            ctx.sample(det)
            return
        if err is not None and isinstance(err, AssertionError) and "does not converge after" in str(err):
            # the fixed-point iteration for the contact forces gave up and said so: nothing was returned, so the property (which
            # speaks about the returned accelerations and forces) has nothing to judge; counted, and too many of these make the
            # whole check inconclusive (found by the thorough tier: 3 of 4500 scenes, sliding rigid body, mu ~ 0.5, tilted plane)
            ctx.count("assemble_fixed_point_not_converged")
            ctx.cls("assemble:fixed_point_not_converged(loud)")
            ctx.undecided("consistent initial conditions: fixed-point iteration did not converge (AssertionError raised)")
            ctx.sig([det], nontrivial=False)
            ctx.sample(det)
            return
        if err is not None:
            ctx.mon("EOM")
            ctx.violation("System.assemble", "consistent initial state rejected or assembly failed", {**det, "error": f"{type(err).__name__}: {err}"[:300]})
            ctx.sig([det], nontrivial=True)
            ctx.sample(det)
            return
        _residuals(ctx, system, det, contact=system.nla_N > 0)
    ctx.sig([det], nontrivial=bool(np.any(system.u_dot0)) or bool(np.any(system.la_g0)))
    ctx.sample(det)


def finalize(agg):
    reasons = []
    for k in ("rev:actuator+compliance", "multi:frictionless_before_frictional", "friction:slip"):
        if agg["classes"].get(k, 0) == 0:
            reasons.append(f"input class {k} never reached")
    return reasons
