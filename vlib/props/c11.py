"""C11 Rod discretization derivatives and nodal interpolation are consistent.

Every generated rod lives inside a real ``cardillo.System`` (optionally behind a
point mass / rigid body so that its global DOF ranges do not start at 0). For two
states per rod (unit and non-unit nodal quaternions) the reported derivatives are
compared with Richardson finite differences of the *maps* they claim to
differentiate (system level: h_q, h_u, c_q, c_la_c, Wla_c_q, g_q, Wla_g_q, q_dot_q,
q_dot_u, g_S_q; rod level: r_OP_q, A_IB_q, v_P_q, J_P, J_P_q, a_P_q, a_P_u, B_J_R ...),
the interpolation is evaluated at the nodal parameters, the interpolated
orientations are tested for orthonormality and the mass matrix / kinetic energy /
gyroscopic forces for their algebraic relations.
"""

import warnings

import numpy as np

from vlib import env
from vlib import rodgen
from vlib.oracles import dense, compare, quat_to_mat, loguniform, fd_jac

ID = "C11"
LEVEL = "exploration"
RULE = ("one case = one generated rod (interpolation Quaternion p=1..3 / SE3 / R12 p=1..3 x displacement|mixed x "
        "constraint set x 1..4 elements x straight/arc/helix/Frenet reference x reduced/full integration x material) "
        "inside an assembled System, evaluated at two random deformed states (unit and non-unit nodal quaternions, "
        "random velocities, random multipliers) and at 4-5 cross-section parameters xi (0, 1, a node, an element "
        "boundary, interior) with zero and non-zero body-fixed offsets; distinct = distinct (spec, state) hash; "
        "non-trivial = deformed state with non-zero velocities and at least 10 decided derivative comparisons")
ASSUMPTIONS = [
    "derivative oracle: Richardson central differences (steps 1e-4, 5e-5, 2.5e-5 times a per-coordinate scale: node spacing, "
    "quaternion norm); violation iff |claimed - FD| > 1e-6*max|FD| + 20*(Richardson uncertainty) entrywise",
    "system-level Jacobians of rods with more than 16 coordinates are compared on 16 (Wla_c_q, Wla_g_q: 8) randomly sampled columns (all rows)",
    "nodal interpolation / orthonormality / mass identities: relative tolerances 1e-7 / 1e-9 / 1e-10",
    "states: nodal rotation perturbations <= 0.5 rad on top of the reference, quaternion norms 1e-3..1e3, "
    "relative nodal rotations stay below pi (Log_SO3 branch cut is the subject of C02/C03)",
    "a sub-comparison whose finite-difference uncertainty exceeds 1e-3 of the derivative's size is counted as noisy "
    "(counter noisy_subchecks) and does not count as a monitor evaluation",
]
REQUIRED_MONITORS = [
    "D:System.h_q", "D:System.h_u", "D:System.c_q", "D:System.c_la_c", "D:System.Wla_c_q", "D:System.g_q",
    "D:System.Wla_g_q", "D:System.q_dot_q", "D:System.q_dot_u", "D:System.g_S_q",
    "D:rod.r_OP_q", "D:rod.A_IB_q", "D:rod.v_P_q", "D:rod.J_P", "D:rod.J_P_q", "D:rod.a_P_q", "D:rod.a_P_u",
    "D:rod.B_J_R", "nodal.r_OP", "nodal.A_IB", "nodal.v_P", "rotation.orthonormal",
    "mass.symmetric_psd", "mass.E_kin", "gyro.power_free",
]
CASE_TIMEOUT = 180
WALL_BUDGET = {"quick": 600, "thorough": 3000}

KEY_HU = "CosseratRodConstrained.h_u/h-missing-when-all-strains-constrained"
# fixed in /repo while this check was written (kept as documentation, never passed as key=):
#   "CosseratRod_PetrovGalerkin.q_dot_u/normalised-quaternion"  (fix: q_dot_u no longer normalises the nodal quaternions)
#   "CosseratRod_SE3._deval/T_SO3_psi-small-angle"      (fix: T_SO3 / T_SO3_psi series for small rotation vectors)
#   "CosseratRod_SE3._deval/T_SO3_inv_psi-small-angle"  (fix: T_SO3_inv / T_SO3_inv_psi series)
# The nearly-straight SE3 strata (directed_se3 cases, 'unit/nearly-straight' states) must now stay silent; a
# regression there is reported as an ordinary VIOLATION whose detail carries the diagnosis of diagnose_se3().

NCOL = 16


# ----------------------------------------------------------------------------
# cases
# ----------------------------------------------------------------------------
def _directed():
    base = {"nel": 2, "ref": "straight", "reduced": True, "material": "Simo1986", "prefix": None,
            "assemble": "plain", "inertia": "full"}
    out = []
    # (a) q_dot_u at non-unit quaternions, one per interpolation (defect fixed in /repo; silent regression stratum)
    for interp, p in (("Quaternion", 2), ("SE3", 1), ("R12", 1)):
        out.append({"kind": "directed_qdotu", "interp": interp, "p": p, "mixed": False, "constraints": None,
                    **base, "prefix": "point"})
    # (b) all strains constrained: h_u without h
    for interp, p, mixed in (("Quaternion", 2, True), ("SE3", 1, False)):
        out.append({"kind": "directed_hu", "interp": interp, "p": p, "mixed": mixed,
                    "constraints": [0, 1, 2, 3, 4, 5], **base})
    # (c) nearly straight SE3 elements
    #     (both defects that lived here are fixed in /repo; the strata stay as silent regression monitors)
    #     relative rotations 1e-8..1e-5: T_SO3_psi;  below 1e-10: T_SO3_inv_psi
    out.append({"kind": "directed_se3", "interp": "SE3", "p": 1, "mixed": False, "constraints": None, **base,
                "tiny": [1e-5, 1e-6, 1e-7, 1e-8]})
    #     (the second one hits with probability ~1/3 per state: 1 - (x/2)cot(x/2) is 0 or 1 ulp)
    tinies = [float(a * 10.0 ** (-e)) for e in (13, 14, 15) for a in (1.0, 2.1, 3.3, 4.7, 6.1, 8.3)]
    for mixed, cs in ((False, None), (True, None), (False, [1, 2])):
        out.append({"kind": "directed_se3", "interp": "SE3", "p": 1, "mixed": mixed, "constraints": cs, **base,
                    "tiny": tinies})
    return out


def _nodal_many(tier, seed):
    """rods with many elements (element boundaries k/nel that are not exactly representable), always two rods of the same
    polynomial degree but different element counts whose nodes are queried alternately"""
    rng = np.random.default_rng([int(seed) & 0xFFFFFFFF, 0xC11A])
    out = []
    for rep in range({"quick": 2, "thorough": 30}[tier]):
        for interp, p in (("Quaternion", 1), ("Quaternion", 2), ("SE3", 1), ("R12", 1), ("R12", 2)):
            nels = rng.choice([5, 6, 7, 9, 10, 11, 12, 14], size=2, replace=False)
            out.append({"kind": "nodal_many", "interp": interp, "p": p, "mixed": bool(rng.random() < 0.3), "constraints": None,
                        "nel": int(nels[0]), "nel2": int(nels[1]), "ref": "straight", "reduced": True, "material": "Simo1986",
                        "prefix": None, "assemble": "plain", "inertia": "full"})
    return out


def cases(tier, seed):
    n = {"quick": 90, "thorough": 2000}[tier]
    specs = rodgen.make_specs(n, seed, salt=11, full_fraction=0.15)
    out = _directed() + _nodal_many(tier, seed)
    for s in specs:
        s["kind"] = "sweep"
        out.append(s)
    return out


# ----------------------------------------------------------------------------
# independent reference formulas
# ----------------------------------------------------------------------------
def T_inv_quat_ref(P):
    """P_dot = T(P) B_omega for the (non-unit) quaternion P: P_dot = 1/2 P o (0, omega)"""
    p0, p1, p2, p3 = P
    return 0.5 * np.array([[-p1, -p2, -p3],
                           [p0, -p3, p2],
                           [p3, p0, -p1],
                           [-p2, p1, p0]])


def _eps3():
    e = np.zeros((3, 3, 3))
    e[0, 1, 2] = e[1, 2, 0] = e[2, 0, 1] = 1.0
    e[0, 2, 1] = e[2, 1, 0] = e[1, 0, 2] = -1.0
    return e


EPS3 = _eps3()


def _skew(a):
    return np.array([[0, -a[2], a[1]], [a[2], 0, -a[0]], [-a[1], a[0], 0.0]])


def T_SO3_coeffs(x):
    """beta2 = (1-cos x)/x^2, c = (x - sin x)/x^3 and (d/dx)/x of both, series below x = 0.1"""
    if x < 0.1:
        x2 = x * x
        b2 = 0.5 - x2 / 24 + x2**2 / 720 - x2**3 / 40320 + x2**4 / 3628800
        c = 1 / 6 - x2 / 120 + x2**2 / 5040 - x2**3 / 362880 + x2**4 / 39916800
        b2p = -1 / 12 + x2 / 180 - x2**2 / 6720 + x2**3 / 453600 - x2**4 / 47900160    # beta2'(x)/x
        cp = -1 / 60 + x2 / 1260 - x2**2 / 60480 + x2**3 / 4989600 - x2**4 / 622702080  # c'(x)/x
    else:
        s, co = np.sin(x), np.cos(x)
        b2 = (1 - co) / x**2
        c = (x - s) / x**3
        b2p = (x * s - 2 * (1 - co)) / x**4
        cp = (3 * s - 2 * x - x * co) / x**5
    return b2, c, b2p, cp


def T_SO3_ref(psi):
    x = float(np.linalg.norm(psi))
    b2, c, _, _ = T_SO3_coeffs(x)
    K = _skew(psi)
    return np.eye(3) - b2 * K + c * K @ K


def T_SO3_psi_ref(psi):
    """accurate derivative of T(psi) = I - beta2 psi~ + c psi~^2 (same convention as cardillo.math.T_SO3)"""
    psi = np.asarray(psi, dtype=float)
    x = float(np.linalg.norm(psi))
    b2, c, b2p, cp = T_SO3_coeffs(x)
    K = _skew(psi)
    K2 = K @ K
    I = np.eye(3)
    out = b2 * EPS3.copy()                                    # d(-beta2 psi~_ij)/dpsi_k, psi~_ij = -eps_ijk psi_k
    out += -b2p * K[:, :, None] * psi[None, None, :]
    out += cp * K2[:, :, None] * psi[None, None, :]
    dK2 = (I[:, None, :] * psi[None, :, None] + psi[:, None, None] * I[None, :, :]
           - 2 * I[:, :, None] * psi[None, None, :])          # d(psi psi^T - x^2 I)_ij / dpsi_k
    out += c * dK2
    return out


def T_SO3_inv_coeffs(x):
    """c = (1 - (x/2) cot(x/2))/x^2 and c'(x)/x, series below x = 0.1"""
    if x < 0.1:
        x2 = x * x
        c = 1 / 12 + x2 / 720 + x2**2 / 30240 + x2**3 / 1209600 + x2**4 / 47900160
        cp = 1 / 360 + x2 / 7560 + x2**2 / 201600 + x2**3 / 5987520
    else:
        g = 0.5 * x / np.tan(0.5 * x)
        gp = 0.5 / np.tan(0.5 * x) - 0.25 * x / np.sin(0.5 * x) ** 2
        c = (1 - g) / x**2
        cp = (-gp / x**2 - 2 * (1 - g) / x**3) / x
    return c, cp


def T_SO3_inv_ref(psi):
    x = float(np.linalg.norm(psi))
    c, _ = T_SO3_inv_coeffs(x)
    K = _skew(psi)
    return np.eye(3) + 0.5 * K + c * K @ K


def T_SO3_inv_psi_ref(psi):
    """accurate derivative of T^-1(psi) = I + psi~/2 + c psi~^2 (convention of cardillo.math.T_SO3_inv)"""
    psi = np.asarray(psi, dtype=float)
    x = float(np.linalg.norm(psi))
    c, cp = T_SO3_inv_coeffs(x)
    K = _skew(psi)
    K2 = K @ K
    I = np.eye(3)
    out = -0.5 * EPS3.copy()
    out += cp * K2[:, :, None] * psi[None, None, :]
    dK2 = (I[:, None, :] * psi[None, :, None] + psi[:, None, None] * I[None, :, :]
           - 2 * I[:, :, None] * psi[None, None, :])
    out += c * dK2
    return out


_SELF_CHECKED = False


def _self_check():
    """the reference model must be right before it is allowed to classify anything"""
    global _SELF_CHECKED
    if _SELF_CHECKED:
        return
    rng = np.random.default_rng(5)
    for x in (1e-9, 1e-3, 0.09, 0.11, 1.3):
        psi = rng.normal(size=3)
        psi *= x / np.linalg.norm(psi)
        D, err = fd_jac(T_SO3_ref, psi, hrel=1e-4)
        if np.max(np.abs(D - T_SO3_psi_ref(psi))) > 1e-8 + 20 * np.max(err):
            raise RuntimeError("C11 reference model T_SO3_psi_ref fails its self-check at |psi|=%g" % x)
        D, err = fd_jac(T_SO3_inv_ref, psi, hrel=1e-4)
        if np.max(np.abs(D - T_SO3_inv_psi_ref(psi))) > 1e-8 + 20 * np.max(err):
            raise RuntimeError("C11 reference model T_SO3_inv_psi_ref fails its self-check at |psi|=%g" % x)
        if np.max(np.abs(T_SO3_inv_ref(psi) @ T_SO3_ref(psi) - np.eye(3))) > 1e-12:
            raise RuntimeError("C11 reference models T_SO3_ref / T_SO3_inv_ref are not inverse at |psi|=%g" % x)
    _SELF_CHECKED = True


# ----------------------------------------------------------------------------
# D-oracle plumbing
# ----------------------------------------------------------------------------
class Tally:
    def __init__(self):
        self.decided = 0
        self.noisy = 0


def dcheck(ctx, tally, site, claim, f, x, scale, cols=None, classify=None, diagnose=None, extra=None, floor=1e-6):
    """compare claim() (all columns, unscaled) with the finite-difference derivative of f at x.
    classify(Js, D, err, cols, m, claim, scale) -> key or None is asked only for mismatches."""
    D, err, cols = rodgen.fd_scaled(f, x, scale, cols)
    J = dense(claim())
    if J.shape[:-1] != D.shape[:-1] or J.shape[-1] != np.asarray(x).size:
        ctx.mon("D:" + site)
        ctx.violation(site, "reported derivative has the wrong shape",
                      {"claimed_shape": list(J.shape), "expected": list(D.shape[:-1]) + [int(np.asarray(x).size)], **(extra or {})})
        return None
    c, Js, m = rodgen.compare_scaled(J, D, err, scale, cols, floor=floor)
    if not c.ok:
        ctx.mon("D:" + site)
        tally.decided += 1
        key = classify(Js, D, err, cols, m, claim, np.asarray(scale, dtype=float)) if classify else None
        det = c.detail()
        det["normalised_by"] = m
        det["columns"] = [int(i) for i in cols[:40]]
        if extra:
            det.update(extra)
        if diagnose and key is None:
            det.update(diagnose(Js, D, err, cols, m, claim, np.asarray(scale, dtype=float)))
        ctx.violation(site, "reported derivative differs from the finite-difference derivative of the map", det, key=key)
    elif c.undecided:
        tally.noisy += 1
        ctx.count("noisy_subchecks")
    else:
        ctx.mon("D:" + site)
        tally.decided += 1
    return c


def _close(ctx, site, what, a, b, tol, mon, extra=None, key=None):
    a = np.asarray(a, dtype=float)
    b = np.asarray(b, dtype=float)
    ctx.mon(mon)
    if a.shape != b.shape:
        ctx.violation(site, what + " (shape)", {"shape_a": list(a.shape), "shape_b": list(b.shape), **(extra or {})}, key=key)
        return False
    d = np.abs(a - b)
    if not np.all(np.isfinite(d)) or (d.size and float(np.max(d)) > tol):
        ctx.violation(site, what, {"max_abs_err": float(np.max(d)) if np.all(np.isfinite(d)) else "non-finite",
                                   "tol": float(tol), "observed": a, "expected": b, **(extra or {})}, key=key)
        return False
    return True


# ----------------------------------------------------------------------------
# scales
# ----------------------------------------------------------------------------
def rod_q_scale(R, q_rod):
    nn = R.nn
    _, P = rodgen.unpack(q_rod, nn)
    hnode = R.L / max(1, nn - 1)
    s_r = np.full((nn, 3), hnode)
    s_p = np.repeat(np.linalg.norm(P, axis=1)[:, None], 4, axis=1)
    return rodgen.pack(s_r, s_p)


# ----------------------------------------------------------------------------
# defect-model predicates
# ----------------------------------------------------------------------------
def diagnose_qdotu(R, t, q, q_rod):
    """triage help (never a known-finding key; the defect is fixed in /repo): the pre-fix rod
    q_dot_u returned T(P/|P|) although q_dot = T(P) w (T linear in P). Recognised iff
    (1) claimed - true equals T_ref(P/|P|) - T_ref(P) on every orientation block and nothing
    else differs, and (2) the mismatch vanishes at the same state with normalised quaternions."""
    sysm, rod, nn = R.system, R.rod, R.nn

    def fn(Js, D, err, cols, m, claim=None, scale=None):
        _, P = rodgen.unpack(q_rod, nn)
        if np.max(np.abs(np.linalg.norm(P, axis=1) - 1)) < 1e-9:
            return {}
        model = D.copy()                       # true derivative everywhere ...
        colpos = {int(c): k for k, c in enumerate(cols)}
        for i in range(nn):                    # ... except the rod's orientation blocks
            rows = rod.qDOF[3 * nn + i + nn * np.arange(4)]
            ucols = rod.uDOF[3 * nn + i + nn * np.arange(3)]
            Tn = T_inv_quat_ref(P[i] / np.linalg.norm(P[i]))
            Tt = T_inv_quat_ref(P[i])
            for b, uc in enumerate(ucols):
                if int(uc) in colpos:
                    k = colpos[int(uc)]
                    # D must be the un-normalised reference there
                    if np.max(np.abs(D[rows, k] - Tt[:, b])) > 1e-6 * max(1.0, np.max(np.abs(Tt))) + 20 * np.max(err[rows, k]):
                        return {}
                    model[rows, k] = Tn[:, b]
        if np.max(np.abs(Js - model) - (1e-6 * m + 20 * err)) > 0:
            return {}
        # (2) vanishes at normalised quaternions
        r, _ = rodgen.unpack(q_rod, nn)
        qn = q.copy()
        qn[rod.qDOF] = rodgen.pack(r, P / np.linalg.norm(P, axis=1)[:, None])
        u0 = np.zeros(sysm.nu)
        Dn, errn, _ = rodgen.fd_scaled(lambda uu: sysm.q_dot(t, qn, uu), u0, np.ones(sysm.nu), cols)
        cn, _, _ = rodgen.compare_scaled(sysm.q_dot_u(t, qn), Dn, errn, np.ones(sysm.nu), cols)
        if cn.ok:
            return {"diagnosis": "claimed block equals T_SO3_inv_quat(P/|P|): q_dot_u normalises the nodal quaternions although q_dot does not"}
        return {}
    return fn


def classify_hu(ctx, R, t, q, u):
    """known finding (b): all six strains constrained => the class derives from the
    abstract base, which implements h_u (= -d f_gyr/du) but no h: System.h has no rod
    contribution. Matches iff the rod has no callable h, the finite-difference
    derivative of System.h vanishes on the rod block and the claimed block equals the
    derivative of the (unexposed) gyroscopic forces -f_gyr_el assembled by the harness."""
    sysm, rod = R.system, R.rod

    def fn(Js, D, err, cols, m, claim=None, scale=None):
        if callable(getattr(rod, "h", None)):
            return None
        if not rodgen.is_fully_constrained(R.spec):
            return None
        ur = np.asarray(rod.uDOF)
        inrod = np.isin(cols, ur)
        if np.max(np.abs(D[ur][:, inrod])) > 1e-9 * max(1.0, np.max(np.abs(Js))):
            return None

        def minus_fgyr(uu):
            out = np.zeros(sysm.nu)
            qr, u_r = q[rod.qDOF], uu[rod.uDOF]
            for el in range(rod.nelement):
                out[ur[rod.elDOF_u[el]]] -= rod.f_gyr_el(t, qr[rod.elDOF[el]], u_r[rod.elDOF_u[el]], el)
            return out
        Dg, errg, _ = rodgen.fd_scaled(minus_fgyr, u, np.ones(sysm.nu), cols)
        model = D.copy()
        model[np.ix_(ur, np.where(inrod)[0])] = Dg[np.ix_(ur, np.where(inrod)[0])]
        if np.max(np.abs(Js - model) - (1e-6 * m + 20 * (err + errg))) > 0:
            return None
        ctx.count("masked_stratum:System.h_u/constr:012345")
        return KEY_HU
    return fn


def diagnose_se3(R):
    """triage help for mismatches on SE3 rods (never a known-finding key): the SE3 interpolation
    differentiates through Exp_SE3_h / Log_SE3_H, i.e. through cardillo.math.rotations.T_SO3_psi
    and T_SO3_inv_psi, whose closed-form coefficients cancel catastrophically for rotation
    vectors -> 0 unless a series branch is used. Reports whether the mismatch disappears when
    exactly one of them is replaced by the accurate series implementation of this module."""
    def fn(Js, D, err, cols, m, claim, scale):
        if R.spec["interp"] != "SE3":
            return {}
        import cardillo.math.rotations as rot
        for name, ref in (("T_SO3_psi", T_SO3_psi_ref), ("T_SO3_inv_psi", T_SO3_inv_psi_ref)):
            orig = getattr(rot, name)
            setattr(rot, name, ref)
            try:
                R.rod._deval_cache.clear()
                J2 = np.asarray(dense(claim()), dtype=float)
            finally:
                setattr(rot, name, orig)
                R.rod._deval_cache.clear()
            J2s = J2[..., cols] * scale[cols]
            if np.max(np.abs(J2s - D) - (1e-6 * m + 20 * err)) <= 0:
                return {"diagnosis": "mismatch vanishes when cardillo.math.rotations.%s is replaced by an accurate series implementation" % name}
        return {"diagnosis": "not explained by small-angle inaccuracy of T_SO3_psi / T_SO3_inv_psi"}
    return fn


# ----------------------------------------------------------------------------
# the checks
# ----------------------------------------------------------------------------
def system_checks(ctx, R, rng, tally, t, q_rod, u_rod, label):
    sysm, rod = R.system, R.rod
    q, u = R.qsys(q_rod), R.usys(u_rod)
    sq = np.ones(sysm.nq)
    sq[rod.qDOF] = rod_q_scale(R, q_rod)
    su = np.ones(sysm.nu)
    cq = rodgen.sample_cols(rng, sysm.nq, NCOL)
    cu = rodgen.sample_cols(rng, sysm.nu, NCOL)
    cqW = rodgen.sample_cols(rng, sysm.nq, NCOL // 2)     # W_c / W_g evaluations are the expensive ones
    ex = {"state": label, "formulation": rodgen.formulation_name(R.spec)}
    se3 = diagnose_se3(R)     # triage annotation for SE3 rods only

    dcheck(ctx, tally, "System.h_q", lambda: sysm.h_q(t, q, u), lambda qq: sysm.h(t, qq, u), q, sq, cq, diagnose=se3, extra=ex)
    dcheck(ctx, tally, "System.h_u", lambda: sysm.h_u(t, q, u), lambda uu: sysm.h(t, q, uu), u, su, cu,
           classify=classify_hu(ctx, R, t, q, u), extra=ex)
    if R.nla_c:
        la_c = rng.normal(size=sysm.nla_c) * R.kmax * 0.1
        sl = np.full(sysm.nla_c, R.kmax)
        cl = rodgen.sample_cols(rng, sysm.nla_c, NCOL)
        dcheck(ctx, tally, "System.c_q", lambda: sysm.c_q(t, q, u, la_c), lambda qq: sysm.c(t, qq, u, la_c), q, sq, cq,
               diagnose=se3, extra=ex)
        dcheck(ctx, tally, "System.c_la_c", lambda: sysm.c_la_c(), lambda ll: sysm.c(t, q, u, ll), la_c, sl, cl, extra=ex)
        dcheck(ctx, tally, "System.Wla_c_q", lambda: sysm.Wla_c_q(t, q, la_c),
               lambda qq: sysm.W_c(t, qq).toarray() @ la_c, q, sq, cqW, diagnose=se3, extra=ex)
    if R.nla_g:
        la_g = rng.normal(size=sysm.nla_g) * R.kmax * 0.1
        dcheck(ctx, tally, "System.g_q", lambda: sysm.g_q(t, q), lambda qq: sysm.g(t, qq), q, sq, cq, diagnose=se3, extra=ex)
        dcheck(ctx, tally, "System.Wla_g_q", lambda: sysm.Wla_g_q(t, q, la_g),
               lambda qq: sysm.W_g(t, qq).toarray() @ la_g, q, sq, cqW, diagnose=se3, extra=ex)
    dcheck(ctx, tally, "System.q_dot_q", lambda: sysm.q_dot_q(t, q, u), lambda qq: sysm.q_dot(t, qq, u), q, sq, cq, extra=ex)
    dcheck(ctx, tally, "System.q_dot_u", lambda: sysm.q_dot_u(t, q), lambda uu: sysm.q_dot(t, q, uu), u, su, cu,
           diagnose=diagnose_qdotu(R, t, q, q_rod), extra=ex)
    dcheck(ctx, tally, "System.g_S_q", lambda: sysm.g_S_q(t, q), lambda qq: sysm.g_S(t, qq), q, sq, cq, extra=ex)


def se3_directed_checks(ctx, R, rng, tally, t, q_rod, u_rod, label):
    """the cheap subset of the sweep that goes through the SE3 `_deval`: one system-level
    Jacobian of the formulation (h_q / c_q / g_q) and r_OP_q, A_IB_q at an interior xi"""
    sysm, rod = R.system, R.rod
    q, u = R.qsys(q_rod), R.usys(u_rod)
    sq = np.ones(sysm.nq)
    sq[rod.qDOF] = rod_q_scale(R, q_rod)
    ex = {"state": label, "formulation": rodgen.formulation_name(R.spec)}
    se3 = diagnose_se3(R)
    if R.nla_g:
        dcheck(ctx, tally, "System.g_q", lambda: sysm.g_q(t, q), lambda qq: sysm.g(t, qq), q, sq, None, diagnose=se3, extra=ex)
    if R.nla_c:
        la_c = rng.normal(size=sysm.nla_c) * R.kmax * 0.1
        dcheck(ctx, tally, "System.c_q", lambda: sysm.c_q(t, q, u, la_c), lambda qq: sysm.c(t, qq, u, la_c), q, sq, None,
               diagnose=se3, extra=ex)
    else:
        dcheck(ctx, tally, "System.h_q", lambda: sysm.h_q(t, q, u), lambda qq: sysm.h(t, qq, u), q, sq, None, diagnose=se3, extra=ex)
    xi = float(rng.uniform(0.05, 0.95))
    elq = np.asarray(rod.local_qDOF_P(xi))
    qe = q_rod[elq].copy()
    sqe = rod_q_scale(R, q_rod)[elq]
    B = rng.normal(size=3) * R.L * 0.3
    ex = {**ex, "xi": xi, "B_r_CP": B}
    dcheck(ctx, tally, "rod.r_OP_q", lambda: rod.r_OP_q(t, qe, xi, B), lambda x: rod.r_OP(t, x, xi, B), qe, sqe, diagnose=se3, extra=ex)
    dcheck(ctx, tally, "rod.A_IB_q", lambda: rod.A_IB_q(t, qe, xi), lambda x: rod.A_IB(t, x, xi), qe, sqe, diagnose=se3, extra=ex)


def _xi_samples(R, rng):
    """(xi, label) : ends, a node, an element boundary, interior points"""
    nel, p = R.spec["nel"], R.spec["p"]
    nodes = R.node_xis()
    out = [(0.0, "end0"), (1.0, "end1")]
    out.append((float(nodes[int(rng.integers(len(nodes)))]), "node"))
    if nel > 1:
        k = int(rng.integers(1, nel))
        out.append((float(np.linspace(0, 1, nel + 1)[k]), "element_boundary"))
    out.append((float(rng.uniform(0, 1)), "interior"))
    return out


def rod_checks(ctx, R, rng, tally, t, q_rod, u_rod, label):
    rod, nn = R.rod, R.nn
    s_rod = rod_q_scale(R, q_rod)
    ud_rod = R.random_velocity(rng, 1.0)
    fname = rodgen.formulation_name(R.spec)
    se3 = diagnose_se3(R)
    for xi, xlab in _xi_samples(R, rng):
        ctx.cls("xi:" + xlab)
        xi_arg = (xi,) if rng.random() < 0.2 else xi
        if isinstance(xi_arg, tuple):
            ctx.cls("xi:passed_as_tuple")
        elq = np.asarray(rod.local_qDOF_P(xi_arg))
        elu = np.asarray(rod.local_uDOF_P(xi_arg))
        qe, ue, ude = q_rod[elq].copy(), u_rod[elu].copy(), ud_rod[elu].copy()
        sqe, sue = s_rod[elq], np.ones(len(elu))
        B = np.zeros(3) if rng.random() < 0.3 else rng.normal(size=3) * R.L * float(loguniform(rng, 1e-2, 1.0))
        ctx.cls("offset:zero" if not B.any() else "offset:nonzero")
        ex = {"state": label, "xi": xi, "xi_kind": xlab, "B_r_CP": B, "formulation": fname}

        dcheck(ctx, tally, "rod.r_OP_q", lambda: rod.r_OP_q(t, qe, xi_arg, B), lambda x: rod.r_OP(t, x, xi_arg, B), qe, sqe,
               diagnose=se3, extra=ex)
        dcheck(ctx, tally, "rod.A_IB_q", lambda: rod.A_IB_q(t, qe, xi_arg), lambda x: rod.A_IB(t, x, xi_arg), qe, sqe,
               diagnose=se3, extra=ex)
        dcheck(ctx, tally, "rod.v_P_q", lambda: rod.v_P_q(t, qe, ue, xi_arg, B), lambda x: rod.v_P(t, x, ue, xi_arg, B), qe, sqe,
               diagnose=se3, extra=ex)
        dcheck(ctx, tally, "rod.J_P", lambda: rod.J_P(t, qe, xi_arg, B), lambda x: rod.v_P(t, qe, x, xi_arg, B), ue, sue, extra=ex)
        dcheck(ctx, tally, "rod.J_P_q", lambda: rod.J_P_q(t, qe, xi_arg, B), lambda x: rod.J_P(t, x, xi_arg, B), qe, sqe,
               diagnose=se3, extra=ex)
        dcheck(ctx, tally, "rod.a_P_q", lambda: rod.a_P_q(t, qe, ue, ude, xi_arg, B),
               lambda x: rod.a_P(t, x, ue, ude, xi_arg, B), qe, sqe, diagnose=se3, extra=ex)
        dcheck(ctx, tally, "rod.a_P_u", lambda: rod.a_P_u(t, qe, ue, ude, xi_arg, B),
               lambda x: rod.a_P(t, qe, x, ude, xi_arg, B), ue, sue, extra=ex)
        dcheck(ctx, tally, "rod.J_P(a_P)", lambda: rod.J_P(t, qe, xi_arg, B),
               lambda x: rod.a_P(t, qe, ue, x, xi_arg, B), ude, sue, extra=ex)
        dcheck(ctx, tally, "rod.B_J_R", lambda: rod.B_J_R(t, qe, xi_arg), lambda x: rod.B_Omega(t, qe, x, xi_arg), ue, sue, extra=ex)
        dcheck(ctx, tally, "rod.B_Omega_q", lambda: rod.B_Omega_q(t, qe, ue, xi_arg), lambda x: rod.B_Omega(t, x, ue, xi_arg), qe, sqe, extra=ex)

        # interpolated orientation is a rotation (Quaternion and SE3 interpolation)
        if R.spec["interp"] in ("Quaternion", "SE3"):
            A = np.asarray(rod.A_IB(t, qe, xi_arg), dtype=float)
            ctx.mon("rotation.orthonormal")
            dev = float(np.max(np.abs(A.T @ A - np.eye(3))))
            det = float(np.linalg.det(A))
            if not (dev <= 1e-9 and abs(det - 1) <= 1e-9):
                ctx.violation("rod.A_IB", "interpolated orientation is not a rotation matrix",
                              {"orthonormality_defect": dev, "det": det, "A_IB": A, **ex})
        else:
            ctx.count("orthonormality_not_required_R12")


def nodal_checks(ctx, R, rng, t, q_rod, u_rod, label, only=None):
    rod, nn = R.rod, R.nn
    r, P = rodgen.unpack(q_rod, nn)
    v, w = rodgen.unpack_u(u_rod, nn)
    xis = R.node_xis()
    fname = rodgen.formulation_name(R.spec)
    rs = R.L + float(np.max(np.abs(r)))
    for i in (range(nn) if only is None else [only]):
        xi = float(xis[i])
        if R.spec.get("kind") == "nodal_many" and rng.random() < 0.5:
            xi = float(np.linspace(0, 1, nn)[i])       # the other natural spelling of a nodal parameter (differs by an ulp at some nodes)
        xi_arg = (xi,) if rng.random() < 0.2 else xi
        # at a node shared by two elements the basis may be requested with either element given explicitly (the surface
        # export and eval_stresses(..., el=...) do so); such a request must not change what the element-free query returns
        x_el = xi * rod.nelement
        if rod.nelement > 1 and 0 < xi < 1 and abs(x_el - round(x_el)) < 1e-12 and rng.random() < 0.6:
            right = int(round(x_el))
            for el in ((right - 1, right) if rng.random() < 0.5 else (right, right - 1)):
                rod.basis_functions_r(xi, el)
                rod.basis_functions_p(xi, el)
            ctx.cls("nodal:explicit_element_queries_before")
        elq = np.asarray(rod.local_qDOF_P(xi_arg))
        elu = np.asarray(rod.local_uDOF_P(xi_arg))
        qe, ue = q_rod[elq].copy(), u_rod[elu].copy()
        B = np.zeros(3) if rng.random() < 0.5 else rng.normal(size=3) * R.L * 0.1
        A_ref = quat_to_mat(P[i])
        ex = {"state": label, "node": i, "xi": xi, "formulation": fname, "B_r_CP": B}
        _close(ctx, "rod.r_OP", "cross-section position at a nodal parameter differs from the nodal value",
               rod.r_OP(t, qe, xi_arg, B), r[i] + A_ref @ B, 1e-7 * (rs + float(np.linalg.norm(B))), "nodal.r_OP", ex)
        # the same cross-section again, now without offset (a second attachment at this cross-section): still the nodal value
        _close(ctx, "rod.r_OP", "cross-section position at a nodal parameter differs from the nodal value when it is evaluated again (after an evaluation with a body-fixed offset)",
               rod.r_OP(t, qe, xi_arg), r[i], 1e-7 * rs, "nodal.r_OP", {**ex, "second_evaluation": True})
        _close(ctx, "rod.A_IB", "cross-section orientation at a nodal parameter differs from the nodal rotation",
               rod.A_IB(t, qe, xi_arg), A_ref, 1e-7, "nodal.A_IB", ex)
        v_ref = v[i] + A_ref @ np.cross(w[i], B)
        _close(ctx, "rod.v_P", "cross-section velocity at a nodal parameter differs from the nodal velocity",
               rod.v_P(t, qe, ue, xi_arg, B), v_ref, 1e-7 * (1.0 + float(np.max(np.abs(v))) + float(np.linalg.norm(w[i])) * float(np.linalg.norm(B))),
               "nodal.v_P", ex)


def mass_checks(ctx, R, rng, t, q_rod, u_rod, label):
    sysm, rod, nn = R.system, R.rod, R.nn
    q, u = R.qsys(q_rod), R.usys(u_rod)
    fname = rodgen.formulation_name(R.spec)
    ex = {"state": label, "formulation": fname, "inertia": R.inertia_kind}
    M = dense(sysm.M(t, q)).astype(float)
    Mr = M[np.ix_(rod.uDOF, rod.uDOF)]
    mx = float(np.max(np.abs(Mr)))
    ctx.mon("mass.symmetric_psd")
    asym = float(np.max(np.abs(M - M.T)))
    ev = np.linalg.eigvalsh(0.5 * (Mr + Mr.T))
    if asym > 1e-12 * max(mx, 1e-300):
        ctx.violation("System.M", "mass matrix is not symmetric", {"max_asymmetry": asym, "max_entry": mx, **ex})
    if ev[0] < -1e-10 * max(ev[-1], 1e-300):
        ctx.violation("System.M", "mass matrix is not positive semidefinite", {"min_eig": float(ev[0]), "max_eig": float(ev[-1]), **ex})
    # kinetic energy: rod level and system level
    Er = float(rod.E_kin(t, q_rod, u_rod))
    Eq = 0.5 * float(u_rod @ Mr @ u_rod)
    ctx.mon("mass.E_kin")
    if abs(Er - Eq) > 1e-10 * max(abs(Eq), abs(Er), 1e-300):
        ctx.violation("rod.E_kin", "kinetic energy differs from 1/2 u^T M u", {"E_kin": Er, "half_uMu": Eq, **ex})
    # system level: foreign velocities set to zero (RigidBody contributes to M but reports no E_kin -- not a rod matter)
    ue = np.zeros(sysm.nu)
    ue[rod.uDOF] = u_rod
    Es = float(sysm.E_kin(t, q, ue))
    Eqs = 0.5 * float(ue @ M @ ue)
    ctx.mon("mass.E_kin")
    if abs(Es - Eqs) > 1e-10 * max(abs(Eqs), abs(Es), 1e-300):
        ctx.violation("System.E_kin", "kinetic energy differs from 1/2 u^T M u", {"E_kin": Es, "half_uMu": Eqs, **ex})
    # the same after the system was assembled again (restart workflow): the mass matrix must not change
    if rng.random() < 0.5:
        import io as _io, contextlib as _cl, warnings as _w
        from vlib import gen as _gen
        with _w.catch_warnings(), _cl.redirect_stdout(_io.StringIO()):
            _w.simplefilter("ignore")
            sysm.assemble(options=_gen.no_cic_options())
        M2 = dense(sysm.M(t, q)).astype(float)
        ctx.mon("mass.after_reassembly")
        if M2.shape != M.shape or float(np.max(np.abs(M2 - M))) > 1e-12 * max(mx, 1e-300):
            ctx.violation("System.M", "mass matrix changes when the system is assembled again (1/2 u^T M u no longer the kinetic energy)",
                          {"max_change": float(np.max(np.abs(M2 - M))) if M2.shape == M.shape else "shape", "max_entry": mx, **ex})
    # independent closed form: rigid translation of a straight rod, m = A_rho0 * L
    if R.spec["ref"] in ("straight", "graded"):
        vv = rng.normal(size=3)
        ut = rodgen.pack_u(np.tile(vv, (nn, 1)), np.zeros((nn, 3)))
        Et = float(rod.E_kin(t, q_rod, ut))
        Em = 0.5 * float(ut @ Mr @ ut)
        Ec = 0.5 * R.A_rho0 * R.L * float(vv @ vv)
        ctx.mon("mass.translation_closed_form")
        if abs(Et - Ec) > 1e-9 * Ec or abs(Em - Ec) > 1e-9 * Ec:
            ctx.violation("rod.M", "kinetic energy of a rigid translation of a straight rod is not 1/2 (A_rho0 L) |v|^2",
                          {"E_kin": Et, "half_uMu": Em, "closed_form": Ec, **ex})
    # gyroscopic forces are power-free: u . (h(q,u) - h(q,0)) = 0
    u0 = u.copy()
    u0[rod.uDOF] = 0.0
    h0 = sysm.h(t, q, u0)[rod.uDOF]
    fg = sysm.h(t, q, u)[rod.uDOF] - h0
    pw = float(u_rod @ fg)
    sc = float(np.linalg.norm(u_rod) * np.linalg.norm(fg))
    noise = 1e-13 * float(np.linalg.norm(u_rod) * np.linalg.norm(h0))   # rounding of (f_int - f_gyr)
    ctx.mon("gyro.power_free")
    ctx.cls("gyro:" + ("nonzero" if sc > 1e3 * noise and sc > 0 else "zero_or_below_rounding"))
    if abs(pw) > 1e-10 * sc + noise:
        ctx.violation("System.h", "velocity-dependent (gyroscopic) forces do power", {"power": pw, "scale": sc, **ex})


# ----------------------------------------------------------------------------
def _states(R, spec, rng):
    """list of (label, q_rod, u_rod) and the relative-rotation size of nearly straight states"""
    kind = spec["kind"]
    vel = lambda: R.random_velocity(rng, float(loguniform(rng, 0.1, 10)))
    if kind == "directed_se3":
        # nearly straight SE3 elements, relative rotations spread over the fragile range
        out = []
        for tiny in spec["tiny"]:
            out.append(("unit/nearly-straight", R.perturbed_state(rng, qnorm="unit", tiny=float(tiny)), vel()))
        return out, list(spec["tiny"])
    amp = float(rng.uniform(0.05, 0.5))
    tiny = None
    if spec["interp"] == "SE3" and spec["ref"] == "straight" and kind == "sweep" and rng.random() < 0.6:
        tiny = float(loguniform(rng, 1e-9, 1e-3))
    s0 = R.perturbed_state(rng, amp=amp, qnorm="unit", tiny=tiny)
    lab0 = "unit" if tiny is None else "unit/nearly-straight"
    r = rng.random()
    qn = "moderate" if r < 0.6 else ("common" if r < 0.8 else "extreme")
    if kind.startswith("directed"):
        qn = "moderate"
    s1 = R.perturbed_state(rng, amp=float(rng.uniform(0.05, 0.5)), qnorm=qn)
    return [(lab0, s0, vel()), ("nonunit:" + qn, s1, vel())], tiny


def run_case(spec, ctx):
    env.import_cardillo()
    _self_check()
    rng = ctx.rng
    kind = spec["kind"]
    with warnings.catch_warnings():
        warnings.simplefilter("ignore")
        R = rodgen.guarded(ctx, "rod construction / System.assemble", rodgen.build, spec, rng)
        if R is None:
            ctx.sig([spec, "construction failed"], nontrivial=False)
            return
        for c in rodgen.classes(spec):
            ctx.cls(c)
        ctx.cls("kind:" + kind)
        ctx.cls("inertia:" + R.inertia_kind)
        if R.assemble_error:
            ctx.count("assemble_with_consistent_initial_conditions_failed")
            ctx.extra("assemble_error_example", {"formulation": rodgen.formulation_name(spec), "nel": spec["nel"],
                                                 "error": R.assemble_error})
        if kind == "nodal_many":
            spec2 = {**spec, "nel": spec["nel2"]}
            R2 = rodgen.guarded(ctx, "rod construction / System.assemble", rodgen.build, spec2, rng)
            if R2 is None:
                ctx.sig([spec, "construction failed"], nontrivial=False)
                return
            t = float(rng.uniform(0, 2))
            st = []
            for RR in (R, R2):
                q_ = RR.perturbed_state(rng, amp=0.2, qnorm="unit")
                st.append((RR, q_, RR.random_velocity(rng, 1.0)))
            for i in range(max(R.nn, R2.nn)):
                for RR, q_, u_ in (st if i % 2 == 0 else st[::-1]):
                    if i < RR.nn:
                        rodgen.guarded(ctx, "rod-level kinematic routines at nodes", nodal_checks, ctx, RR, rng, t, q_, u_, "unit/many-elements", only=i)
            ctx.cls("nodal:two_rods_alternately")
            ctx.sig([spec, [float(x) for x in st[0][1][:6]]], nontrivial=True)
            ctx.sample({"formulation": rodgen.formulation_name(spec), "kind": kind, "nel": [spec["nel"], spec["nel2"]]})
            return
        states, tiny = _states(R, spec, rng)
        tally = Tally()
        t = float(rng.uniform(0, 2))
        for label, q_rod, u_rod in states:
            ctx.cls("state:" + label)
            args = (ctx, R, rng, tally, t, q_rod, u_rod, label)
            if kind == "directed_se3":
                rodgen.guarded(ctx, "rod derivative routines (SE3, nearly straight)", se3_directed_checks, *args)
            if kind in ("sweep", "directed_qdotu", "directed_hu"):
                rodgen.guarded(ctx, "system-level rod routines", system_checks, *args)
            if kind == "sweep":
                rodgen.guarded(ctx, "rod-level kinematic routines", rod_checks, *args)
                rodgen.guarded(ctx, "rod-level kinematic routines at nodes", nodal_checks, ctx, R, rng, t, q_rod, u_rod, label)
                rodgen.guarded(ctx, "mass matrix / kinetic energy / gyroscopic forces", mass_checks, ctx, R, rng, t, q_rod, u_rod, label)
    if tally.noisy > tally.decided:
        ctx.undecided("finite-difference oracle too noisy in %d of %d derivative comparisons" % (tally.noisy, tally.noisy + tally.decided))
    ctx.sig([spec, [float(x) for x in states[0][1][:6]], [float(x) for x in states[-1][1][:6]]],
            nontrivial=tally.decided >= 10)
    ctx.sample({"formulation": rodgen.formulation_name(spec), "kind": kind, "nel": spec["nel"], "ref": spec["ref"],
                "material": spec["material"], "L": R.L, "nq_system": int(R.system.nq), "decided_comparisons": tally.decided,
                "nearly_straight": tiny})


META = {
    "level_text": "Exploration: rods of every formulation family are generated inside real Systems and every reported "
                  "derivative (system level h_q, h_u, c_q, c_la_c, Wla_c_q, g_q, Wla_g_q, q_dot_q, q_dot_u, g_S_q; rod level "
                  "r_OP_q, A_IB_q, v_P_q, J_P, J_P_q, a_P_q, a_P_u, B_J_R) is compared with Richardson finite differences of "
                  "the map it claims to differentiate at random deformed states with unit and non-unit nodal quaternions; "
                  "nodal interpolation, orthonormality, mass-matrix / kinetic-energy / gyroscopic identities are checked "
                  "directly. Held on the rods and states generated, not a proof.",
    "level_note": "finite-difference oracle with floor 1e-6 relative to the largest entry; Jacobians of large rods are "
                  "compared on 16 sampled columns; relative nodal rotations below pi; R12 interpolation is exempt from the "
                  "orthonormality clause as in the property text.",
    "technique": "runtime return-value monitors with finite-difference (D-oracle) and closed-form reference models on generated rod systems",
}
