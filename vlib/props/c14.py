"""C14 System assembly is a faithful, repeatable scatter of its contributions."""

import numpy as np
from vlib import env, gen, forcegen
from vlib.oracles import dense, loguniform, quat_to_mat

ID = "C14"
LEVEL = "exploration"
RULE = ("kind 'scatter': a random System of 4-9 contributions drawn from rigid bodies, point masses, moving frames, all joint "
        "types, force laws in both forms, Maxwell elements, forces/moments, actuators, sphere-plane and sphere-sphere contacts, "
        "rods with line loads and joints on cross-sections; every System-level vector/matrix is compared with an independent dense "
        "scatter-sum of the contributions' local quantities, the per-contribution index sets must partition the global ranges, and "
        "a second assemble() must leave layout and all evaluations unchanged. kind 'registry': a random history of 5-60 "
        "add/remove/pop/extend/assemble operations over a small pool of names containing the renaming pattern, checked after "
        "every operation against a 10-line model of the name registry. distinct = hash of the system composition / history; "
        "non-trivial = at least two contributions share degrees of freedom (scatter) or the history removes and re-adds a name (registry)")
ASSUMPTIONS = ["dense reference assembly written independently of cardillo/system.py: loops over system.contributions and adds local results at the contribution's own DOF arrays",
               "systems are assembled with compute_consistent_initial_conditions=False (C16 covers the initial conditions)",
               "equality up to summation rounding 1e-12*(1+|value|) + 64 eps * sum|summands| per cell (blocks of one contribution may cancel, e.g. a force law between two points of one body)"]
REQUIRED_MONITORS = ["scatter.compare", "partition", "reassemble", "coexistence", "recompose.compare", "registry.step"]
FORMAT_TWIN = True          # ambient monitor: every System matrix is also requested in the other documented formats (vlib/formattwin.py)
META = {
    "level_text": "Exploration: shadow-state monitors on the real System: a dense reference assembler over random systems, partition and re-assembly snapshots, and a registry model over random add/remove histories. Held on the systems and histories generated.",
    "level_note": "reference = independent dense scatter-sum; consistent initial conditions disabled in the scatter part.",
    "technique": "shadow-state monitors (dense reference assembly, registry model) over generated systems and operation histories + ambient format-twin monitor (every System matrix also requested as coo/csr/csc/array)",
}
CASE_TIMEOUT = 240

# name: (args, row, col, local method, needs)   row/col in {"u","q","myq","la_g","la_c","la_S","la_N","la_F","la_tau",None}
VEC = {
    "h": ("tqu", "u", "h"), "q_dot": ("tqu", "myq", "q_dot"), "g": ("tq", "la_g", "g"), "g_dot": ("tqu", "la_g", "g_dot"),
    "g_ddot": ("tquu", "la_g", "g_ddot"), "c": ("tqul", "la_c", "c"), "la_c": ("tqu", "la_c", "la_c"), "g_S": ("tq", "la_S", "g_S"),
    "g_N": ("tq", "la_N", "g_N"), "g_N_dot": ("tqu", "la_N", "g_N_dot"), "g_N_ddot": ("tquu", "la_N", "g_N_ddot"),
    "gamma_F": ("tqu", "la_F", "gamma_F"), "gamma_F_dot": ("tquu", "la_F", "gamma_F_dot"), "la_tau": ("tqu", "la_tau", "la_tau"),
}
MAT = {
    "M": ("tq", "u", "u", "M"), "h_q": ("tqu", "u", "q", "h_q"), "h_u": ("tqu", "u", "u", "h_u"),
    "q_dot_q": ("tqu", "myq", "q", "q_dot_q"), "q_dot_u": ("tq", "myq", "u", "q_dot_u"),
    "g_q": ("tq", "la_g", "q", "g_q"), "W_g": ("tq", "u", "la_g", "W_g"), "g_dot_q": ("tqu", "la_g", "q", "g_dot_q"),
    "g_dot_u": ("tq", "la_g", "u", "g_dot_u"), "Wla_g_q": ("tqG", "u", "q", "Wla_g_q"),
    "c_q": ("tqul", "la_c", "q", "c_q"), "c_u": ("tqul", "la_c", "u", "c_u"), "W_c": ("tq", "u", "la_c", "W_c"),
    "Wla_c_q": ("tqC", "u", "q", "Wla_c_q"), "c_la_c": ("", "la_c", "la_c", "c_la_c"),
    "W_tau": ("tq", "u", "la_tau", "W_tau"), "Wla_tau_q": ("tqu", "u", "q", "Wla_tau_q"), "Wla_tau_u": ("tqu", "u", "u", "Wla_tau_u"),
    "g_S_q": ("tq", "la_S", "q", "g_S_q"),
    "g_N_q": ("tq", "la_N", "q", "g_N_q"), "W_N": ("tq", "u", "la_N", "W_N"), "Wla_N_q": ("tqN", "u", "q", "Wla_N_q"),
    "gamma_F_q": ("tqu", "la_F", "q", "gamma_F_q"), "W_F": ("tq", "u", "la_F", "W_F"), "Wla_F_q": ("tqF", "u", "q", "Wla_F_q"),
}
DOFATTR = {"u": "uDOF", "q": "qDOF", "myq": "my_qDOF", "la_g": "la_gDOF", "la_c": "la_cDOF", "la_S": "la_SDOF", "la_N": "la_NDOF",
           "la_F": "la_FDOF", "la_tau": "la_tauDOF"}
SIZE = {"u": "nu", "q": "nq", "myq": "nq", "la_g": "nla_g", "la_c": "nla_c", "la_S": "nla_S", "la_N": "nla_N", "la_F": "nla_F", "la_tau": "nla_tau"}
NEED = {"la_g": "nla_g", "la_c": "nla_c", "la_S": "nla_S", "la_N": "nla_N", "la_F": "nla_F", "la_tau": "nla_tau", "myq": "nq"}


def cases(tier, seed):
    n = {"quick": 96, "thorough": 2400}[tier]
    m = {"quick": 320, "thorough": 12000}[tier]
    return ([{"kind": "scatter"} for _ in range(n)] + [{"kind": "registry", "batch": 4} for _ in range(m // 4)]
            + [{"kind": "actuators"} for _ in range({"quick": 12, "thorough": 200}[tier])])


def _args(code, c, t, q, u, ud, lam, system_level):
    out = []
    for ch in code:
        if ch == "t":
            out.append(t)
        elif ch == "q":
            out.append(q if system_level else q[c.qDOF])
        elif ch == "u":
            # second 'u' is u_dot
            if "u" in [x[0] for x in out if isinstance(x, tuple)]:
                pass
            out.append(("u", None))
        elif ch == "l":
            out.append(lam["la_c"] if system_level else lam["la_c"][c.la_cDOF])
        elif ch in "GCNF":
            key = {"G": "la_g", "C": "la_c", "N": "la_N", "F": "la_F"}[ch]
            out.append(lam[key] if system_level else lam[key][getattr(c, DOFATTR[key])])
    # resolve u / u_dot placeholders
    res, nu_seen = [], 0
    for x in out:
        if isinstance(x, tuple):
            vec = u if nu_seen == 0 else ud
            res.append(vec if system_level else vec[c.uDOF])
            nu_seen += 1
        else:
            res.append(x)
    return res


def _reference(system, name, spec, t, q, u, ud, lam, is_mat):
    """independent dense scatter-sum. Returns (array, number of contributing contributions)"""
    if is_mat:
        code, row, col, meth = spec
        out = np.zeros((getattr(system, SIZE[row]), getattr(system, SIZE[col])))
    else:
        code, row, meth = spec
        col = None
        out = np.zeros(getattr(system, SIZE[row]))
    mass = np.zeros_like(out)        # sum of |summands| per cell: the scale of summation-order rounding (blocks may cancel)
    ncontr = 0
    for c in system.contributions:
        f = getattr(c, meth, None)
        if f is None or not callable(f):
            continue
        if any(k in NEED and not hasattr(c, NEED[k]) for k in (row, col) if k):
            continue
        if not hasattr(c, DOFATTR[row]) or (col and not hasattr(c, DOFATTR[col])):
            continue
        # System only calls compliance methods on contributions that have a residual c, friction methods on those with gamma_F ...
        if meth in ("la_c", "W_c", "c_la_c", "Wla_c_q", "c_q", "c_u") and not callable(getattr(c, "c", None)):
            continue
        if meth in ("W_g", "g_q", "g_dot", "g_ddot", "g_dot_q", "g_dot_u", "Wla_g_q") and not callable(getattr(c, "g", None)):
            continue
        if meth in ("W_F", "Wla_F_q", "gamma_F_dot") and not callable(getattr(c, "gamma_F", None)):
            continue
        if meth in ("W_tau", "Wla_tau_q", "Wla_tau_u") and not callable(getattr(c, "la_tau", None)):
            continue
        val = f(*_args(code, c, t, q, u, ud, lam, False))
        if val is None:
            continue
        val = dense(val)
        r = np.atleast_1d(getattr(c, DOFATTR[row]))
        ncontr += 1
        if is_mat:
            cc = np.atleast_1d(getattr(c, DOFATTR[col]))
            val = np.asarray(val, dtype=float).reshape(len(r), len(cc))
            np.add.at(out, (r[:, None], cc[None, :]), val)
            np.add.at(mass, (r[:, None], cc[None, :]), np.abs(val))
        else:
            np.add.at(out, r, np.asarray(val, dtype=float).reshape(len(r)))
            np.add.at(mass, r, np.abs(np.asarray(val, dtype=float).reshape(len(r))))
    _reference.last_mass = mass
    return out, ncontr


class UserOscillator:
    """a user-written contribution as the documentation invites: two coordinates, linear stiffness / damping written with
    whole-number literals, so that every local matrix it returns has an INTEGER dtype"""

    def __init__(self, K, D, name):
        self.nq, self.nu = 2, 2
        self.q0, self.u0 = np.array([1.0, -2.0]), np.array([0.0, 3.0])
        self.K, self.D, self.name = np.array(K), np.array(D), name

    def q_dot(self, t, q, u):
        return u

    def q_dot_u(self, t, q):
        return np.array([[1, 0], [0, 1]])

    def M(self, t, q):
        return np.array([[2, 0], [0, 3]])

    def h(self, t, q, u):
        return -(self.K @ q) - self.D @ u

    def h_q(self, t, q, u):
        return -self.K

    def h_u(self, t, q, u):
        return -self.D


def _build_random_system(rng, ctx):
    from cardillo import System
    import cardillo.forces as F
    from cardillo.actuators import Motor, PDcontroller, PIDcontroller
    from cardillo.contacts import Sphere2Plane, Sphere2Sphere
    from cardillo.discrete import Frame
    from cardillo.interactions import TwoPointInteraction
    from cardillo.rods.force_line_distributed import Force_line_distributed
    from vlib import rodlite
    t0 = float(rng.normal()) if rng.random() < 0.5 else 0.0
    system = System(t0=t0)
    comp = []
    bodies = []
    nb = int(rng.integers(2, 5))
    for i in range(nb):
        kind = ["rigid_body", "rigid_body", "point_mass"][int(rng.integers(3))]
        b, _, _, _ = gen.make_subsystem(rng, kind, f"b{i}")
        bodies.append((kind, b)); system.add(b); comp.append(kind)
    frames = []
    for i in range(int(rng.integers(0, 3))):
        kind = ["fixed_frame", "moving_frame", "rotating_frame"][int(rng.integers(3))]
        f, _, _, m = gen.make_subsystem(rng, kind, f"f{i}")
        frames.append((kind, f, m)); system.add(f); comp.append(kind)
    if rng.random() < 0.25:
        K_ = rng.integers(-3, 6, size=(2, 2)); D_ = rng.integers(-2, 4, size=(2, 2))
        system.add(UserOscillator(K_ + K_.T, D_, f"user{len(comp)}")); comp.append("user_contribution:integer_matrices")
    rigid = [b for k, b in bodies if k == "rigid_body"]
    rods = []
    if rng.random() < 0.45:
        rod, xi, info = rodlite.simple_rod(rng, name="rod")
        rods.append((rod, xi)); system.add(rod); comp.append(f"rod:{info['interp']}{info['p']}x{info['nel']}")
        if rng.random() < 0.6:
            system.add(Force_line_distributed(rng.normal(size=3), rod)); comp.append("lineload")
        if rigid and rng.random() < 0.7:
            j, _ = gen.make_joint(rng, ["Spherical", "RigidConnection", "Revolute"][int(rng.integers(3))], rigid[0], rod, xi2=xi)
            system.add(j); comp.append("joint:rod")
    # joints between bodies / frames (sharing DOFs)
    for _ in range(int(rng.integers(1, 4))):
        if not rigid:
            break
        a = rigid[int(rng.integers(len(rigid)))]
        others = [b for b in rigid if b is not a] + [f for _, f, _ in frames]
        if not others:
            break
        b = others[int(rng.integers(len(others)))]
        kind = gen.JOINT_KINDS[int(rng.integers(len(gen.JOINT_KINDS)))]
        pair = (a, b) if rng.random() < 0.5 else (b, a)
        j, _ = gen.make_joint(rng, kind, pair[0], pair[1], placement="given" if rng.random() < 0.5 else "default")
        j.name = f"joint{len(comp)}"
        system.add(j); comp.append(f"joint:{kind}")
        if kind == "Revolute" and rng.random() < 0.8:
            c = int(rng.integers(5))
            if c == 0:
                system.add(Motor(j, float(rng.normal())))
            elif c == 1:
                system.add(PDcontroller(j, 2.0, 0.3, lambda t: np.array([np.sin(t), np.cos(t)])))
            elif c == 2:
                system.add(PIDcontroller(j, 2.0, 0.5, 0.3, lambda t: np.array([np.sin(t), np.cos(t)])))
            else:
                law = forcegen.LAWS[int(rng.integers(len(forcegen.LAWS)))]
                e, _ = forcegen.make_law(rng, law, j)
                system.add(e); comp.append(f"law@rev:{law}"); continue
            comp.append(["Motor", "PD", "PID"][c])
    # force laws on two-point interactions
    allb = [b for _, b in bodies] + [f for _, f, _ in frames]
    for _ in range(int(rng.integers(0, 3))):
        if len(bodies) < 1 or len(allb) < 2:
            break
        i, j_ = rng.choice(len(allb), size=2, replace=False)
        a, b = allb[int(i)], allb[int(j_)]
        if not (getattr(a, "nq", 0) or getattr(b, "nq", 0)):
            continue
        tpi = TwoPointInteraction(a, b, B_r_CP1=rng.normal(size=3) * hasattr(a, "B_Theta_C"), B_r_CP2=rng.normal(size=3) * hasattr(b, "B_Theta_C"))
        tpi.name = f"tpi{len(comp)}"
        law = forcegen.LAWS[int(rng.integers(len(forcegen.LAWS)))]
        e, _ = forcegen.make_law(rng, law, tpi)
        e.name = f"law{len(comp)}"
        if rng.random() < 0.5:
            system.add(tpi)
        system.add(e); comp.append(f"law@tpi:{law}")
    # a force law between two points of ONE rigid body (its DOF array lists the body's coordinates twice)
    if rigid and rng.random() < 0.2:
        a = rigid[int(rng.integers(len(rigid)))]
        tpi = TwoPointInteraction(a, a, B_r_CP1=rng.normal(size=3), B_r_CP2=rng.normal(size=3))
        tpi.name = f"tpi_same{len(comp)}"
        law = ["Spring:force", "KelvinVoigt:force", "Spring:compliance"][int(rng.integers(3))]
        e, _ = forcegen.make_law(rng, law, tpi)
        e.name = f"law_same{len(comp)}"
        system.add(tpi, e); comp.append(f"law@tpi_same_body:{law}")
    # external forces / moments
    for _ in range(int(rng.integers(0, 3))):
        kb, b = bodies[int(rng.integers(len(bodies)))]
        if kb == "rigid_body":
            cls = [F.Force, F.B_Force, F.Moment, F.B_Moment][int(rng.integers(4))]
        else:
            cls = F.Force
        e = cls(rng.normal(size=3), b) if cls in (F.Moment, F.B_Moment) else cls(rng.normal(size=3), b, B_r_CP=rng.normal(size=3) * (kb == "rigid_body"))
        e.name = f"ext{len(comp)}"
        system.add(e); comp.append(cls.__name__)
    # contacts
    if rng.random() < 0.6:
        kb, b = bodies[int(rng.integers(len(bodies)))]
        m = gen.Motion(rng, moving=rng.random() < 0.5, rotating=False)
        pl = m.frame(Frame, name=f"plane{len(comp)}")
        mu = 0.0 if rng.random() < 0.3 else float(rng.uniform(0.1, 1))
        c = Sphere2Plane(pl, b, mu, r=float(rng.uniform(0, 1)), e_N=0.3, e_F=0.0, name=f"s2p{len(comp)}")
        system.add(pl, c); comp.append(f"Sphere2Plane:mu{'>0' if mu else '=0'}")
    if rng.random() < 0.5 and len(bodies) >= 2:
        (ka, a), (kb, b) = bodies[0], bodies[1]
        d = np.linalg.norm(a.q0[:3] - b.q0[:3])
        if d > 0.3:
            mu = 0.0 if rng.random() < 0.3 else float(rng.uniform(0.1, 1))
            c = Sphere2Sphere(a, b, 0.1 * d, 0.1 * d, mu, e_N=0.2, e_F=0.0, name=f"s2s{len(comp)}")
            system.add(c); comp.append(f"Sphere2Sphere:mu{'>0' if mu else '=0'}")
    return system, comp


FORMATS = ["coo", "csr", "csc", "array"]


def _evaluate_all(system, t, q, u, ud, lam):
    out = {}
    for name, spec in VEC.items():
        try:
            out[name] = np.asarray(getattr(system, name)(*_args(spec[0], None, t, q, u, ud, lam, True)), dtype=float)
        except NotImplementedError:
            out[name] = "NotImplementedError"
    import inspect
    for name, spec in MAT.items():
        try:
            f = getattr(system, name)
            kw = {}
            if FORMATS is not None and "format" in inspect.signature(f).parameters:
                # every documented output format must describe the same matrix
                kw["format"] = FORMATS[(sum(map(ord, name)) + int(abs(float(t)) * 1000)) % len(FORMATS)]
            out[name] = dense(f(*_args(spec[0], None, t, q, u, ud, lam, True), **kw))
        except NotImplementedError:
            out[name] = "NotImplementedError"
    out["E_pot"] = np.array([float(system.E_pot(t, q))])
    return out


def run_scatter(spec, ctx):
    rng = ctx.rng
    with gen.quiet():
        system, comp = _build_random_system(rng, ctx)
        if rng.random() < 0.35:
            # some bodies / rods are taken out and added again (a replaced part): they now FOLLOW the forces, laws, joints and
            # contacts acting on them in the contribution list - a sum of contributions does not depend on the order
            movable = [c for c in system.contributions if getattr(c, "nu", 0) and c is not system.origin]
            moved = [c for c in movable if rng.random() < 0.6]
            for c in moved:
                system.remove(c); system.add(c)
            if moved:
                ctx.cls("order:bodies_follow_their_forces")
                comp = comp + [f"moved_to_end:{len(moved)}"]
        try:
            system.assemble(options=gen.no_cic_options())
        except Exception as e:
            ctx.mon("scatter.compare")
            ctx.violation("System.assemble", "random system fails to assemble", {"composition": comp, "error": f"{type(e).__name__}: {e}"[:300]})
            ctx.sig([comp, "assemble-failed"], nontrivial=True)
            return
        S = system
        for c in comp:
            ctx.cls("contr:" + c.split(":")[0])
        # ---- index sets partition the global ranges
        ctx.mon("partition")
        for attr, size in (("my_qDOF", "nq"), ("my_uDOF", "nu"), ("la_gDOF", "nla_g"), ("la_cDOF", "nla_c"), ("la_SDOF", "nla_S"),
                           ("la_NDOF", "nla_N"), ("la_FDOF", "nla_F"), ("la_tauDOF", "nla_tau"), ("la_gammaDOF", "nla_gamma")):
            idx = np.concatenate([np.atleast_1d(getattr(c, attr)) for c in S.contributions if hasattr(c, attr)] + [np.zeros(0, dtype=int)])
            n = getattr(S, size)
            if sorted(idx.tolist()) != list(range(n)):
                ctx.violation("System.assemble", f"per-contribution index sets do not partition the global range", {"attribute": attr, "indices": idx, "size": n, "composition": comp})
        shared = False
        seen = set()
        for c in S.contributions:
            if hasattr(c, "uDOF") and not hasattr(c, "nu"):
                if seen & set(np.atleast_1d(c.uDOF).tolist()):
                    shared = True
                seen |= set(np.atleast_1d(c.uDOF).tolist())
        # ---- dense reference assembly at random states
        snapshots = []
        for k in range(2):
            S.reset()
            t = S.t0 + float(rng.normal())
            q, u, ud, _ = gen.random_system_state(rng, S, perturb=0.3)
            lam = {"la_g": rng.normal(size=S.nla_g), "la_c": rng.normal(size=S.nla_c), "la_N": rng.normal(size=S.nla_N), "la_F": rng.normal(size=S.nla_F)}
            try:
                got = _evaluate_all(S, t, q, u, ud, lam)
            except Exception as e:
                ctx.violation("System", "evaluation of an assembled system raises", {"composition": comp, "error": f"{type(e).__name__}: {e}"[:300]})
                break
            for name in list(VEC) + list(MAT):
                if isinstance(got[name], str):
                    ctx.count("declared_unimplemented:" + name)
                    continue
                spec_ = VEC.get(name) or MAT[name]
                try:
                    S.reset()
                    ref, nc = _reference(S, name, spec_, t, q, u, ud, lam, name in MAT)
                except NotImplementedError:
                    continue
                ctx.mon("scatter.compare")
                if nc:
                    ctx.cls(f"method:{name}")
                g = np.asarray(got[name], dtype=float)
                if g.shape != ref.shape or np.any(np.abs(g - ref) > 1e-12 * (1 + np.abs(ref).max(initial=0.0)) + 64 * np.finfo(float).eps * _reference.last_mass):
                    ctx.violation(f"System.{name}", "system-level quantity differs from the dense scatter-sum of its contributions",
                                  {"composition": comp, "max_abs_err": float(np.abs(g - ref).max(initial=0.0)) if g.shape == ref.shape else "shape",
                                   "shape": list(g.shape), "ref_shape": list(ref.shape), "contributors": nc})
            snapshots.append((t, q, u, ud, lam, got))
        # ---- coexistence: another system is built, assembled and evaluated, and a deep copy of this one is evaluated at another
        # state, between two evaluations of this system at the same state (contributions must keep their layout and data in the
        # instance, not in a class or module)
        if snapshots:
            ctx.mon("coexistence")
            t, q, u, ud, lam, got = snapshots[-1]
            try:
                other, comp_b = _build_random_system(rng, ctx)
                other.assemble(options=gen.no_cic_options())
                qb, ub, udb, _ = gen.random_system_state(rng, other, perturb=0.3)
                lamb = {"la_g": rng.normal(size=other.nla_g), "la_c": rng.normal(size=other.nla_c), "la_N": rng.normal(size=other.nla_N), "la_F": rng.normal(size=other.nla_F)}
                _evaluate_all(other, other.t0 + 0.3, qb, ub, udb, lamb)
                twin = S.deepcopy()
                got_twin = _evaluate_all(twin, t, q, u, ud, lam)
                q2, u2, ud2, _ = gen.random_system_state(rng, twin, perturb=0.3)
                _evaluate_all(twin, t + 0.7, q2, u2, ud2, lam)
                again = _evaluate_all(S, t, q, u, ud, lam)
            except Exception as e:
                ctx.violation("System", "evaluation raises while another system / a deep copy is alive", {"composition": comp, "error": f"{type(e).__name__}: {e}"[:300]})
            else:
                for name in got:
                    for who, b in (("the system after another system and a deep copy were used", again[name]), ("a deep copy at the same state", got_twin[name])):
                        a = got[name]
                        if isinstance(a, str) or isinstance(b, str):
                            continue
                        if a.shape != b.shape or np.abs(a - b).max(initial=0.0) > 1e-12 * (1 + np.abs(a).max(initial=0.0)):
                            ctx.violation(f"System.{name}", "evaluation differs between the system and " + who, {"composition": comp, "other_composition": comp_b, "method": name})
        # ---- re-assembly leaves layout and evaluations unchanged
        ctx.mon("reassemble")
        layout0 = {c.name: {a: np.atleast_1d(getattr(c, a)).tolist() for a in ("qDOF", "uDOF", "my_qDOF", "my_uDOF", "la_gDOF", "la_cDOF", "la_NDOF", "la_FDOF", "la_SDOF", "la_tauDOF") if hasattr(c, a)}
                   for c in S.contributions}
        dims0 = [S.nq, S.nu, S.nla_g, S.nla_c, S.nla_N, S.nla_F, S.nla_S, S.nla_tau]
        try:
            S.assemble(options=gen.no_cic_options())
        except Exception as e:
            ctx.violation("System.assemble", "second assemble() of an unchanged system raises", {"composition": comp, "error": f"{type(e).__name__}: {e}"[:300]})
        else:
            layout1 = {c.name: {a: np.atleast_1d(getattr(c, a)).tolist() for a in layout0[c.name]} for c in S.contributions}
            dims1 = [S.nq, S.nu, S.nla_g, S.nla_c, S.nla_N, S.nla_F, S.nla_S, S.nla_tau]
            if layout0 != layout1 or dims0 != dims1:
                ctx.violation("System.assemble", "second assemble() changes the layout", {"composition": comp, "dims_before": dims0, "dims_after": dims1})
            else:
                for t, q, u, ud, lam, got in snapshots[:1]:
                    S.reset()
                    try:
                        again = _evaluate_all(S, t, q, u, ud, lam)
                    except Exception as e:
                        ctx.violation("System", "evaluation after a second assemble() raises", {"composition": comp, "error": f"{type(e).__name__}: {e}"[:300]})
                        break
                    for name in got:
                        a, b = got[name], again[name]
                        if isinstance(a, str) or isinstance(b, str):
                            continue
                        if a.shape != b.shape or np.abs(a - b).max(initial=0.0) > 1e-12 * (1 + np.abs(a).max(initial=0.0)):
                            ctx.violation(f"System.{name}", "evaluation changes after a second assemble()", {"composition": comp, "method": name})
        # ---- composition changes between assemblies: the scatter must follow the CURRENT contributions
        _recompose(ctx, S, comp, rng)
    ctx.sig(["scatter", comp, S.q0.tolist()[:8]], nontrivial=shared)
    ctx.sample({"kind": "scatter", "composition": comp, "nq": S.nq, "nu": S.nu, "nla_g": S.nla_g, "nla_c": S.nla_c, "nla_N": S.nla_N})


def _compare_stage(ctx, S, comp, rng, stage):
    """dense reference assembly of every system-level quantity at one random state; stage names the history so far"""
    S.reset()
    t = S.t0 + float(rng.normal())
    q, u, ud, _ = gen.random_system_state(rng, S, perturb=0.3)
    lam = {"la_g": rng.normal(size=S.nla_g), "la_c": rng.normal(size=S.nla_c), "la_N": rng.normal(size=S.nla_N), "la_F": rng.normal(size=S.nla_F)}
    try:
        got = _evaluate_all(S, t, q, u, ud, lam)
    except Exception as e:
        ctx.violation("System", "evaluation of a re-composed and re-assembled system raises", {"composition": comp, "stage": stage, "error": f"{type(e).__name__}: {e}"[:300]})
        return
    for name in list(VEC) + list(MAT):
        if isinstance(got[name], str):
            continue
        spec_ = VEC.get(name) or MAT[name]
        try:
            S.reset()
            ref, nc = _reference(S, name, spec_, t, q, u, ud, lam, name in MAT)
        except NotImplementedError:
            continue
        ctx.mon("recompose.compare")
        g = np.asarray(got[name], dtype=float)
        if g.shape != ref.shape or np.any(np.abs(g - ref) > 1e-12 * (1 + np.abs(ref).max(initial=0.0)) + 64 * np.finfo(float).eps * _reference.last_mass):
            ctx.violation(f"System.{name}", "after a change of the composition and a new assemble() the system-level quantity differs from the dense scatter-sum of the current contributions",
                          {"composition": comp, "stage": stage, "max_abs_err": float(np.abs(g - ref).max(initial=0.0)) if g.shape == ref.shape else "shape",
                           "shape": list(g.shape), "ref_shape": list(ref.shape)})


def _recompose(ctx, S, comp, rng):
    """history: add a free body / swap it for a different one of the same size / add, swap and remove a compliance-form spring /
    move a body to the end - each followed by assemble() and the dense comparison"""
    from cardillo.discrete import RigidBody, PointMass
    from cardillo.interactions import TwoPointInteraction
    from cardillo.force_laws import Spring

    def body(name, rigid=True):
        if rigid:
            q0, u0, _, _ = gen.rigid_body_state(rng, unit=True)
            return RigidBody(float(loguniform(rng, 0.1, 1e3)), gen.random_spd(rng) * float(loguniform(rng, 0.1, 1e3)), q0=q0, u0=u0, name=name)
        return PointMass(float(loguniform(rng, 0.1, 1e3)), q0=rng.normal(size=3), u0=rng.normal(size=3), name=name)

    def step(stage, fn):
        ctx.cls(f"recompose:{stage.split(':')[0]}")
        try:
            fn()
            S.assemble(options=gen.no_cic_options())
        except Exception as e:
            ctx.mon("recompose.compare")
            ctx.violation("System.assemble", "valid change of the composition followed by assemble() raises", {"composition": comp, "stage": stage, "error": f"{type(e).__name__}: {e}"[:300]})
            return False
        _compare_stage(ctx, S, comp, rng, stage)
        return True

    rigid = bool(rng.random() < 0.7)
    A, B, C = body("extraA", rigid), body("extraB", rigid), body("extraC", not rigid)
    if not step("add_body", lambda: S.add(A)):
        return
    if not step("swap_body_same_size", lambda: (S.remove(A), S.add(B))):
        return
    k1, k2 = float(loguniform(rng, 1, 1e3)), float(loguniform(rng, 1, 1e3))
    sp1 = Spring(TwoPointInteraction(S.origin, B), k1, l_ref=1.0, compliance_form=True, name="extra_spring1")
    sp2 = Spring(TwoPointInteraction(S.origin, B), k2, l_ref=0.5, compliance_form=True, name="extra_spring2")
    if not step("add_compliance_spring", lambda: S.add(sp1.subsystem, sp1)):
        return
    if not step("swap_compliance_spring", lambda: (S.remove(sp1), S.remove(sp1.subsystem), S.add(sp2.subsystem, sp2))):
        return
    if not step("add_other_body", lambda: S.add(C)):
        return
    if not step("move_body_to_end", lambda: (S.remove(sp2), S.remove(sp2.subsystem), S.remove(B), S.add(B))):
        return
    step("remove_bodies", lambda: (S.remove(B), S.remove(C)))


class _Dummy:
    """minimal contribution (no coordinates)"""

    def __init__(self, name=None):
        if name is not None:
            self.name = name


def run_actuators(spec, ctx):
    """several actuators with a control vector set through System.set_tau, whole-number initial coordinates, and a joint that
    is removed and added again between two assemblies: the control vector, the actuator forces and the contact / constraint
    residuals are the contributions' own quantities placed at the contributions' CURRENT degrees of freedom"""
    from cardillo import System
    from cardillo.discrete import RigidBody, PointMass
    from cardillo.constraints import Revolute, FixedDistance
    from cardillo.actuators import Motor, PDcontroller
    from cardillo.contacts import Sphere2Plane
    rng = ctx.rng
    with gen.quiet():
        S = System()
        nb = int(rng.integers(2, 5))
        bodies, joints, acts = [], [], []
        for i in range(nb):
            qi = np.array([2 * i, 0, 0, 1, 0, 0, 0])                  # whole numbers, integer dtype
            b = RigidBody(1.0 + i, np.diag([1.0, 2.0, 3.0]), q0=qi if rng.random() < 0.7 else qi.astype(float), name=f"b{i}")
            j = Revolute(S.origin if i == 0 else bodies[-1], b, int(rng.integers(3)), r_OJ0=np.array([2.0 * i - 1, 0, 0]), name=f"j{i}")
            a = Motor(j, 0.0) if rng.random() < 0.6 else PDcontroller(j, 2.0, 0.5, np.zeros(2))
            a.name = f"act{i}"
            bodies.append(b); joints.append(j); acts.append(a)
        pm = PointMass(1.0, q0=[0, 3, 1], u0=[0, 0, 0], name="pm")                # a ball 1 above the ground, radius 1/2
        con = Sphere2Plane(S.origin, pm, mu=0.0, r=0.5, e_N=0.0, name="ball_on_ground")
        order = list(rng.permutation(nb))
        S.add(*bodies, pm, con)
        for i in order:
            S.add(joints[i], acts[i])
        ctx.mon("actuators.assemble")
        try:
            S.assemble(options=gen.no_cic_options())
            if rng.random() < 0.6:
                k = int(rng.integers(nb))
                S.remove(joints[k]); S.add(joints[k])                 # the joint now FOLLOWS its actuator in the contribution list
                if rng.random() < 0.5:
                    S.remove(bodies[0]); S.add(bodies[0])
                S.assemble(options=gen.no_cic_options())
                ctx.cls("actuators:joint_readded_after_its_actuator")
        except Exception as e:
            ctx.violation("System.assemble", "system with several actuators fails to assemble", {"error": f"{type(e).__name__}: {e}"[:300]})
            ctx.sig(["actuators", "failed"], nontrivial=True); return
        det = {"bodies": nb, "actuators": [a.__class__.__name__ for a in acts]}
        # ---- layout: an actuator acts on the coordinates of ITS joint
        ctx.mon("actuators.layout")
        for a, j in zip(acts, joints):
            if list(a.uDOF) != list(j.uDOF) or list(a.qDOF[-len(j.qDOF):]) != list(j.qDOF):
                ctx.violation("System.assemble", "actuator is assembled at other degrees of freedom than its joint", {**det, "actuator": a.name, "actuator_uDOF": a.uDOF, "joint_uDOF": j.uDOF})
        # ---- control vector
        ctx.mon("actuators.tau")
        vals = rng.normal(size=S.ntau)
        tt = float(rng.normal())
        for how in ("array", "callable"):
            S.set_tau(vals.copy() if how == "array" else (lambda t, v=vals: v * (1 + t)))
            want = vals if how == "array" else vals * (1 + tt)
            got = np.asarray(S.tau(tt), dtype=float)
            per = {a.name: np.asarray(a.tau(tt), dtype=float).reshape(-1) for a in acts}
            bad = got.shape != want.shape or np.abs(got - want).max() > 1e-14 or any(np.abs(per[a.name] - want[a.tauDOF]).max() > 1e-14 for a in acts)
            if bad:
                ctx.violation("System.set_tau", "after set_tau the contributions do not read their own slice of the control vector", {**det, "how": how, "set": want, "System.tau": got, "per_actuator": per})
        # ---- whole-number initial coordinates: system quantities are the contributions' quantities
        ctx.mon("actuators.integer_q0")
        q0, t0 = S.q0, S.t0
        gN_sys, gN_con = np.asarray(S.g_N(t0, q0), dtype=float), np.asarray(con.g_N(t0, q0[con.qDOF]), dtype=float)
        g_sys = np.asarray(S.g(t0, q0), dtype=float)
        g_con = np.concatenate([np.asarray(j.g(t0, q0[j.qDOF]), dtype=float) for j in sorted(joints, key=lambda j_: j_.la_gDOF[0])])
        if np.abs(gN_sys[con.la_NDOF] - gN_con).max() > 1e-14 or np.abs(g_sys - g_con).max() > 1e-12 or np.asarray(q0).dtype.kind != "f":
            ctx.violation("System.g_N", "system residuals at the assembled initial state differ from the contributions' own (whole-number initial coordinates)",
                          {**det, "System.g_N": gN_sys, "contact.g_N": gN_con, "System.g": g_sys, "joints.g": g_con, "q0_dtype": str(np.asarray(q0).dtype)})
    ctx.cls("kind:actuators")
    ctx.sig(["actuators", det, vals.tolist()], nontrivial=True)
    ctx.sample({"kind": "actuators", **det})


def run_registry(spec, ctx):
    from cardillo import System
    from cardillo.discrete import PointMass
    rng = ctx.rng
    pool = ["a", "b", "a_contr3", "a_contr4", "contr2", "contr3", "b_contr2", None, None, None,
            "contr4", "contr5", "contr6", "contr7", "contr8", "contr9"]          # (names of the automatic form contr<N> given by the user)
    hists = []
    nontrivial = False
    for _ in range(spec["batch"]):
        with gen.quiet():
            S = System()
            model = list(S.contributions)     # executable model: the ordered list of live contributions
            hist = []
            removed_names = set()
            nops = int(rng.integers(5, 61))
            for step in range(nops):
                op = ["add", "add", "add", "remove", "pop", "extend", "assemble", "add_same"][int(rng.integers(8))]
                det = {"op": op}
                try:
                    if op in ("add", "extend"):
                        k = 1 if op == "add" else int(rng.integers(1, 4))
                        new = []
                        for _j in range(k):
                            nm = pool[int(rng.integers(len(pool)))]
                            c = PointMass(1.0, name=nm) if (nm is not None and rng.random() < 0.5) else _Dummy(nm)
                            if nm is None and isinstance(c, _Dummy) is False:
                                pass
                            new.append(c)
                        det["names"] = [getattr(c, "name", None) for c in new]
                        if any(n in removed_names for n in det["names"] if n):
                            nontrivial = True
                        (S.add(*new) if op == "add" else S.extend(new))
                        model.extend(new)
                    elif op == "add_same" and len(model) > 1:
                        c = model[int(rng.integers(1, len(model)))]
                        det["name"] = c.name
                        try:
                            S.add(c)
                        except ValueError:
                            pass   # documented: adding the same object twice raises
                        else:
                            ctx.violation("System.add", "adding a contribution that is already part of the system is accepted", {"history": hist[-8:] + [det]})
                    elif op == "remove" and len(model) > 1:
                        c = model[int(rng.integers(1, len(model)))]
                        det["name"] = c.name
                        removed_names.add(c.name)
                        S.remove(c)
                        model.remove(c)
                    elif op == "pop" and len(model) > 1:
                        i = int(rng.integers(1, len(model)))
                        det["index"] = i
                        removed_names.add(model[i].name)
                        S.pop(i)
                        model.pop(i)
                    elif op == "assemble":
                        S.assemble(options=gen.no_cic_options())
                except Exception as e:
                    ctx.violation(f"System.{op}", "registry operation raises", {"history": hist[-8:] + [det], "error": f"{type(e).__name__}: {e}"[:300]})
                    break
                hist.append(det)
                ctx.mon("registry.step")
                ctx.cls(f"op:{op}")
                # ---- invariant of the model
                names = [getattr(c, "name", None) for c in S.contributions]
                problems = []
                if [id(c) for c in S.contributions] != [id(c) for c in model]:
                    problems.append("contribution list differs from the model")
                if any(n is None for n in names):
                    problems.append("contribution without a name")
                if len(set(names)) != len(names):
                    problems.append("duplicate names")
                if set(S.contributions_map.keys()) != set(names) or any(S.contributions_map.get(c.name) is not c for c in S.contributions):
                    problems.append("contributions_map does not map exactly the current contributions")
                if problems:
                    ctx.violation("System.contributions_map", "name registry inconsistent after add/remove history: " + "; ".join(problems),
                                  {"history": hist[-10:], "names": names, "map_keys": sorted(S.contributions_map.keys())},
                                  key=None)
                    break
            hists.append([h for h in hist])
    ctx.sig(["registry", hists], nontrivial=nontrivial)
    ctx.sample({"kind": "registry", "first_history": hists[0][:12] if hists else None})


def run_case(spec, ctx):
    env.import_cardillo()
    if spec["kind"] == "actuators":
        return run_actuators(spec, ctx)
    if spec["kind"] == "scatter":
        run_scatter(spec, ctx)
    else:
        run_registry(spec, ctx)
