"""C22 Nonlinear and fixed-point helpers honour their convergence contract.

Monitors (all on the real functions of /repo, user callbacks wrapped by a
tracing wrapper that records every (input, output) evaluation):

* ``cardillo.math.fsolve.fsolve``: after the call the harness re-evaluates the
  criterion the function claims, ``rms(f(x) / (atol + rtol*|f(x0)|)) < 1`` at the
  returned ``x``; ``success=True`` needs the criterion, ``success=False`` needs
  an emitted warning (other than the approx_fprime performance notice), and
  ``res.fun`` must be ``f(res.x)``.
* ``fixed_point_iteration`` / ``fixed_point_iteration_with_momentum`` of
  ``cardillo.solver.dual_stormer_verlet``: the maps are generated with a KNOWN
  Lipschitz constant L <= 1/2 in the 2-norm, so for a helper that returns the
  image x* = F(y) of a pair (y, F(y)) that meets the increment criterion
  ``rms((F(y)-y)/s) < 1, s = atol + rtol*max(|y|,|F(y)|)`` the residual at the
  returned point satisfies  T(x*) = rms((F(x*)-x*)/s') < L*max(s)/min(s')  (a
  theorem, see `_fp_check`).  A returned point with T(x*) >= max(1, that bound)
  does not meet the tolerance the helper was given; raising is allowed.
* ``cardillo.math.approx_fprime.approx_fprime``: compared with exact
  derivatives of analytic functions (vector/matrix valued, scalar/vector/matrix
  arguments) with a tolerance derived from the truncation order of the method
  and the rounding of the function evaluation.
"""

import io
import warnings
import contextlib

import numpy as np

from vlib import env

ID = "C22"
LEVEL = "exploration"
RULE = ("one case = a seeded batch of problems for one helper (fsolve: smooth systems n=1..8, well/ill conditioned, with/without "
        "root, exact / 2-point / 3-point / cs / chord (inexact) / reused-SuperLU Jacobians, atol,rtol in 1e-12..1e-2, "
        "newton_max_iter 1..50; fixed-point helpers: maps with known Lipschitz constant L<=1/2 (SPD linear, scaled "
        "orthogonal, Q*tanh, Q*sin), n=1..8, tolerances 1e-12..1e-2, max_iter 1..200; approx_fprime: analytic "
        "functions with exact derivatives); distinct = distinct batch content hash; non-trivial = at least one problem of the "
        "batch needed more than one evaluation / iteration (helpers) or was decided (approx_fprime)")
ASSUMPTIONS = [
    "fsolve criterion re-evaluated with the harness' own evaluation of the raw user function at res.x and x0 "
    "(deterministic functions; relative slack 1e-12)",
    "fixed-point maps have Lipschitz constant <= L in the Euclidean norm by construction (orthogonal factors from QR, "
    "1-Lipschitz scalar nonlinearities); bound on the residual at the returned point: max(1, L*max(s)/min(s'))*(1+1e-9)",
    "'meets the tolerance' for a returned point x*: rms((F(x*)-x*)/(atol+rtol*max(|x*|,|F(x*)|))) < 1 (the more lenient "
    "of the two natural scalings)",
    "approx_fprime tolerance: 10*(truncation bound from analytic derivative bounds + rounding bound of the "
    "function evaluation / step) ; steps 1e-9..1e-3 (finite differences), 1e-100..1e-5 (complex step)",
    "any exception raised by a fixed-point helper counts as 'raise' (allowed by the property)",
]
REQUIRED_MONITORS = ["fsolve.criterion", "fsolve.fun", "fsolve.warning", "fpi.returned", "fpm.returned", "approx_fprime"]
CASE_TIMEOUT = 120
WALL_BUDGET = {"quick": 300, "thorough": 1500}

KEY_FPI = "fixed_point_iteration/scale-overwritten-by-one"
KEY_FPM = "fixed_point_iteration_with_momentum/returns-previous-iterate"

KINDS = ["fsolve", "fpi", "fpm", "fprime"]
U = 2.220446049250313e-16


def cases(tier, seed):
    n = {"quick": 1000, "thorough": 20000}[tier]
    out = [{"kind": "fpi_directed"}, {"kind": "fpm_directed"}, {"kind": "fsolve_directed"}]
    i = 0
    while len(out) < n:
        out.append({"kind": KINDS[i % 4], "batch": {"fsolve": 5, "fpi": 8, "fpm": 8, "fprime": 6}[KINDS[i % 4]]})
        i += 1
    return out


# ---------------------------------------------------------------------------
# helpers
# ---------------------------------------------------------------------------
def _lu(rng, lo, hi):
    return float(np.exp(rng.uniform(np.log(lo), np.log(hi))))


def _orth(rng, n):
    Q, R = np.linalg.qr(rng.normal(size=(n, n)))
    return Q * np.sign(np.diag(R))


class Trace:
    """tracing wrapper around a user callback: records every (input, output)"""

    def __init__(self, f):
        self.f = f
        self.calls = []

    def __call__(self, x, *args):
        xin = np.array(x, copy=True)
        y = self.f(x, *args)
        self.calls.append((xin, np.array(y, copy=True)))
        return y


def _tol(rng):
    r = rng.random()
    if r < 0.1:
        return 1e-12
    if r < 0.2:
        return 1e-2
    return _lu(rng, 1e-12, 1e-2)


def _max_iter(rng, big=False):
    r = rng.random()
    if r < 0.2:
        return int(rng.integers(1, 4))
    if big and r > 0.75:
        return int(rng.integers(51, 201))
    return int(rng.integers(1, 51))


# ---------------------------------------------------------------------------
# fsolve
# ---------------------------------------------------------------------------
def _matrix(rng, n, cond):
    s = np.exp(rng.uniform(0, np.log(cond), size=n))
    s[0], s[-1] = 1.0, cond
    if n == 1:
        s[:] = 1.0
    s *= _lu(rng, 1e-2, 1e2) / np.sqrt(cond)
    return (_orth(rng, n) * s) @ _orth(rng, n).T


def _fsolve_problem(rng):
    """returns desc(dict), f(x, *args), jac(x, *args) dense, x0, fun_args"""
    n = int(rng.integers(1, 9))
    fam = ["lin+tanh", "sin", "cubic", "exp", "noroot", "linear", "logdomain"][int(rng.choice(7, p=[0.22, 0.18, 0.18, 0.13, 0.1, 0.1, 0.09]))]
    r = rng.random()
    cond = 1.0 + rng.random() * 10 if r < 0.5 else (_lu(rng, 1e1, 1e6) if r < 0.75 else _lu(rng, 1e6, 1e13))
    A = _matrix(rng, n, cond)
    c = rng.normal(size=n) * _lu(rng, 1e-2, 1e2)
    kap = float(rng.normal()) * _lu(rng, 1e-3, 1e1)
    B = rng.normal(size=(n, n)) / np.sqrt(n)
    eps0 = _lu(rng, 1e-6, 1e2)
    if fam == "lin+tanh":
        f = lambda x, c=c: A @ (x - c) + kap * np.tanh(x - c)
        J = lambda x, c=c: A + kap * np.diag(1.0 - np.tanh(x - c) ** 2)
    elif fam == "sin":
        f = lambda x, c=c: A @ (x - c) + kap * np.sin(B @ x)
        J = lambda x, c=c: A + kap * np.cos(B @ x)[:, None] * B
    elif fam == "cubic":
        f = lambda x, c=c: A @ (x - c) + kap * (x - c) ** 3
        J = lambda x, c=c: A + 3 * kap * np.diag((x - c) ** 2)
    elif fam == "exp":
        f = lambda x, c=c: A @ (x - c) + kap * (np.exp(0.3 * (x - c)) - 1.0)
        J = lambda x, c=c: A + 0.3 * kap * np.diag(np.exp(0.3 * (x - c)))
    elif fam == "logdomain":
        # f = log(x) - c componentwise (root exp(c)); started above e*root the first Newton step leaves the domain and the
        # residual becomes NaN - a failed solve that must neither be reported as success nor stay without a warning
        f = lambda x, c=c: np.log(x) - c
        J = lambda x, c=c: np.diag(1.0 / x)
    elif fam == "noroot":
        f = lambda x, c=c: (x - c) ** 2 + eps0
        J = lambda x, c=c: 2.0 * np.diag(x - c)
    else:
        f = lambda x, c=c: A @ (x - c)
        J = lambda x, c=c: A + 0.0 * x[0]
    dist = [0.0, _lu(rng, 1e-10, 1e-4), _lu(rng, 1e-3, 1e-1), _lu(rng, 0.1, 10.0)][int(rng.choice(4, p=[0.03, 0.17, 0.4, 0.4]))]
    d = rng.normal(size=n)
    x0 = c + dist * d / np.linalg.norm(d)
    if fam == "logdomain":
        c = np.clip(c, -3, 3)
        x0 = np.exp(c) * (np.exp(rng.uniform(1.2, 3.0, size=n)) if rng.random() < 0.7 else np.exp(rng.uniform(-0.5, 0.5, size=n)))
        f = lambda x, c=c: np.log(x) - c
    desc = {"family": fam, "n": n, "cond_A": cond, "A": A, "c": c, "kappa": kap, "B": B if fam == "sin" else None,
            "eps0": eps0 if fam == "noroot" else None, "x0": x0, "dist_x0": dist}
    return desc, f, J, x0


def _run_fsolve(ctx, rng, problem=None, forced=None):
    from cardillo.math.fsolve import fsolve, lu_solve
    from cardillo.solver import SolverOptions
    from scipy.sparse import csc_array
    from scipy.sparse.linalg import splu

    desc, f, J, x0 = problem if problem is not None else _fsolve_problem(rng)
    n = len(x0)
    forced = dict(forced or {})
    mode = forced.get("mode") or ["exact", "2-point", "3-point", "cs", "inexact", "superlu", "superlu-stale"][
        int(rng.choice(7, p=[0.25, 0.12, 0.12, 0.12, 0.15, 0.12, 0.12]))]
    atol, rtol = forced.get("atol", _tol(rng)), forced.get("rtol", _tol(rng))
    max_iter = forced.get("max_iter", _max_iter(rng))
    use_args = forced.get("use_args", rng.random() < 0.3)
    opt = dict(newton_atol=atol, newton_rtol=rtol, newton_max_iter=max_iter)
    if mode in ("2-point", "3-point", "cs"):
        opt["numerical_jacobian_method"] = mode
        opt["numerical_jacobian_eps"] = _lu(rng, 1e-9, 1e-5) if mode != "cs" else _lu(rng, 1e-30, 1e-6)
    if rng.random() < 0.2:
        opt["linear_solver"] = lu_solve
    options = SolverOptions(**opt)
    tr = Trace(f)
    jcalls = [0]

    def jac(x, *args):
        jcalls[0] += 1
        return csc_array(J(x, *args))

    kwargs = {}
    try:
        if mode == "exact":
            kwargs["jac"] = jac
        elif mode in ("2-point", "3-point", "cs"):
            if rng.random() < 0.5:
                kwargs["jac"] = jac  # ignored by fsolve when a numerical method is selected
        elif mode == "inexact":
            kwargs["jac"] = jac
            kwargs["inexact"] = True
        elif mode == "superlu":
            kwargs["jac"] = splu(csc_array(J(x0, *((desc["c"],) if use_args else ()))))
        else:  # LU of a nearby (stale) point
            xs = x0 + rng.normal(size=n) * _lu(rng, 1e-4, 1e-1)
            kwargs["jac"] = splu(csc_array(J(xs, *((desc["c"],) if use_args else ()))))
    except Exception as e:  # singular factorisation in the harness' own set-up: not a case
        ctx.cls("fsolve:setup-failed(singular LU)")
        return None
    if use_args:
        kwargs["fun_args"] = (desc["c"],) if rng.random() < 0.5 else desc["c"]
        if n == 1 and not isinstance(kwargs["fun_args"], tuple):
            kwargs["fun_args"] = (desc["c"],)
    fargs = (desc["c"],) if use_args else ()

    x0_in = x0.copy()
    raised = None
    with warnings.catch_warnings(record=True) as wlog:
        warnings.simplefilter("always")
        try:
            res = fsolve(tr, x0_in, options=options, **kwargs)
        except Exception as e:
            raised = e
    ctx.cls(f"fsolve:jac={mode}")
    ctx.cls(f"fsolve:family={desc['family']}")
    ctx.cls("fsolve:cond<1e2" if desc["cond_A"] < 1e2 else ("fsolve:cond<1e6" if desc["cond_A"] < 1e6 else "fsolve:cond>=1e6"))
    witness = {"problem": desc, "jacobian_mode": mode, "atol": atol, "rtol": rtol, "newton_max_iter": max_iter,
               "fun_args_used": use_args, "options": {k: (v if not callable(v) else v.__name__) for k, v in opt.items()}}
    if raised is not None:
        if isinstance(raised, ValueError) and "0D input" in str(raised) and n == 1:
            # side observation (not judged by C22): scalar systems with a numerical Jacobian crash because
            # approx_fprime squeezes the 1x1 Jacobian to 0-D
            ctx.cls("fsolve:raised:ValueError (n=1, numerical Jacobian squeezed to 0-D)")
        else:
            ctx.cls(f"fsolve:raised:{type(raised).__name__}")
        ctx.count("fsolve_raised")
        return {"evals": len(tr.calls)}
    own = [w for w in wlog if "approx_fprime" not in str(w.message)]
    nonconv = [w for w in own if "not converged" in str(w.message) or "fsolve" in str(w.message)]

    # harness' own evaluation of the claimed criterion
    with np.errstate(all="ignore"):
        f0 = np.atleast_1d(np.asarray(f(x0, *fargs), dtype=float))
        x = np.asarray(res.x)
        fx = np.atleast_1d(np.asarray(f(np.asarray(x, dtype=float), *fargs), dtype=float))
        scale = atol + np.abs(f0) * rtol
        err = float(np.linalg.norm(fx / scale) / np.sqrt(scale.size))
    witness.update({"returned_x": x, "f_at_returned_x": fx, "scaled_rms_residual": err, "reported_error": res.error,
                    "reported_success": bool(res.success), "nit": res.nit, "nfev": res.nfev,
                    "warnings": [str(w.message)[:120] for w in own][:3], "evaluations_traced": len(tr.calls)})
    success = bool(res.success)
    ctx.mon("fsolve.criterion")
    if success:
        ctx.cls("fsolve:success" + (" at x0" if res.nit == 0 else ""))
        if not (err < 1.0 * (1 + 1e-12)):
            ctx.violation("fsolve", "success reported although the scaled residual criterion does not hold at the returned point", witness)
    else:
        ctx.cls("fsolve:not-converged")
        ctx.mon("fsolve.warning")
        if not nonconv:
            ctx.violation("fsolve", "success=False returned without a non-convergence warning", witness)
        if err < 1.0:
            ctx.cls("fsolve:not-converged although criterion holds (not forbidden)")
    if success and nonconv:
        ctx.cls("fsolve:success but warned (not forbidden)")
    # res.fun == f(res.x)
    ctx.mon("fsolve.fun")
    rf = np.atleast_1d(np.asarray(res.fun))
    bad_fun = rf.shape != fx.shape
    if not bad_fun:
        fin = np.isfinite(fx)
        if np.any(fin != np.isfinite(rf.real)):
            bad_fun = True
        elif np.any(fin):
            bad_fun = bool(np.max(np.abs(rf[fin] - fx[fin])) > 1e-12 * max(1.0, float(np.max(np.abs(fx[fin])))))
    if bad_fun:
        ctx.violation("fsolve", "res.fun is not the function value at res.x", {**witness, "res_fun": rf})
    if np.array_equal(x0_in, x0) is False:
        ctx.cls("fsolve:x0 mutated (not part of the property)")
    # trace: the last evaluation must be the returned point
    if tr.calls and np.array_equal(np.asarray(tr.calls[-1][0]).real, np.asarray(x).real):
        ctx.cls("fsolve:trace last evaluation == returned x")
    return {"evals": len(tr.calls), "nit": int(res.nit)}


# ---------------------------------------------------------------------------
# fixed-point helpers
# ---------------------------------------------------------------------------
def _fp_problem(rng, momentum):
    n = int(rng.integers(1, 9))
    p = [0.45, 0.1, 0.2, 0.2, 0.05] if momentum else [0.2, 0.25, 0.25, 0.25, 0.05]
    fam = ["spd", "rot", "tanhQ", "sinQ", "const"][int(rng.choice(5, p=p))]
    L = 0.5 if rng.random() < 0.3 else float(rng.uniform(0.02, 0.5))
    r = rng.random()
    if r < 0.2:
        c = np.zeros(n)
    elif r < 0.5:
        c = np.full(n, rng.normal() * _lu(rng, 1e-2, 1e3)) * (1 + 1e-3 * rng.normal(size=n))
    elif r < 0.8 or n == 1:
        c = rng.normal(size=n) * _lu(rng, 1e-3, 1e3)
    else:
        # unknowns of very different magnitude (positions next to percussions scaled by dt): the relative part of the
        # tolerance then differs by many decades between components
        c = rng.normal(size=n) * 10.0 ** rng.uniform(-4, 6, size=n)
    Q, P = _orth(rng, n), _orth(rng, n)
    gain = _lu(rng, 1e-2, 1e2)
    d = rng.normal(size=n)
    if fam == "spd":
        lam = rng.uniform(0.0, L, size=n)
        lam[int(rng.integers(n))] = L
        S = (Q * lam) @ Q.T
        S = 0.5 * (S + S.T)
        # symmetric, eigenvalues in [0, L] up to rounding: Lipschitz constant L (slack in the bound covers 1e-15)
        F = lambda x: c + S @ (x - c)
        par = {"S": S}
    elif fam == "rot":
        M = L * Q
        F = lambda x: c + M @ (x - c)
        par = {"M": M}
    elif fam == "tanhQ":
        M = L * Q
        F = lambda x: c + M @ (np.tanh(gain * (P @ (x - c))) / gain)
        par = {"M": M, "P": P, "gain": gain}
    elif fam == "sinQ":
        M = L * Q
        F = lambda x: c + M @ (np.sin(gain * (P @ x) + d) / gain)
        par = {"M": M, "P": P, "gain": gain, "d": d}
    else:
        L = 0.0
        F = lambda x: c + 0.0 * x
        par = {}
    dist = _lu(rng, 1e-3, 1e3)
    v = rng.normal(size=n)
    x0 = c + dist * v / np.linalg.norm(v)
    if not momentum and n >= 2 and rng.random() < 0.08:
        # partial divergence: all components but the last contract as before, the last one runs away (x -> x^2 + 2) and
        # overflows after about ten sweeps; there is no point that meets the tolerance, the helper can only raise
        F0, k_ = F, n - 1

        def F(x, F0=F0, k_=k_):
            with np.errstate(all="ignore"):
                y = np.array(F0(np.where(np.isfinite(x), x, 0.0)), dtype=float)
                y[k_] = x[k_] * x[k_] + 2.0
            return y
        x0 = x0.copy(); x0[k_] = 3.0
        fam = fam + "+runaway_component"
    desc = {"family": fam, "n": n, "L": L, "c": c, "x0": x0, "dist_x0": dist, **par}
    return desc, F, L, x0


def _rms_crit(y, Fy, atol, rtol):
    s = atol + rtol * np.maximum(np.abs(y), np.abs(Fy))
    return float(np.linalg.norm((Fy - y) / s) / np.sqrt(len(y))), s


def _fp_check(ctx, which, helper, desc, F, L, x0, atol, rtol, max_iter):
    """runs one fixed-point helper under the trace and decides the run.

    Theorem used (F L-Lipschitz in the 2-norm, x* = F(y), s, s' the scale vectors
    of the pairs (y, F(y)) and (x*, F(x*))):
        ||(F(x*)-x*)/s'||_2 <= ||F(x*)-x*||_2 / min s' <= L ||F(y)-y||_2 / min s'
                             <= L (max s / min s') ||(F(y)-y)/s||_2 ,
    i.e.  T(x*) <= L * max(s)/min(s') * T_pair(y)  <  L * max(s)/min(s').
    """
    site = "fixed_point_iteration" if which == "fpi" else "fixed_point_iteration_with_momentum"
    tr = Trace(F)
    x0_in = x0.copy()
    raised = None
    # calling convention of the map: pure, or updating its argument in place the way the map inside
    # DualStormerVerlet._step does (views of the argument are advanced with += and a new array / the same array is returned);
    # the trace always records the mathematical pair (x, F(x))
    conv = desc.get("convention", "pure")
    if conv == "pure":
        fun = tr
    elif conv == "inplace_returns_same_array":
        def fun(x):
            y = tr(np.array(x, dtype=float))
            x[...] = y
            return x
    elif conv == "returns_same_buffer":
        buf = np.empty_like(np.asarray(x0, dtype=float))

        def fun(x):
            buf[...] = tr(np.array(x, dtype=float))       # preallocated output array, handed out again at every call
            return buf
    else:
        def fun(x):
            y = tr(np.array(x, dtype=float))
            x[...] = y
            return np.array(y)
    ctx.cls(f"{which}:map_convention={conv}")
    with warnings.catch_warnings(record=True):
        warnings.simplefilter("always")
        try:
            out = helper(fun, x0_in, atol=atol, rtol=rtol, max_iter=max_iter)
        except Exception as e:
            raised = e
    ctx.cls(f"{which}:family={desc['family']}")
    pairs = [(np.asarray(a, dtype=float), np.asarray(b, dtype=float)) for a, b in tr.calls]
    crit = [_rms_crit(a, b, atol, rtol) for a, b in pairs]
    witness = {"map": desc, "atol": atol, "rtol": rtol, "max_iter": max_iter, "evaluations": len(pairs)}
    if raised is not None:
        ctx.mon(f"{which}.raised")
        ctx.cls(f"{which}:raised:{type(raised).__name__}")
        if crit and crit[-1][0] < 1.0:
            ctx.cls(f"{which}:raised although the last pair met the criterion (allowed)")
        return {"evals": len(pairs), "returned": False}
    ctx.mon(f"{which}.returned")
    try:
        xs = np.asarray(out[0], dtype=float)
        assert xs.shape == x0.shape
    except Exception:
        ctx.violation(site, "return value is not (x, n_iter, error) with x of the shape of x0", {**witness, "returned": repr(out)[:300]})
        return {"evals": len(pairs), "returned": True}
    with np.errstate(all="ignore"):
        Fxs = np.asarray(F(xs), dtype=float)
        T, s_ret = _rms_crit(xs, Fxs, atol, rtol)
    # which evaluated pair justifies the returned point?
    as_output = [j for j, (a, b) in enumerate(pairs) if np.array_equal(b, xs)]
    as_input = [j for j, (a, b) in enumerate(pairs) if np.array_equal(a, xs)]
    bound, why = 1.0, "not justified by any evaluated pair that met the criterion"
    for j in as_input:
        if crit[j][0] < 1.0:
            why = "input of a pair that met the criterion"
    if why.startswith("not justified"):
        for j in as_output:
            if crit[j][0] < 1.0:
                why = "image of a pair that met the criterion"
                bound = max(bound, L * float(np.max(crit[j][1]) / np.min(s_ret)))
    ctx.cls(f"{which}:returned point is {why}")
    # componentwise reading of 'meets the absolute/relative tolerance it was given': a pair that is accepted has a scaled
    # rms increment below one, hence no single component above sqrt(n) times its own tolerance
    if pairs and np.array_equal(pairs[-1][1], xs):
        a_, b_ = pairs[-1]
        comp = np.abs(b_ - a_) / (atol + rtol * np.maximum(np.abs(a_), np.abs(b_)))
        ctx.mon(f"{which}.componentwise")
        if np.max(comp) > np.sqrt(len(xs)) * (1 + 1e-9):
            ctx.violation(site, "returned after a sweep in which a component changed by more than its own absolute/relative tolerance allows",
                          {"map": desc, "atol": atol, "rtol": rtol, "last_increment_over_tolerance_per_component": comp,
                           "allowed_by_an_rms_criterion_below_one": float(np.sqrt(len(xs))), "reported_error": out[2] if len(out) > 2 else None})
    witness.update({"returned_x": xs, "F_at_returned_x": Fxs, "scaled_rms_residual_at_returned_x": T,
                    "bound_for_a_correct_helper": bound, "reported_n_iter": out[1] if len(out) > 1 else None,
                    "reported_error": out[2] if len(out) > 2 else None,
                    "criterion_of_last_pair": crit[-1][0] if crit else None,
                    "last_pair": [pairs[-1][0], pairs[-1][1]] if pairs else None})
    if not (T < bound * (1 + 1e-9)):
        key = None
        if which == "fpi" and _model_scale_one(pairs, crit, xs):
            key = KEY_FPI
        if which == "fpm" and _model_previous_iterate(pairs, crit, xs, x0):
            key = KEY_FPM
        ctx.violation(site, "returned a point that does not meet the absolute/relative tolerance it was given", witness, key=key)
        ctx.cls(f"{which}:violated" + (":known-model" if key else ":unclassified"))
    else:
        ctx.cls(f"{which}:held" + ("" if T < 1.0 else " (1 <= T < bound of the theorem)"))
    return {"evals": len(pairs), "returned": True}


def _model_scale_one(pairs, crit, xs):
    """defect model: the helper replaced its scale by np.array([1]): it stops at the first pair whose UNSCALED
    2-norm increment is < 1 (and not earlier), returns that pair's image, and the pair does not meet the
    requested criterion."""
    if not pairs or not np.array_equal(pairs[-1][1], xs):
        return False
    inc = [float(np.linalg.norm(b - a)) for a, b in pairs]
    # consecutive iterates: input k+1 is the image k (plain iteration)
    chain = all(np.array_equal(pairs[k + 1][0], pairs[k][1]) for k in range(len(pairs) - 1))
    return chain and inc[-1] < 1.0 and all(v >= 1.0 for v in inc[:-1]) and crit[-1][0] >= 1.0


def _model_previous_iterate(pairs, crit, xs, x0):
    """defect model: the criterion was evaluated correctly (last pair meets it, none before does) but the helper
    returned the PREVIOUS iterate x_k (image of the pair before, or x0) instead of x_{k+1} = F(y_k)."""
    if not pairs or not (crit[-1][0] < 1.0) or any(c[0] < 1.0 for c in crit[:-1]):
        return False
    if np.array_equal(pairs[-1][1], xs):
        return False
    prev = pairs[-2][1] if len(pairs) > 1 else x0
    return bool(np.array_equal(prev, xs))


# ---------------------------------------------------------------------------
# approx_fprime
# ---------------------------------------------------------------------------
def _run_fprime(ctx, rng):
    from cardillo.math.approx_fprime import approx_fprime

    method = ["2-point", "3-point", "cs"][int(rng.integers(3))]
    xs_kind = ["scalar", "vector", "matrix"][int(rng.choice(3, p=[0.15, 0.55, 0.3]))]
    fs_kind = ["scalar", "vector", "matrix"][int(rng.choice(3, p=[0.15, 0.5, 0.35]))]
    x_shape = {"scalar": (), "vector": (int(rng.integers(1, 7)),), "matrix": (int(rng.integers(1, 4)), int(rng.integers(1, 4)))}[xs_kind]
    f_shape = {"scalar": (), "vector": (int(rng.integers(1, 6)),), "matrix": (int(rng.integers(1, 4)), int(rng.integers(1, 4)))}[fs_kind]
    m, k = int(np.prod(x_shape, dtype=int)), int(np.prod(f_shape, dtype=int))
    fam = ["sin", "poly", "exp"][int(rng.choice(3, p=[0.6, 0.2, 0.2]))]
    xmag = _lu(rng, 1e-2, 1e2) if fam == "sin" else _lu(rng, 1e-2, 3.0)
    x = rng.normal(size=m) * xmag
    if rng.random() < 0.1:
        x[int(rng.integers(m))] = 0.0
    # (3-point only: the 2-point rule also uses f(x0) at the array as given, i.e. evaluated by the user's function in single
    #  precision - the accuracy of THAT is the caller's, not the method's)
    single = bool(rng.random() < 0.2) and method == "3-point"
    if single:
        # the point is handed over as a float32 array (data read from a file, a GPU buffer); its values are exact float32 numbers,
        # the derivative is still a float64 finite difference of the float64 function
        x = x.astype(np.float32).astype(float)
    default_eps = rng.random() < 0.25
    if default_eps:
        h = 1e-6
    elif method == "2-point":
        h = _lu(rng, 1e-9, 1e-4)
    elif method == "3-point":
        h = _lu(rng, 1e-7, 1e-3)
    else:
        h = _lu(rng, 1e-100, 1e-5)
    r = max(m, 1)
    if fam == "sin":
        # f = A sin(B x + c)
        inner = int(rng.integers(1, 6))
        A = rng.normal(size=(k, inner)) * _lu(rng, 1e-2, 1e2)
        B = rng.normal(size=(inner, m)) * _lu(rng, 0.1, 5.0) / np.sqrt(r)
        c = rng.normal(size=inner)
        x_off = np.zeros(m)
        if not single and rng.random() < 0.3:
            # a function of RELATIVE coordinates evaluated far from the origin (positions in a large model, late times):
            # x - x_off is exact for the nearby points the rule visits, so the function values - and the method's accuracy -
            # are those at the origin, whereas x + h is not a representable number any more
            far = _lu(rng, 1e2, 1e8)
            if method != "cs":
                # (the step has to stay well above the spacing of the numbers at x - a caller's obligation, not the method's)
                far = min(far, h / (64 * U))
            x_off = np.clip(rng.normal(size=m), -4, 4) * far
            x = x_off + x
            ctx.cls("fprime:relative_coordinates_far_from_origin")
        xr = x - x_off
        fv = lambda xf: A @ np.sin(B @ (xf - x_off) + c)
        Jex = (A * np.cos(B @ xr + c)[None, :]) @ B
        aA, aB = np.abs(A), np.abs(B)
        M2 = aA @ (aB ** 2)              # bound of |d^2 f_j / dx_i^2|, shape (k, m)
        M3 = aA @ (aB ** 3)
        ef = 4 * (m + 2) * U * (aA @ (2.0 + aB @ np.abs(xr) + np.abs(c)))   # rounding of one evaluation, shape (k,)
        zerr = 4 * (m + 2) * U * (aB @ np.abs(xr) + np.abs(c))    # rounding of the argument B x + c
        # rounding of the complex-step quotient AND of the harness' own 'exact' Jacobian
        csr = 16 * U * (aA @ aB) + 2 * (aA * zerr[None, :]) @ aB
        par = {"A": A, "B": B, "c": c, "x_off": x_off}
    elif fam == "poly":
        # f_j = sum_i W_ji x_i^3 + (V x)_j^2
        W = rng.normal(size=(k, m))
        V = rng.normal(size=(k, m)) / np.sqrt(r)
        integer_point = bool(rng.random() < 0.4)
        if integer_point:
            # whole-number point handed over as an INTEGER array, integer coefficients: f(x0) itself has an integer dtype
            x = rng.integers(-3, 4, size=m).astype(float)
            W = rng.integers(-2, 3, size=(k, m))
            V = rng.integers(-2, 3, size=(k, m))
            ctx.cls("fprime:integer_point")
        fv = lambda xf: W @ xf ** 3 + (V @ xf) ** 2
        Jex = 3 * W * (x ** 2)[None, :] + 2 * (V @ x)[:, None] * V
        ax = np.abs(x) + 1e-3
        M2 = 6 * np.abs(W) * ax[None, :] + 2 * V ** 2
        M3 = 6 * np.abs(W) + 0.0 * M2
        ef = 16 * U * (np.abs(W) @ ax ** 3 + (np.abs(V) @ ax) ** 2 + 1e-300)
        csr = 32 * U * (3 * np.abs(W) * (ax ** 2)[None, :] + 2 * (np.abs(V) @ ax)[:, None] * np.abs(V))
        par = {"W": W, "V": V}
    else:
        # f_j = g_j exp(a_j . x)
        a = rng.normal(size=(k, m)) / np.sqrt(r)
        g = rng.normal(size=k)
        fv = lambda xf: g * np.exp(a @ xf)
        e0 = np.abs(g) * np.exp(a @ x)
        grow = np.exp(np.abs(a) * 1e-3)
        Jex = (g * np.exp(a @ x))[:, None] * a
        M2 = e0[:, None] * a ** 2 * grow
        M3 = e0[:, None] * np.abs(a) ** 3 * grow
        ef = 16 * U * e0 * (2.0 + np.abs(a) @ np.abs(x))
        csr = 32 * U * e0[:, None] * np.abs(a) * (1.0 + (m + 2) * (np.abs(a) @ np.abs(x)))[:, None]
        par = {"a": a, "g": g}

    def f(X):
        Xf = np.asarray(X).reshape(-1)
        val = fv(Xf)
        if f_shape == ():
            return val[0]
        return val.reshape(f_shape)

    x_arg = float(x[0]) if x_shape == () else x.reshape(x_shape).copy()
    if fam == "poly" and integer_point:
        x_arg = int(x[0]) if x_shape == () else x.reshape(x_shape).astype(np.int64)
    if single and not (fam == "poly" and integer_point):
        x_arg = np.float32(x[0]) if x_shape == () else x.reshape(x_shape).astype(np.float32)
        ctx.cls("fprime:x_dtype=float32")
    # csr also bounds the rounding of the harness' own exact Jacobian, so it enters every tolerance
    if method == "2-point":
        tol = 10 * (0.5 * h * M2 + 2 * ef[:, None] / h + csr)
    elif method == "3-point":
        tol = 10 * (h * h / 6 * M3 + ef[:, None] / h + csr)
    else:
        tol = 10 * (h * h / 6 * M3 + csr)
    tol = tol + 1e-300
    desc = {"family": fam, "method": method, "eps": h, "default_eps": default_eps, "x_shape": list(x_shape),
            "f_shape": list(f_shape), "x": x_arg, **par}
    ctx.cls(f"fprime:{method}"); ctx.cls(f"fprime:x={xs_kind},f={fs_kind}"); ctx.cls(f"fprime:family={fam}")
    try:
        with warnings.catch_warnings():
            warnings.simplefilter("ignore")
            with np.errstate(all="ignore"):
                got = approx_fprime(x_arg, f, method=method) if default_eps else approx_fprime(x_arg, f, method=method, eps=h)
    except Exception as e:
        ctx.mon("approx_fprime")
        ctx.violation("approx_fprime", "raised on an analytic function", {**desc, "error": f"{type(e).__name__}: {e}"[:300]})
        return desc
    ctx.mon("approx_fprime")
    got = np.asarray(got)
    expect = np.squeeze(Jex.reshape(f_shape + x_shape)) if (f_shape + x_shape) else np.squeeze(Jex)
    tol_s = np.squeeze(tol.reshape(f_shape + x_shape)) if (f_shape + x_shape) else np.squeeze(tol)
    if got.size != expect.size:
        ctx.violation("approx_fprime", "result has the wrong number of entries", {**desc, "shape": list(got.shape), "expected_shape": list(expect.shape)})
        return desc
    if got.shape != expect.shape:
        ctx.cls("fprime:shape differs from squeeze(f_shape + x_shape) (values compared after reshape)")
        got = got.reshape(expect.shape)
    diff = np.abs(got - expect)
    if not np.all(np.isfinite(got)):
        ctx.violation("approx_fprime", "non-finite derivative of an analytic function", {**desc, "result": got, "exact": expect})
        return desc
    ex = diff - tol_s
    ratio = float(np.max(diff / tol_s))
    ctx.cls("fprime:err/tol " + ("< 1e-3" if ratio < 1e-3 else "< 0.1" if ratio < 0.1 else "< 1" if ratio <= 1 else "> 1"))
    if np.max(ex) > 0:
        i = np.unravel_index(np.argmax(ex), ex.shape) if ex.shape else ()
        ctx.violation("approx_fprime", "approximation differs from the exact derivative by more than the accuracy of the method",
                      {**desc, "index": [int(a) for a in i], "result_there": float(got[i]), "exact_there": float(expect[i]),
                       "abs_err": float(diff[i]), "tolerance_there": float(np.asarray(tol_s)[i]),
                       "rel_err_max": float(np.max(diff) / (np.max(np.abs(expect)) + 1e-300))})
    return desc


# ---------------------------------------------------------------------------
def run_case(spec, ctx):
    env.import_cardillo()
    with contextlib.redirect_stdout(io.StringIO()):
        _run(spec, ctx)


def _run(spec, ctx):
    from cardillo.solver.dual_stormer_verlet import fixed_point_iteration, fixed_point_iteration_with_momentum

    rng = ctx.rng
    kind = spec["kind"]
    sig, nontrivial = [], False
    if kind == "fpi_directed":
        # always triggers KEY_FPI: F(x) = x/2, |x0| = 1/2: first increment 0.25 < 1 although atol = rtol = 1e-10
        desc = {"family": "rot", "n": 1, "L": 0.5, "c": np.zeros(1), "x0": np.array([0.5]), "M": np.array([[0.5]])}
        r = _fp_check(ctx, "fpi", fixed_point_iteration, desc, lambda x: 0.5 * x, 0.5, np.array([0.5]), 1e-10, 1e-10, 100)
        # a larger start: must iterate until the unscaled increment drops below one
        desc2 = {"family": "rot", "n": 2, "L": 0.5, "c": np.zeros(2), "x0": np.array([30.0, -40.0]), "M": 0.5 * np.eye(2)}
        _fp_check(ctx, "fpi", fixed_point_iteration, desc2, lambda x: 0.5 * x, 0.5, np.array([30.0, -40.0]), 1e-8, 1e-12, 100)
        sig, nontrivial = ["fpi_directed"], True
    elif kind == "fpm_directed":
        # always triggers KEY_FPM: F(x) = x/4 from x0 = 1 with atol 1e-4: momentum is active at the stopping pair
        desc = {"family": "spd", "n": 1, "L": 0.25, "c": np.zeros(1), "x0": np.array([1.0]), "S": np.array([[0.25]])}
        _fp_check(ctx, "fpm", fixed_point_iteration_with_momentum, desc, lambda x: 0.25 * x, 0.25, np.array([1.0]), 1e-4, 1e-12, 50)
        desc2 = {"family": "spd", "n": 1, "L": 0.45, "c": np.zeros(1), "x0": np.array([1.0]), "S": np.array([[0.45]])}
        _fp_check(ctx, "fpm", fixed_point_iteration_with_momentum, desc2, lambda x: 0.45 * x, 0.45, np.array([1.0]), 1e-8, 1e-12, 50)
        sig, nontrivial = ["fpm_directed"], True
    elif kind == "fsolve_directed":
        # no root: must warn; root at x0: success at x0; chord iteration with few iterations: warn
        f = lambda x: x ** 2 + 1.0
        J = lambda x: 2.0 * np.diag(x)
        d = {"family": "noroot", "n": 1, "cond_A": 1.0, "A": np.eye(1), "c": np.zeros(1), "kappa": 0.0, "B": None, "eps0": 1.0,
             "x0": np.array([0.7]), "dist_x0": 0.7}
        _run_fsolve(ctx, rng, (d, f, J, np.array([0.7])), {"mode": "exact", "atol": 1e-8, "rtol": 1e-8, "max_iter": 7, "use_args": False})
        g = lambda x: np.array([x[0] ** 3 - 8.0, x[1] - 1.0])
        Jg = lambda x: np.array([[3 * x[0] ** 2, 0.0], [0.0, 1.0]])
        d2 = {"family": "cubic", "n": 2, "cond_A": 1.0, "A": np.eye(2), "c": np.array([2.0, 1.0]), "kappa": 1.0, "B": None,
              "eps0": None, "x0": np.array([2.0, 1.0]), "dist_x0": 0.0}
        _run_fsolve(ctx, rng, (d2, g, Jg, np.array([2.0, 1.0])), {"mode": "exact", "atol": 1e-8, "rtol": 1e-8, "max_iter": 5, "use_args": False})
        d3 = dict(d2, x0=np.array([3.0, 0.0]), dist_x0=1.4)
        for mode, mi in (("inexact", 2), ("exact", 30), ("cs", 30), ("2-point", 30), ("3-point", 30), ("superlu", 50)):
            _run_fsolve(ctx, rng, (d3, g, Jg, np.array([3.0, 0.0])), {"mode": mode, "atol": 1e-10, "rtol": 1e-10, "max_iter": mi, "use_args": False})
        sig, nontrivial = ["fsolve_directed"], True
    elif kind == "fsolve":
        for _ in range(spec["batch"]):
            prob = _fsolve_problem(rng)
            r = _run_fsolve(ctx, rng, prob)
            sig.append([prob[0]["family"], prob[0]["n"], prob[3].tolist()])
            if r and r.get("evals", 0) > 1:
                nontrivial = True
    elif kind in ("fpi", "fpm"):
        helper = fixed_point_iteration if kind == "fpi" else fixed_point_iteration_with_momentum
        for _ in range(spec["batch"]):
            desc, F, L, x0 = _fp_problem(rng, momentum=(kind == "fpm"))
            desc["convention"] = ["pure", "pure", "inplace_returns_same_array", "inplace_returns_new_array", "returns_same_buffer"][int(rng.integers(5))]
            atol, rtol = _tol(rng), _tol(rng)
            if rng.random() < 0.3:
                rtol = 1e-12  # absolute-dominated: uniform scale
            mi = _max_iter(rng, big=True)
            if desc["family"].endswith("runaway_component"):
                mi = max(mi, 40)
            r = _fp_check(ctx, kind, helper, desc, F, L, x0, atol, rtol, mi)
            sig.append([desc["family"], desc["n"], x0.tolist(), atol, rtol, mi])
            if r.get("evals", 0) > 1:
                nontrivial = True
    elif kind == "fprime":
        for _ in range(spec["batch"]):
            d = _run_fprime(ctx, rng)
            sig.append([d["family"], d["method"], d["eps"], np.asarray(d["x"]).tolist()])
            nontrivial = True
    else:
        raise ValueError(kind)
    ctx.cls(f"kind:{kind}")
    ctx.sig([kind, sig], nontrivial=nontrivial)
    ctx.sample({"kind": kind, "first_problem": sig[0] if sig else None, "batch": len(sig)})


def finalize(agg):
    reasons = []
    mon, cl = agg["monitors"], agg["classes"]
    need_ret = 100
    for which in ("fpi", "fpm"):
        if mon.get(f"{which}.returned", 0) < need_ret:
            reasons.append(f"only {mon.get(f'{which}.returned', 0)} runs of the {which} helper returned (need {need_ret})")
        if mon.get(f"{which}.raised", 0) == 0:
            reasons.append(f"the raise path of the {which} helper was never taken")
    for k in cl:
        if ":raised:" in k and k.split(":raised:")[1].split(" ")[0] not in ("ValueError", "RuntimeError", "FloatingPointError", "OverflowError",
                                                              "ZeroDivisionError", "LinAlgError"):
            reasons.append(f"unexpected exception type in '{k}' ({cl[k]} time(s)): possible harness misuse")
    for k in ["fsolve:success", "fsolve:not-converged", "fsolve:jac=exact", "fsolve:jac=2-point", "fsolve:jac=3-point",
              "fsolve:jac=cs", "fsolve:jac=inexact", "fsolve:jac=superlu", "fsolve:cond>=1e6",
              "fprime:2-point", "fprime:3-point", "fprime:cs"]:
        if cl.get(k, 0) == 0:
            reasons.append(f"input class '{k}' never reached")
    return reasons


META = {
    "level_text": "Exploration: the real fsolve, fixed_point_iteration, fixed_point_iteration_with_momentum and approx_fprime "
                  "are run on seeded problems (dimension 1-8, tolerances 1e-12..1e-2, iteration limits 1..200, all Jacobian "
                  "modes, well and ill conditioned systems, systems without root); every return is decided by re-evaluating "
                  "the claimed criterion from a trace of the user callback and, for the fixed-point helpers, by a residual "
                  "bound that is a theorem for the generated maps (known Lipschitz constant); held on the problems "
                  "generated, not a proof.",
    "level_note": "real float64 problems only; approx_fprime accuracy tolerance = 10 x (truncation + rounding bound) from "
                  "analytic derivative bounds; exceptions raised by fsolve (singular factorisation) are counted, not judged.",
    "technique": "runtime trace monitors around user callbacks + return-value contracts re-evaluated by the harness",
}
