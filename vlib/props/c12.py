"""C12 Rod material laws are hyperelastic with exact tangents.

Monitors (all on the real ``cardillo.rods._material_models`` classes):

* grad.B_n / grad.B_m      : B_n, B_m == d potential / d(B_Gamma, B_Kappa)
* tangent.<name>           : the four tangents == derivatives of B_n / B_m
* tangent.symmetry         : block Hessian symmetric (consequence of the two above)
* legendre.*               : for laws that provide complementary_potential and
                             C_n_inv / C_m_inv: W(eps)+W*(sigma) = sigma.eps at the
                             conjugate pair, Fenchel-Young inequality elsewhere,
                             grad W*(sigma) = eps = compliance @ sigma,
                             compliance @ tangent = I
* contract                 : shapes, finiteness, inputs not mutated

Oracle: derivative of the *map returned by the code* (potential, resp. B_n/B_m)
by complex step (the laws are analytic) and, independently, by Richardson
central differences with a measured uncertainty. A discrepancy is a violation
only if BOTH oracles reject the claimed derivative.
"""

import numpy as np
from vlib import env
from vlib.oracles import loguniform

ID = "C12"
LEVEL = "exploration"
RULE = ("(stiffness vectors are handed to the constructor as float ndarray, integer ndarray, list of ints, list of floats or tuple - all valid array-likes) each case is a seeded batch of (law, stiffness Ei/Fi, B_Gamma, B_Gamma0, B_Kappa, B_Kappa0) for one law "
        "(Simo1986 / Harsch2021) and one input regime (near/moderate/far from the reference strain, pure stretch, "
        "stress-free, unit and non-unit |B_Gamma0|, zero and non-zero reference curvature, stiffness 1e-3..1e6 "
        "isotropic-like or spread over decades), plus directed cases; distinct = distinct batch content hash; "
        "non-trivial = the batch contains a strained state (B_Gamma != B_Gamma0 or B_Kappa != B_Kappa0) and at "
        "least one derivative comparison was decided")
ASSUMPTIONS = [
    "float64 inputs; derivative oracle = complex step (h=1e-30) of the law's own potential / B_n / B_m, cross-checked by "
    "Richardson central differences (h = 1e-4*|x|, /2, /4); violation only if both reject",
    "tolerance complex step: 1e-9*max(|claimed|,|oracle|)_inf + 1e-12*(stiffness_max * strain magnitude) for cancellation; "
    "finite differences: 1e-6*scale + 20*(Richardson uncertainty) + 200*eps*|f|/h rounding bound",
    "Harsch2021 is evaluated only for |B_Gamma| >= 1e-6 (its energy is not differentiable at B_Gamma = 0); Simo1986 also at zero vectors",
    "stiffness vectors strictly positive, 1e-3..1e6; strains 1e-3..1e3; |B_Gamma0| in [1e-3, 1e3] incl. exactly 1",
]
REQUIRED_MONITORS = ["purity", "grad.B_n", "grad.B_m", "tangent.B_n_B_Gamma", "tangent.B_n_B_Kappa", "tangent.B_m_B_Gamma",
                     "tangent.B_m_B_Kappa", "tangent.symmetry", "legendre.equality", "legendre.fenchel_young",
                     "legendre.grad_complementary", "legendre.compliance_inverse", "contract"]
CASE_TIMEOUT = 120
WALL_BUDGET = {"quick": 300, "thorough": 1500}

KF_HARSCH = "Harsch2021.B_n_B_Gamma/missing-lambda0-on-dyadic-term"

LAWS = ["Simo1986", "Harsch2021"]
REGIMES = ["near", "moderate", "far", "stretch", "stressfree", "rodlike", "zeros", "short"]
EPS = np.finfo(float).eps


# --------------------------------------------------------------------------
# cases
# --------------------------------------------------------------------------
DIRECTED = [
    # the documented defect stratum: |B_Gamma0| != 1 (always triggers the known finding on the pinned tree)
    {"kind": "directed", "law": "Harsch2021", "Ei": [3.0, 2.0, 5.0], "Fi": [1.0, 2.0, 3.0],
     "G": [1.5, 0.2, -0.1], "G0": [2.0, 0.0, 0.0], "K": [0.1, -0.2, 0.3], "K0": [0.0, 0.0, 0.0]},
    {"kind": "directed", "law": "Harsch2021", "Ei": [1e4, 5e3, 5e3], "Fi": [10.0, 20.0, 30.0],
     "G": [0.6, 0.0, 0.0], "G0": [0.5, 0.0, 0.0], "K": [0.0, 0.0, 0.0], "K0": [0.0, 0.0, 0.0]},
    # the stratum the rods reach: |B_Gamma0| = 1
    {"kind": "directed", "law": "Harsch2021", "Ei": [3.0, 2.0, 5.0], "Fi": [1.0, 2.0, 3.0],
     "G": [1.5, 0.2, -0.1], "G0": [1.0, 0.0, 0.0], "K": [0.1, -0.2, 0.3], "K0": [0.0, 0.5, 0.0]},
    {"kind": "directed", "law": "Harsch2021", "Ei": [3.0, 2.0, 5.0], "Fi": [1.0, 2.0, 3.0],
     "G": [0.3, -1.2, 0.4], "G0": [0.6, 0.0, 0.8], "K": [1.0, 2.0, 3.0], "K0": [3.0, 2.0, 1.0]},
    {"kind": "directed", "law": "Simo1986", "Ei": [3.0, 2.0, 5.0], "Fi": [1.0, 2.0, 3.0],
     "G": [1.5, 0.2, -0.1], "G0": [2.0, 0.0, 0.0], "K": [0.1, -0.2, 0.3], "K0": [0.0, 0.5, 0.0]},
    {"kind": "directed", "law": "Simo1986", "Ei": [1e6, 1e-3, 1.0], "Fi": [1e-3, 1e6, 1.0],
     "G": [0.0, 0.0, 0.0], "G0": [1.0, 0.0, 0.0], "K": [0.0, 0.0, 0.0], "K0": [0.0, 0.0, 0.0]},
]


def cases(tier, seed):
    n, batch = {"quick": (126, 25), "thorough": (2002, 50)}[tier]
    out = [dict(d) for d in DIRECTED]
    k = 0
    while len(out) < n + len(DIRECTED):
        law = LAWS[k % 2]
        regime = REGIMES[(k // 2) % len(REGIMES)]
        k += 1
        if law == "Harsch2021" and regime == "zeros":
            regime = "rodlike"
        out.append({"kind": "batch", "law": law, "regime": regime, "batch": batch})
    return out


# --------------------------------------------------------------------------
# generators
# --------------------------------------------------------------------------
def _dir(rng):
    v = rng.normal(size=3)
    return v / np.linalg.norm(v)


def _vec(rng, lo, hi):
    v = _dir(rng) * loguniform(rng, lo, hi)
    if rng.random() < 0.15:  # axis-aligned / sparse vectors
        m = rng.random(3) < 0.5
        if m.all():
            m[rng.integers(3)] = False
        v = np.where(m, 0.0, v)
        if not np.any(v):
            v[rng.integers(3)] = loguniform(rng, lo, hi)
    return v


def _stiffness(rng):
    r = rng.random()
    if r < 0.15:  # other unit systems / very soft or very stiff rods (a hair has EI ~ 1e-8 N m^2, a fibre 1e-10)
        s = float(10.0 ** rng.uniform(-12, -6)) if rng.random() < 0.6 else float(10.0 ** rng.uniform(7, 12))
        return s * rng.uniform(1, 10, size=3), "stiff:tiny" if s < 1 else "stiff:huge"
    r = (r - 0.15) / 0.85
    if r < 0.4:  # comparable magnitudes
        s = loguniform(rng, 1e-3, 1e5)
        return s * rng.uniform(1, 10, size=3), "stiff:comparable"
    if r < 0.8:  # spread over decades
        return loguniform(rng, 1e-3, 1e6, size=3), "stiff:spread"
    # realistic rod: EA >> GA, EI ~ EA * r^2
    E = loguniform(rng, 1e2, 1e6)
    return np.array([E, E * rng.uniform(0.2, 0.5), E * rng.uniform(0.2, 0.5)]), "stiff:rod"


def _gamma0(rng, regime):
    """reference dilatation/shear strain and its class"""
    r = rng.random()
    if regime == "rodlike" or r < 0.2:
        return np.array([1.0, 0.0, 0.0]), "G0:ex"
    if r < 0.4:
        d = _dir(rng)
        return d / np.linalg.norm(d), "G0:unit"
    if r < 0.8:
        return _dir(rng) * loguniform(rng, 0.1, 10), "G0:len[0.1,10]"
    return _dir(rng) * loguniform(rng, 1e-3, 1e3), "G0:len[1e-3,1e3]"


def _inputs(rng, law, regime):
    G0, c0 = _gamma0(rng, regime)
    K0 = np.zeros(3) if rng.random() < 0.4 else _vec(rng, 1e-3, 1e3)
    cK0 = "K0:zero" if not np.any(K0) else "K0:nonzero"
    n0 = np.linalg.norm(G0)
    if regime == "near":
        rel = loguniform(rng, 1e-8, 1e-1)
        G = G0 + _dir(rng) * rel * n0
        K = K0 + _dir(rng) * rel * max(np.linalg.norm(K0), loguniform(rng, 1e-3, 1.0))
    elif regime in ("moderate", "rodlike"):
        G = G0 + _dir(rng) * rng.uniform(0.05, 0.9) * n0
        K = K0 + _vec(rng, 1e-2, 10)
    elif regime == "far":
        G = _vec(rng, 1e-3, 1e3)
        K = _vec(rng, 1e-3, 1e3)
    elif regime == "stretch":
        G = G0 * loguniform(rng, 0.2, 5)
        K = K0 + _vec(rng, 1e-3, 10)
    elif regime == "stressfree":
        G = G0.copy()
        K = K0.copy()
        if rng.random() < 0.5:  # same length, rotated: Harsch axial term vanishes, shear does not
            G = _dir(rng) * n0
    elif regime == "short":
        # strongly compressed: a strain vector far shorter than the reference one (|B_Gamma| 1e-6..1e-2 of order-one units);
        # every law is smooth there, the Harsch2021 terms in 1/|B_Gamma| are large
        G = _dir(rng) * loguniform(rng, 1e-6, 1e-2)
        K = K0 + _vec(rng, 1e-3, 10)
    elif regime == "zeros":  # Simo1986 only
        G = np.zeros(3) if rng.random() < 0.6 else _vec(rng, 1e-3, 1e3)
        K = np.zeros(3) if rng.random() < 0.6 else _vec(rng, 1e-3, 1e3)
        if rng.random() < 0.3:
            G0 = np.zeros(3); c0 = "G0:zero"
    else:
        raise ValueError(regime)
    cS = None
    if regime in ("moderate", "far", "stretch", "rodlike") and rng.random() < 0.2:
        # structured strains: components of exactly equal magnitude and exact zeros (pure shear in a diagonal direction, equal
        # bending about two axes, ...) - states a random direction never produces
        def pattern():
            while True:
                p_ = rng.integers(-1, 2, size=3).astype(float)
                if np.any(p_):
                    return p_
        G = pattern() * float(loguniform(rng, 0.3, 3.0))
        K = pattern() * float(loguniform(rng, 1e-2, 10.0))
        cS = "strain:tied_or_zero_components"
    if law == "Harsch2021" and np.linalg.norm(G) < 1e-6:
        G = _dir(rng) * 1e-6
    Ei, cE = _stiffness(rng)
    Fi, _ = _stiffness(rng)
    return Ei, Fi, G, G0, K, K0, [c0, cK0, cE] + ([cS] if cS else [])


# --------------------------------------------------------------------------
# oracles
# --------------------------------------------------------------------------
def _cs(f, x, h=1e-30):
    x = np.asarray(x, dtype=float)
    cols = []
    for j in range(x.size):
        xc = x.astype(complex)
        xc[j] += 1j * h
        cols.append(np.imag(np.asarray(f(xc))) / h)
    return np.stack(cols, axis=-1)  # f.shape + (n,)


def _fd(f, x, fmag):
    """Richardson central differences with steps relative to |x|; returns
    (D, err) where err includes the measured extrapolation uncertainty and an
    explicit rounding bound 200*eps*fmag/h."""
    x = np.asarray(x, dtype=float)
    h0 = 1e-4 * max(np.linalg.norm(x), 1e-6)

    def cd(h):
        cols = []
        for j in range(x.size):
            xp = x.copy(); xm = x.copy()
            xp[j] += h; xm[j] -= h
            hh = xp[j] - xm[j]
            cols.append((np.asarray(f(xp), dtype=float) - np.asarray(f(xm), dtype=float)) / hh)
        return np.stack(cols, axis=-1)

    D1, D2, D3 = cd(h0), cd(h0 / 2), cd(h0 / 4)
    R1, R2 = (4 * D2 - D1) / 3, (4 * D3 - D2) / 3
    err = 20 * np.abs(R2 - R1) + 200 * EPS * fmag / (h0 / 4)
    return R2, err


class Judge:
    """two-oracle decision for one claimed derivative block"""

    def __init__(self, ctx):
        self.ctx = ctx
        self.decided = 0

    def check(self, mon, site, what, J, f, x, cancel, fmag, detail, key_fn=None):
        """J claimed (f.shape + x.shape); cancel = absolute allowance for
        cancellation noise; fmag = magnitude of f before cancellation."""
        ctx = self.ctx
        ctx.mon(mon)
        J = np.asarray(J)
        Dcs = _cs(f, x)
        if J.shape != Dcs.shape or not np.all(np.isfinite(J)) or np.iscomplexobj(J):
            ctx.violation(site, what + " (wrong shape / non-finite / complex return value)",
                          {**detail, "claimed": J, "expected_shape": list(Dcs.shape)})
            return False
        J = J.astype(float)
        scale = max(float(np.max(np.abs(J))), float(np.max(np.abs(Dcs))) if np.all(np.isfinite(Dcs)) else 0.0)
        cs_ok = bool(np.all(np.isfinite(Dcs)) and np.max(np.abs(J - Dcs)) <= 1e-9 * scale + cancel)
        Dfd, err = _fd(f, x, fmag)
        fd_finite = bool(np.all(np.isfinite(Dfd)) and np.all(np.isfinite(err)))
        scale_fd = max(float(np.max(np.abs(J))), float(np.max(np.abs(Dfd))) if fd_finite else 0.0)
        tol_fd = 1e-6 * scale_fd + err + cancel if fd_finite else None
        fd_ok = bool(fd_finite and np.all(np.abs(J - Dfd) <= tol_fd))
        fd_decisive = bool(fd_finite and np.max(err) <= 1e-3 * scale_fd + cancel)
        if cs_ok:
            self.decided += 1
            ctx.count("decided_by_complex_step")
            if fd_finite and not fd_ok:
                # never seen on the pinned tree; would mean that complex step and claimed value agree on something
                # finite differences reject: do not hide it
                ctx.count("complex_step_accepts_fd_rejects")
                ctx.undecided(f"{site}: complex-step accepts, finite differences reject")
                self.decided -= 1
            return True
        if fd_ok and fd_decisive:
            # either the complex step is unusable (non-analytic code path) and finite differences confirm the claimed
            # value, or the discrepancy is real but lies between the two floors (1e-9 .. 1e-6 relative to the block)
            self.decided += 1
            if np.all(np.isfinite(Dcs)) and np.all(np.abs(Dcs - Dfd) <= tol_fd):
                ctx.count("accepted_by_fd:discrepancy_between_1e-9_and_1e-6_of_block_scale")
            else:
                ctx.count("accepted_by_fd:complex_step_unusable")
            return True
        if fd_finite and not fd_ok:
            i = np.unravel_index(np.argmax(np.abs(J - Dfd) - tol_fd), J.shape)
            key = key_fn(J, Dcs, Dfd, scale) if key_fn else None
            self.decided += 1
            ctx.violation(site, what, {
                **detail, "claimed": J, "complex_step": Dcs, "finite_difference": Dfd,
                "index": [int(a) for a in i], "abs_err_there": float(np.abs(J - Dfd)[i]), "tol_there": float(tol_fd[i]),
                "max_abs_err_vs_complex_step": float(np.max(np.abs(J - Dcs))) if np.all(np.isfinite(Dcs)) else "non-finite"},
                key=key)
            return False
        ctx.undecided(f"{site}: complex step rejects but the finite-difference oracle is too noisy to confirm")
        return True


# --------------------------------------------------------------------------
# one sample
# --------------------------------------------------------------------------
def _harsch_defect_model(Ei, G, G0):
    lam, lam0 = np.linalg.norm(G), np.linalg.norm(G0)
    return Ei[0] * (1.0 - lam0) * np.outer(G, G) / lam**3  # claimed - true on the pinned tree


def _represent(rng, Ei, Fi):
    """the same stiffness values handed to the constructor under another representation (the documented argument is an
    'array-like' of three positive numbers): integer ndarray / list of ints (values rounded to integers first), list of floats,
    tuple. Returns (Ei_float, Fi_float, Ei_arg, Fi_arg, class)"""
    c = int(rng.integers(8))
    if c >= 4:
        return Ei, Fi, Ei, Fi, "stiffness_repr:float_array"
    if c in (0, 1):
        Ei, Fi = np.maximum(np.rint(Ei), 1.0), np.maximum(np.rint(Fi), 1.0)
        if c == 0:
            return Ei, Fi, Ei.astype(int), Fi.astype(int), "stiffness_repr:int_array"
        return Ei, Fi, [int(v) for v in Ei], [int(v) for v in Fi], "stiffness_repr:int_list"
    if c == 2:
        return Ei, Fi, [float(v) for v in Ei], [float(v) for v in Fi], "stiffness_repr:float_list"
    return Ei, Fi, tuple(float(v) for v in Ei), np.maximum(np.rint(Fi), 1.0).astype(int), "stiffness_repr:tuple+int_array"


def check_sample(ctx, judge, lawname, Ei, Fi, G, G0, K, K0, ctor=None):
    from cardillo.rods import _material_models as mm

    Ei, Fi, G, G0, K, K0 = (np.array(a, dtype=float) for a in (Ei, Fi, G, G0, K, K0))
    args0 = [a.copy() for a in (Ei, Fi, G, G0, K, K0)]
    law = getattr(mm, lawname)(*(ctor if ctor is not None else (Ei, Fi)))
    if ctor is not None and all(isinstance(a, np.ndarray) for a in ctor) and judge.ctx.rng.random() < 0.3:
        # a stiffness sweep that reuses its arrays for the next law: the arrays handed to the constructor are modified in place
        # afterwards; whatever the law object answers from now on must still be ONE consistent hyperelastic law
        for a in ctor:
            a *= 7
        judge.ctx.cls("stiffness_arrays_modified_after_construction")
        # (the law may have copied its parameters or follow the arrays - both are consistent laws; the magnitudes used for the
        #  rounding allowances below take the larger of the two)
        Ei, Fi = 7 * Ei, 7 * Fi
        args0[0], args0[1] = Ei.copy(), Fi.copy()
    site = lawname
    det = {"law": lawname, "Ei": Ei, "Fi": Fi, "B_Gamma": G, "B_Gamma0": G0, "B_Kappa": K, "B_Kappa0": K0}
    Emax, Fmax = float(Ei.max()), float(Fi.max())
    nG = float(np.abs(G).max() + np.abs(G0).max())
    nK = float(np.abs(K).max() + np.abs(K0).max())
    lam, lam0 = float(np.linalg.norm(G)), float(np.linalg.norm(G0))
    S_n, S_m = Emax * nG, Fmax * nK                       # force / couple magnitude before cancellation
    S_W = Emax * nG**2 + Fmax * nK**2                     # energy magnitude before cancellation
    ratio = 1.0 + (lam0 / lam if lam > 0 else 0.0)
    T_n, T_m = Emax * ratio, Fmax                         # tangent magnitude before cancellation

    # ---- contract: shapes / finiteness --------------------------------
    ctx.mon("contract")
    W = law.potential(G, G0, K, K0)
    n = np.asarray(law.B_n(G, G0, K, K0))
    m = np.asarray(law.B_m(G, G0, K, K0))
    tang = {name: np.asarray(getattr(law, name)(G, G0, K, K0))
            for name in ("B_n_B_Gamma", "B_n_B_Kappa", "B_m_B_Gamma", "B_m_B_Kappa")}
    bad = []
    if np.ndim(W) != 0 or not np.isfinite(W) or np.iscomplexobj(W):
        bad.append("potential not a finite real scalar")
    if n.shape != (3,) or not np.all(np.isfinite(n)):
        bad.append("B_n not a finite 3-vector")
    if m.shape != (3,) or not np.all(np.isfinite(m)):
        bad.append("B_m not a finite 3-vector")
    for name, T in tang.items():
        if T.shape != (3, 3) or not np.all(np.isfinite(T)):
            bad.append(f"{name} not a finite 3x3 matrix")
    if bad:
        ctx.violation(site, "return value contract broken: " + bad[0], {**det, "all": bad})
        return

    # ---- forces are gradients of the strain energy --------------------------
    judge.check("grad.B_n", f"{site}.B_n", "B_n is not the gradient of potential w.r.t. B_Gamma",
                n, lambda g: law.potential(g, G0, K, K0), G, 1e-12 * S_n, S_W, det)
    judge.check("grad.B_m", f"{site}.B_m", "B_m is not the gradient of potential w.r.t. B_Kappa",
                m, lambda k: law.potential(G, G0, k, K0), K, 1e-12 * S_m, S_W, det)

    # ---- tangents are derivatives of the forces -------------------------
    def key_harsch(J, Dcs, Dfd, scale):
        if lawname != "Harsch2021":
            return None
        model = _harsch_defect_model(Ei, G, G0)
        tol = 1e-8 * scale + 1e-12 * T_n
        if np.max(np.abs(model)) > 10 * tol and np.all(np.isfinite(Dcs)) and np.max(np.abs((J - Dcs) - model)) <= tol:
            return KF_HARSCH
        return None

    judge.check("tangent.B_n_B_Gamma", f"{site}.B_n_B_Gamma", "B_n_B_Gamma is not the derivative of B_n w.r.t. B_Gamma",
                tang["B_n_B_Gamma"], lambda g: law.B_n(g, G0, K, K0), G, 1e-12 * T_n, S_n, det, key_fn=key_harsch)
    judge.check("tangent.B_n_B_Kappa", f"{site}.B_n_B_Kappa", "B_n_B_Kappa is not the derivative of B_n w.r.t. B_Kappa",
                tang["B_n_B_Kappa"], lambda k: law.B_n(G, G0, k, K0), K, 1e-12 * T_n, S_n, det)
    judge.check("tangent.B_m_B_Gamma", f"{site}.B_m_B_Gamma", "B_m_B_Gamma is not the derivative of B_m w.r.t. B_Gamma",
                tang["B_m_B_Gamma"], lambda g: law.B_m(g, G0, K, K0), G, 1e-12 * T_m, S_m, det)
    judge.check("tangent.B_m_B_Kappa", f"{site}.B_m_B_Kappa", "B_m_B_Kappa is not the derivative of B_m w.r.t. B_Kappa",
                tang["B_m_B_Kappa"], lambda k: law.B_m(G, G0, k, K0), K, 1e-12 * T_m, S_m, det)

    # ---- hyperelastic => symmetric block Hessian -------------------------
    ctx.mon("tangent.symmetry")
    Hs = np.block([[tang["B_n_B_Gamma"], tang["B_n_B_Kappa"]], [tang["B_m_B_Gamma"], tang["B_m_B_Kappa"]]])
    if np.max(np.abs(Hs - Hs.T)) > 1e-9 * np.max(np.abs(Hs)) + 1e-12 * max(T_n, T_m):
        ctx.violation(f"{site}.tangents", "tangent blocks do not form a symmetric Hessian", {**det, "hessian": Hs})

    # ---- Legendre duality where provided ---------------------------------
    has_dual = hasattr(law, "complementary_potential")
    has_compl = hasattr(law, "C_n_inv") and hasattr(law, "C_m_inv")
    ctx.cls(f"{lawname}:{'dual' if has_dual else 'no-dual'}:{'compliance' if has_compl else 'no-compliance'}")
    dG, dK = G - G0, K - K0
    if has_dual:
        Wc = law.complementary_potential(n, m)
        ctx.mon("legendre.equality")
        work = float(n @ dG + m @ dK)
        tolW = 1e-9 * max(abs(W), abs(work)) + 1e-12 * S_W
        if not np.isfinite(Wc) or abs(W + Wc - work) > tolW:
            ctx.violation(f"{site}.complementary_potential",
                          "W(eps) + W*(sigma) != sigma.eps at the conjugate pair sigma = dW/deps",
                          {**det, "W": W, "W_star": Wc, "sigma_dot_eps": work, "B_n": n, "B_m": m})
        # Fenchel-Young at a non-conjugate stress: W(eps) + W*(s) >= s.eps
        ctx.mon("legendre.fenchel_young")
        rng = ctx.rng
        fac = [0.0, 0.5, 2.0, -1.0][int(rng.integers(4))]
        n2 = fac * n + _dir(rng) * loguniform(rng, 1e-3, 1.0) * max(np.linalg.norm(n), 1e-3 * Emax)
        m2 = fac * m + _dir(rng) * loguniform(rng, 1e-3, 1.0) * max(np.linalg.norm(m), 1e-3 * Fmax)
        Wc2 = law.complementary_potential(n2, m2)
        work2 = float(n2 @ dG + m2 @ dK)
        gap = W + Wc2 - work2
        mag = abs(W) + abs(Wc2) + abs(work2)
        if not np.isfinite(Wc2) or gap < -(1e-9 * mag + 1e-12 * S_W):
            ctx.violation(f"{site}.complementary_potential",
                          "Fenchel-Young inequality W(eps) + W*(sigma') >= sigma'.eps violated",
                          {**det, "W": W, "W_star": Wc2, "sigma_dot_eps": work2, "sigma_n": n2, "sigma_m": m2})
        # gradient of W* at sigma is the conjugate strain
        S_Wc = max(abs(float(Wc)), S_W)
        judge.check("legendre.grad_complementary", f"{site}.complementary_potential",
                    "gradient of complementary_potential w.r.t. B_n at (B_n, B_m) is not the strain B_Gamma - B_Gamma0",
                    dG, lambda s: law.complementary_potential(s, m), n, 1e-12 * nG, S_Wc, det)
        judge.check("legendre.grad_complementary", f"{site}.complementary_potential",
                    "gradient of complementary_potential w.r.t. B_m at (B_n, B_m) is not the strain B_Kappa - B_Kappa0",
                    dK, lambda s: law.complementary_potential(n, s), m, 1e-12 * nK, S_Wc, det)
    if has_compl:
        ctx.mon("legendre.compliance_inverse")
        Cn, Cm = np.asarray(law.C_n_inv, dtype=float), np.asarray(law.C_m_inv, dtype=float)
        if (Cn.shape != (3, 3) or Cm.shape != (3, 3)
                or np.max(np.abs(Cn @ tang["B_n_B_Gamma"] - np.eye(3))) > 1e-9
                or np.max(np.abs(Cm @ tang["B_m_B_Kappa"] - np.eye(3))) > 1e-9):
            ctx.violation(f"{site}.C_inv", "compliance matrix is not the inverse of the tangent stiffness",
                          {**det, "C_n_inv": Cn, "C_m_inv": Cm, "B_n_B_Gamma": tang["B_n_B_Gamma"], "B_m_B_Kappa": tang["B_m_B_Kappa"]})
        elif (np.max(np.abs(Cn @ n - dG)) > 1e-9 * nG + 1e-300 or np.max(np.abs(Cm @ m - dK)) > 1e-9 * nK + 1e-300) \
                and not np.any(tang["B_n_B_Kappa"]) and not np.any(tang["B_m_B_Gamma"]):
            ctx.violation(f"{site}.C_inv", "compliance matrix does not map the stress to its conjugate strain",
                          {**det, "C_n_inv@B_n": Cn @ n, "dGamma": dG, "C_m_inv@B_m": Cm @ m, "dKappa": dK})

    # ---- inputs untouched --------------------------------------------------
    for a, a0, nm in zip((Ei, Fi, G, G0, K, K0), args0, ("Ei", "Fi", "B_Gamma", "B_Gamma0", "B_Kappa", "B_Kappa0")):
        if not np.array_equal(a, a0):
            ctx.violation(site, "input array mutated", {"which": nm, "before": a0, "after": a})


# --------------------------------------------------------------------------
def run_case(spec, ctx):
    env.import_cardillo()
    rng = ctx.rng
    judge = Judge(ctx)
    sig, strained = [], False
    law = spec["law"]
    if spec["kind"] == "directed":
        samples = [(spec["Ei"], spec["Fi"], spec["G"], spec["G0"], spec["K"], spec["K0"], ["directed"])]
        ctx.cls("kind:directed")
    else:
        samples = [_inputs(rng, law, spec["regime"]) for _ in range(spec["batch"])]
        ctx.cls(f"regime:{spec['regime']}")
    for Ei, Fi, G, G0, K, K0, classes in samples:
        Ei, Fi, G, G0, K, K0 = (np.asarray(a, dtype=float) for a in (Ei, Fi, G, G0, K, K0))
        for c in classes:
            ctx.cls(c)
        ctx.cls(f"law:{law}")
        lam0 = np.linalg.norm(G0)
        ctx.cls("|G0|=1" if abs(lam0 - 1) < 1e-15 else "|G0|!=1")
        if law == "Harsch2021" and abs(lam0 - 1) >= 1e-15:
            ctx.count("masked_stratum:Harsch2021.B_n_B_Gamma with |B_Gamma0| != 1")
        strained |= bool(np.any(G != G0) or np.any(K != K0))
        ctor = None
        if spec["kind"] != "directed":
            Ei, Fi, Ea, Fa, rc = _represent(rng, Ei, Fi)
            if rc.endswith("tuple+int_array"):
                Fi = np.asarray(Fa, dtype=float)
            ctor = (Ea, Fa)
            ctx.cls(rc)
        sig.append([a.tolist() for a in (Ei, Fi, G, G0, K, K0)])
        check_sample(ctx, judge, law, Ei, Fi, G, G0, K, K0, ctor=ctor)
        if len(sig) % 4 == 1:
            # the law object answers the same question the same way whatever was asked before and whatever the caller did with
            # the arrays it was handed (a rod routine scaling a returned tangent in place: m_K *= J * w)
            from cardillo.rods import _material_models as mm
            from vlib.oracles import purity_check
            obj = getattr(mm, law)(Ei.copy(), Fi.copy())
            names = [n_ for n_ in ("potential", "B_n", "B_m", "B_n_B_Gamma", "B_n_B_Kappa", "B_m_B_Gamma", "B_m_B_Kappa") if hasattr(obj, n_)]
            thunks = [(f"{law}.{n_}", {"function": n_, "B_Gamma": G, "B_Gamma0": G0, "B_Kappa": K, "B_Kappa0": K0},
                       (lambda f=getattr(obj, n_): f(G.copy(), G0.copy(), K.copy(), K0.copy()))) for n_ in names]
            if hasattr(obj, "complementary_potential"):
                n0, m0 = np.array(obj.B_n(G, G0, K, K0), dtype=float), np.array(obj.B_m(G, G0, K, K0), dtype=float)
                thunks.append((f"{law}.complementary_potential", {"function": "complementary_potential", "B_n": n0, "B_m": m0},
                               (lambda: obj.complementary_potential(n0.copy(), m0.copy()))))
            purity_check(ctx, rng, thunks, mon="purity", scribble=True)
    ctx.sig([law, sig], nontrivial=strained and judge.decided > 0)
    ctx.sample({"law": law, "regime": spec.get("regime", "directed"), "batch": len(sig),
                "first": dict(zip(("Ei", "Fi", "B_Gamma", "B_Gamma0", "B_Kappa", "B_Kappa0"), sig[0]))})


META = {
    "level_text": "Exploration: the real Simo1986 and Harsch2021 material laws are evaluated on seeded strain states (near, "
                  "moderate and far from the reference strain, pure stretch, stress-free, unit and non-unit |B_Gamma0|, zero/non-zero "
                  "reference curvature, stiffness 1e-3..1e6) and every returned force, couple, tangent, complementary energy and "
                  "compliance matrix is decided against the derivative of the law's own energy / forces (complex step, confirmed by "
                  "Richardson finite differences) and the Legendre-Fenchel relations; held on the inputs generated, not a proof.",
    "level_note": "float64 only; Harsch2021 not evaluated at |B_Gamma| < 1e-3 (energy not differentiable at 0); a discrepancy is a "
                  "violation only when both derivative oracles reject it; relative floor 1e-9 (complex step) / 1e-6 (finite differences).",
    "technique": "runtime return-value monitors with complex-step and finite-difference derivative oracles and Legendre-duality identities + call-history purity monitor with scribbling",
}


def finalize(agg):
    reasons = []
    for k in ("stiffness_repr:int_array", "stiffness_repr:int_list", "stiffness_repr:float_list", "stiffness_repr:float_array"):
        if agg["classes"].get(k, 0) == 0:
            reasons.append(f"input class {k} never reached")
    return reasons
