"""C13 Finite-element basis, quadrature and connectivity are correct.

The real ``LagrangeKnotVector`` / ``LagrangeBasis`` / ``lagrange_basis1D`` /
``gauss`` / ``lobatto`` / ``Mesh1D`` are run and every return value is decided by
definitions evaluated in exact rational arithmetic (``fractions.Fraction``):

* basis.*        partition of unity, zero-sum derivatives, Kronecker property at
                 the element nodes, values/derivatives == the Lagrange polynomials
                 through p+1 equally spaced element nodes (exact reference)
* lookup.*       ``element_number(xi)`` returns 0 <= el < nel with
                 element_interval(el) containing xi (exact float comparison), also
                 at 0, 1, every element boundary and its float neighbours; the
                 element intervals tile [0, 1] and equal the requested partition
* quadrature.*   sum_i w_i p(x_i) (evaluated exactly on the float points/weights)
                 == exact rational integral for all admissible degrees
                 (Gauss 2n-1, Lobatto 2n-3), reference/default and random intervals;
                 Mesh1D.qp/wp integrate over [0, 1] and over each element
* connectivity.* elDOF / nodalDOF / nodalDOF_element (q and u variants):
                 neighbouring elements share exactly the DOFs of the common node
                 ("Lagrange") resp. nothing ("Lagrange_Disc"), non-neighbours
                 nothing, every DOF belongs to one node and some element
* interpolation  nodal values of a polynomial of degree <= p scattered through
                 elDOF/nodalDOF_element and interpolated with eval_basis reproduce
                 the polynomial (ties lookup, basis and connectivity together)
"""

import warnings
import traceback
from fractions import Fraction as F
from functools import lru_cache

import numpy as np
from vlib import env

ID = "C13"
LEVEL = "exploration"
RULE = ("finite part enumerated completely in both tiers: every (degree 1..5, element count 1..12) x basis "
        "{Lagrange, Lagrange_Disc} x quadrature {Gauss n=1..10, Lobatto n=2..10} mesh, every (degree, nel) knot vector "
        "(uniform; non-uniform corner data in addition), every (rule, n, admissible polynomial degree); sampled part: "
        "random xi (plus 0, 1, every element boundary and its float neighbours, every node), random non-uniform partitions, "
        "random intervals (unit, tiny, huge, far from the origin), random integer-coefficient polynomials, dim_q/dim_u/"
        "derivative order. distinct = distinct (kind, grid point, sampled content) hash; non-trivial = the case evaluated "
        "at least one parameter strictly inside an element (basis/lookup/mesh kinds) resp. one polynomial of degree >= 1 "
        "on a non-reference interval (quadrature kind)")
ASSUMPTIONS = [
    "reference values are exact rationals of the float inputs; basis tolerance 1e3*eps*(sum |monomial coefficients| of the reference "
    "polynomial)/len^n; quadrature tolerance 100*eps*(sum|w||p(x_i)| + (|a|+|b|)*sum|w||p'(x_i)|) (measured rounding of the "
    "points/weights on the pinned tree is <= 2.5 of these units)",
    "element lookup is decided by exact float comparisons against the code's own element_interval, and the intervals against the "
    "requested partition (k/nel within 2 ulp for uniform data, exactly the user data otherwise)",
    "xi restricted to [0, 1] (float scalars and lists), intervals with a < b, Lobatto n >= 2, degrees 1..5, nel 1..12 as quantified in the property",
    "values of basis derivatives of order >= 2 are not judged (the property asks only for their zero sum); a mismatch with the exact "
    "derivative is counted under counters['info:derivative_order>=2_differs_from_exact_derivative(not judged)']",
    "node numbering along the rod (node k of element el is global node el*p+k, resp. el*(p+1)+k for Lagrange_Disc) is taken from the code's "
    "documented nnodes formulas and is reported under its own violation text",
]
REQUIRED_MONITORS = ["basis.partition_of_unity", "basis.zero_sum_derivative", "basis.kronecker", "basis.reference",
                     "lookup.contains", "lookup.partition", "quadrature.gauss", "quadrature.lobatto", "quadrature.mesh",
                     "connectivity.shared_nodes", "connectivity.nodal_vs_element", "interpolation"]
CASE_TIMEOUT = 300
WALL_BUDGET = {"quick": 600, "thorough": 2400}

KF_KNOT = "LagrangeKnotVector.__init__/element_data-is-all-nodes"

DEGREES = list(range(1, 6))
NELS = list(range(1, 13))
BASES = ["Lagrange", "Lagrange_Disc"]
EPS = float(np.finfo(float).eps)


# --------------------------------------------------------------------------
# cases
# --------------------------------------------------------------------------
def cases(tier, seed):
    q = tier == "quick"
    out = []
    # directed: the documented constructor argument `data` with degree > 1
    out.append({"kind": "knot_directed", "degree": 2, "nel": 3, "data": [0.0, 0.2, 0.7, 1.0]})
    out.append({"kind": "knot_directed", "degree": 1, "nel": 3, "data": [0.0, 0.2, 0.7, 1.0]})
    for rep in range(1 if q else 3):
        for p in DEGREES:
            for nel in NELS:
                for basis in BASES:
                    out.append({"kind": "mesh", "degree": p, "nel": nel, "basis": basis, "rep": rep})
    for rep in range(1 if q else 8):
        for p in DEGREES:
            for nel in NELS:
                out.append({"kind": "knot", "degree": p, "nel": nel, "rep": rep, "nxi": 34 if q else 100})
    for rep in range(4 if q else 24):
        for p in DEGREES:
            out.append({"kind": "basis", "degree": p, "rep": rep, "nint": 12})
    for rep in range(2 if q else 12):
        for n in range(1, 11):
            out.append({"kind": "quad", "rule": "gauss", "n": n, "rep": rep, "nint": 4})
        for n in range(2, 11):
            out.append({"kind": "quad", "rule": "lobatto", "n": n, "rep": rep, "nint": 4})
    return out


# --------------------------------------------------------------------------
# exact reference models
# --------------------------------------------------------------------------
def _polymul(a, b):
    r = [F(0)] * (len(a) + len(b) - 1)
    for i, x in enumerate(a):
        for j, y in enumerate(b):
            r[i + j] += x * y
    return r


def _polyder(c):
    return [k * ck for k, ck in enumerate(c)][1:] or [F(0)]


def _horner(c, x):
    r = F(0)
    for ck in reversed(c):
        r = r * x + ck
    return r


@lru_cache(maxsize=None)
def ref_lagrange(p, n):
    """coefficients (ascending, in s on [0,1]) of the n-th derivative of the p+1 Lagrange
    polynomials through the nodes j/p, and C = max_j sum_k |coef| (conditioning)."""
    nodes = [F(j, p) for j in range(p + 1)]
    polys = []
    for i in range(p + 1):
        c = [F(1)]
        for j in range(p + 1):
            if j != i:
                d = nodes[i] - nodes[j]
                c = _polymul(c, [-nodes[j] / d, 1 / d])
        for _ in range(n):
            c = _polyder(c)
        polys.append(c)
    C = max(float(sum(abs(ck) for ck in c)) for c in polys)
    return polys, max(C, 1.0)


def ref_basis(p, n, xi, a, b):
    """exact n-th derivative (w.r.t. xi) of the element basis at xi for the element [a, b]; floats"""
    Fa, Fb = F(float(a)), F(float(b))
    s = (F(float(xi)) - Fa) / (Fb - Fa)
    polys, C = ref_lagrange(p, n)
    L = Fb - Fa
    return np.array([float(_horner(c, s) / L**n) for c in polys]), basis_tol(p, n, float(L))


def basis_tol(p, n, L):
    return 1e3 * EPS * ref_lagrange(p, n)[1] / abs(L) ** n


@lru_cache(maxsize=None)
def legendre(d):
    P = [[F(1)], [F(0), F(1)]]
    for k in range(1, d):
        a = [F(0)] + [F(2 * k + 1, k + 1) * c for c in P[k]]
        b = [F(k, k + 1) * c for c in P[k - 1]] + [F(0), F(0)]
        P.append([x - y for x, y in zip(a, b)])
    return tuple(P[d])


def _tb_innermost(e):
    tb = traceback.extract_tb(e.__traceback__)
    return (tb[-1].name, tb[-1].filename) if tb else ("", "")


# --------------------------------------------------------------------------
# generators
# --------------------------------------------------------------------------
def nonuniform_data(rng, nel):
    """strictly increasing corner data from 0 to 1 and its class"""
    kind = ["mild", "graded", "tiny-element", "random"][int(rng.integers(4))]
    if kind == "mild":
        w = rng.uniform(0.5, 2.0, size=nel)
    elif kind == "graded":
        r = rng.uniform(1.2, 3.0) ** (1 if rng.random() < 0.5 else -1)
        w = r ** np.arange(nel)
    elif kind == "tiny-element":
        w = rng.uniform(0.5, 2.0, size=nel)
        w[rng.integers(nel)] = 10.0 ** rng.uniform(-8, -3)
    else:
        w = -np.log(rng.random(nel) + 1e-12)
    c = np.concatenate([[0.0], np.cumsum(w)])
    data = c / c[-1]
    data[0], data[-1] = 0.0, 1.0
    if nel == 1:
        return np.array([0.0, 1.0]), "nonuniform:" + kind
    if np.any(np.diff(data) <= 0):
        data = np.linspace(0, 1, nel + 1) ** 2
    return data, "nonuniform:" + kind


def make_knot_vector(ctx, p, nel, data, site_extra=""):
    """LagrangeKnotVector(p, nel, data) -> object or None (violation reported).
    Defect model of the known finding: AssertionError raised by verify_data for degree > 1
    with valid corner data of length nel+1."""
    from cardillo.rods.discretization.lagrange import LagrangeKnotVector

    try:
        return LagrangeKnotVector(p, nel, data=None if data is None else np.array(data, dtype=float))
    except Exception as e:
        name, fname = _tb_innermost(e)
        key = None
        if (data is not None and p > 1 and isinstance(e, AssertionError) and name == "verify_data"
                and fname.endswith("lagrange.py") and len(data) == nel + 1):
            key = KF_KNOT
        ctx.violation("LagrangeKnotVector.__init__",
                      "constructor raises for valid " + ("user-supplied corner data" if data is not None else "default (uniform) data"),
                      {"degree": p, "nel": nel, "data": data, "exception": type(e).__name__, "message": str(e)[:200],
                       "raised_in": name}, key=key)
        if key is not None:
            ctx.count("masked_stratum:non-uniform knot data with degree > 1")
        return None


def xi_set(rng, corners, p, nrandom):
    """hostile parameters in [0,1] with a class label each"""
    out = [(0.0, "xi=0"), (1.0, "xi=1"), (5e-324, "xi=denormal"), (1e-300, "xi=tiny"), (float(np.nextafter(1.0, 0.0)), "xi=1-ulp")]
    for c in corners:
        c = float(c)
        out.append((c, "xi=corner"))
        for d in (-1, 1):
            x = float(np.nextafter(c, c + d))
            if 0.0 <= x <= 1.0:
                out.append((x, "xi=corner+-ulp"))
            x = c + d * 10.0 ** rng.uniform(-14, -9)
            if 0.0 <= x <= 1.0:
                out.append((x, "xi=corner+-small"))
    for el in range(len(corners) - 1):
        a, b = float(corners[el]), float(corners[el + 1])
        for k in range(1, p):
            out.append((a + k * (b - a) / p, "xi=interior-node"))
    for x in rng.random(nrandom):
        out.append((float(x), "xi=random"))
    return out


def rand_interval(rng, kind):
    if kind == "reference":
        return -1.0, 1.0
    if kind == "unit":
        return 0.0, 1.0
    if kind == "element-like":
        a = float(rng.uniform(0, 1))
        return a, a + float(rng.uniform(1e-3, 1))
    if kind == "tiny":
        a = float(rng.normal())
        return a, a + 10.0 ** rng.uniform(-8, -3)
    if kind == "huge":
        return -10.0 ** rng.uniform(0, 6), 10.0 ** rng.uniform(0, 6)
    if kind == "far":
        a = float(rng.normal() * 1e3)
        return a, a + 10.0 ** rng.uniform(-4, 1)
    if kind == "negative":
        b = -float(rng.uniform(0, 5))
        return b - float(rng.uniform(0.1, 5)), b
    raise ValueError(kind)


INTERVAL_KINDS = ["reference", "unit", "element-like", "tiny", "huge", "far", "negative"]


# --------------------------------------------------------------------------
# monitors
# --------------------------------------------------------------------------
def check_basis_rows(ctx, site, p, xi, a, b, rows, detail, expect_kronecker=None, mon_prefix="basis"):
    """rows: list of arrays [N, N_xi, N_xixi, ...] (each (p+1,)) of the element [a,b] at xi."""
    ok = True
    for n, row in enumerate(rows):
        row = np.asarray(row, dtype=float)
        ref, tol = ref_basis(p, n, xi, a, b)
        det = {**detail, "xi": xi, "element_interval": [a, b], "derivative": n, "returned": row, "reference": ref}
        if row.shape != (p + 1,) or not np.all(np.isfinite(row)):
            ctx.violation(site, "basis row has wrong shape or non-finite entries", det)
            return False
        tol_sum = (p + 1) * max(tol, 1e3 * EPS * float(np.max(np.abs(row))))
        if n == 0:
            ctx.mon(f"{mon_prefix}.partition_of_unity")
            if abs(row.sum() - 1.0) > tol_sum:
                ctx.violation(site, "basis functions do not sum to one", det); ok = False
        else:
            ctx.mon(f"{mon_prefix}.zero_sum_derivative")
            if abs(row.sum()) > tol_sum:
                ctx.violation(site, "basis function derivatives do not sum to zero", det); ok = False
        # (every returned order is judged against the exact derivative of the Lagrange polynomials: a 'zero-sum derivative' that is
        #  not the derivative is not what the clause means; orders >= 2 were off by h^(n-1) on the pinned tree - fixed in /repo)
        ctx.mon(f"{mon_prefix}.reference")
        if np.max(np.abs(row - ref)) > tol:
            ctx.violation(site, "basis values differ from the Lagrange polynomials through the equally spaced element nodes"
                          if n == 0 else "basis derivatives differ from the derivatives of the Lagrange polynomials", det)
            ok = False
    if expect_kronecker is not None:
        ctx.mon(f"{mon_prefix}.kronecker")
        e = np.zeros(p + 1); e[expect_kronecker] = 1.0
        ref0, tol = ref_basis(p, 0, xi, a, b)
        # the float xi is not exactly the node: allow exactly the distance of the exact basis at xi from the unit vector
        if np.max(np.abs(np.asarray(rows[0], dtype=float) - e)) > tol + np.max(np.abs(ref0 - e)):
            ctx.violation(site, "Kronecker property N_i(xi_j) = delta_ij violated at an element node",
                          {**detail, "xi": xi, "element_interval": [a, b], "node": expect_kronecker, "returned": rows[0]})
            ok = False
    return ok


def check_partition(ctx, kv, p, nel, requested, detail):
    """element intervals tile [0,1] and equal the requested partition. requested: list of Fractions
    (uniform: k/nel, tolerance 2 ulp) or floats (user data: exact)."""
    ctx.mon("lookup.partition")
    ivs = [np.asarray(kv.element_interval(el), dtype=float) for el in range(nel)]
    det = {**detail, "intervals": ivs}
    bad = None
    if any(iv.shape != (2,) for iv in ivs):
        bad = "element_interval does not return two numbers"
    elif ivs[0][0] != 0.0 or ivs[-1][1] != 1.0:
        bad = "element intervals do not start at 0 and end at 1"
    elif any(ivs[el][1] != ivs[el + 1][0] for el in range(nel - 1)):
        bad = "consecutive element intervals do not share their end point"
    elif any(iv[1] <= iv[0] for iv in ivs):
        bad = "element interval of non-positive length"
    else:
        for el in range(nel):
            for side in (0, 1):
                r = requested[el + side]
                v = float(ivs[el][side])
                if isinstance(r, F):
                    if abs(F(v) - r) > 2 * EPS:
                        bad = "uniform element boundaries are not k/nel"
                elif v != float(r):
                    bad = "element boundaries differ from the user-supplied corner data"
    if bad:
        ctx.violation("LagrangeKnotVector.element_interval", bad, det)
        return None
    return ivs


def check_lookup(ctx, kv, nel, xi, cls, detail):
    """returns the element (int) or None"""
    ctx.mon("lookup.contains")
    ctx.cls(cls)
    try:
        r = kv.element_number(xi)
        el = int(np.asarray(r).reshape(-1)[0])
        if np.asarray(r).size != 1:
            raise ValueError(f"{np.asarray(r).size} results for one parameter")
    except Exception as e:
        ctx.violation("LagrangeKnotVector.element_number", "lookup raises / returns no single element for xi in [0,1]",
                      {**detail, "xi": xi, "class": cls, "exception": type(e).__name__, "message": str(e)[:200]})
        return None
    if not (0 <= el < nel):
        ctx.violation("LagrangeKnotVector.element_number", "returned element index out of range",
                      {**detail, "xi": xi, "class": cls, "element": el})
        return None
    a, b = (float(v) for v in kv.element_interval(el))
    if not (a <= xi <= b):
        ctx.violation("LagrangeKnotVector.element_number", "returned element does not contain xi",
                      {**detail, "xi": xi, "class": cls, "element": el, "element_interval": [a, b]})
        return None
    return el


def check_connectivity(ctx, mesh, p, nel, basis, dim_q, dim_u, detail):
    """returns True if the q-connectivity is usable for the interpolation check"""
    usable = True
    nn_expected = p * nel + 1 if basis == "Lagrange" else (p + 1) * nel
    for suffix, dim in (("", dim_q), ("_u", dim_u)):
        site = f"Mesh1D.elDOF{suffix}"
        elDOF = np.asarray(getattr(mesh, "elDOF" + suffix))
        nodalDOF = np.asarray(getattr(mesh, "nodalDOF" + suffix))
        nodalDOF_el = np.asarray(getattr(mesh, "nodalDOF_element" + suffix))
        ntot = int(mesh.nq if suffix == "" else mesh.nu)
        nn = int(mesh.nnodes)
        det = {**detail, "which": "q" if suffix == "" else "u", "dim": dim, "elDOF": elDOF, "nodalDOF": nodalDOF,
               "nodalDOF_element": nodalDOF_el, "nnodes": nn, "ndof": ntot}
        ctx.mon("connectivity.nodal_vs_element")
        bad = None
        if elDOF.shape != (nel, (p + 1) * dim) or nodalDOF.shape != (nn, dim) or nodalDOF_el.shape != (p + 1, dim):
            bad = "connectivity arrays have inconsistent shapes"
        elif not (np.issubdtype(elDOF.dtype, np.integer) and np.issubdtype(nodalDOF.dtype, np.integer)):
            bad = "connectivity arrays are not integer"
        elif ntot != nn * dim:
            bad = "number of DOFs is not nnodes * dim"
        elif sorted(nodalDOF.ravel().tolist()) != list(range(ntot)):
            bad = "nodalDOF is not a partition of all DOFs into nodes"
        elif sorted(nodalDOF_el.ravel().tolist()) != list(range((p + 1) * dim)):
            bad = "nodalDOF_element is not a partition of the element DOFs into element nodes"
        elif elDOF.min() < 0 or elDOF.max() >= ntot or any(len(set(r.tolist())) != r.size for r in elDOF):
            bad = "elDOF row has repeated or out-of-range DOFs"
        elif sorted(set(elDOF.ravel().tolist())) != list(range(ntot)):
            bad = "some DOF belongs to no element"
        if bad:
            ctx.violation(site, bad, det)
            usable = usable and suffix != ""
            continue
        row_of = {tuple(r.tolist()): k for k, r in enumerate(nodalDOF)}
        g = -np.ones((nel, p + 1), dtype=int)
        for el in range(nel):
            for a in range(p + 1):
                g[el, a] = row_of.get(tuple(elDOF[el][nodalDOF_el[a]].tolist()), -1)
        if np.any(g < 0):
            ctx.violation(site, "DOFs of an element node (elDOF[el][nodalDOF_element[a]]) are not the DOFs of any global node (nodalDOF)",
                          {**det, "implied_node_map": g})
            usable = usable and suffix != ""
            continue
        if len(set(g.ravel().tolist())) != nn or nn != nn_expected:
            ctx.violation(site, "number of distinct nodes reached through the elements differs from nnodes / the element-node count",
                          {**det, "implied_node_map": g, "expected_nnodes": nn_expected})
        stride = p if basis == "Lagrange" else p + 1
        gexp = np.arange(nel)[:, None] * stride + np.arange(p + 1)[None, :]
        if not np.array_equal(g, gexp):
            ctx.violation(site, "global node numbering of the element nodes does not follow the parameter order",
                          {**det, "implied_node_map": g, "expected_node_map": gexp})
        ctx.mon("connectivity.shared_nodes")
        sets = [set(r.tolist()) for r in elDOF]
        for e1 in range(nel):
            for e2 in range(e1 + 1, nel):
                shared = sets[e1] & sets[e2]
                if basis == "Lagrange" and e2 == e1 + 1:
                    expected = set(nodalDOF[g[e1, p]].tolist()) if g[e1, p] == g[e2, 0] else None
                    if expected is None or shared != expected:
                        ctx.violation(site, "neighbouring elements do not share exactly the DOFs of their common node",
                                      {**det, "elements": [e1, e2], "shared": sorted(shared),
                                       "last_node_left": int(g[e1, p]), "first_node_right": int(g[e2, 0])})
                        usable = usable and suffix != ""
                elif shared:
                    ctx.violation(site, "elements that have no common node share DOFs"
                                  if basis == "Lagrange" else "elements of a discontinuous (Lagrange_Disc) mesh share DOFs",
                                  {**det, "elements": [e1, e2], "shared": sorted(shared)})
                    usable = usable and suffix != ""
    return usable


def _rand_poly(rng, deg):
    c = [int(v) for v in rng.integers(-9, 10, size=deg + 1)]
    if c[-1] == 0:
        c[-1] = 1
    return c


def check_interpolation(ctx, mesh, kv, p, nel, basis, dim_q, ivs, detail):
    """scatter nodal values of degree-<=p polynomials through the connectivity, interpolate with eval_basis"""
    rng = ctx.rng
    disc = basis == "Lagrange_Disc"
    npoly = nel if disc else 1
    polys = [[[F(c) for c in _rand_poly(rng, p)] for _ in range(dim_q)] for _ in range(npoly)]
    q = np.full(int(mesh.nq), np.nan)
    elDOF, nd_el = np.asarray(mesh.elDOF), np.asarray(mesh.nodalDOF_element)
    for el in range(nel):
        a, b = F(float(ivs[el][0])), F(float(ivs[el][1]))
        for k in range(p + 1):
            x = a + F(k, p) * (b - a)
            for c in range(dim_q):
                q[elDOF[el][nd_el[k]][c]] = float(_horner(polys[el if disc else 0][c], x))
    if np.any(np.isnan(q)):
        return  # reported by the connectivity monitor
    dshape = int(mesh.derivative_order) + 1
    pts = []
    for el in range(nel):
        a, b = float(ivs[el][0]), float(ivs[el][1])
        pts += [(el, a, "boundary"), (el, b, "boundary"), (el, a + (b - a) * float(rng.random()), "interior")]
    for xi in rng.random(3):
        pts.append((None, float(xi), "lookup"))
    pts += [(None, 0.0, "lookup"), (None, 1.0, "lookup")]
    for el, xi, kind in pts:
        ctx.mon("interpolation")
        try:
            if el is None:
                el_used = int(kv.element_number(xi)[0])
                NN = np.asarray(mesh.eval_basis(xi), dtype=float)
            else:
                el_used = el
                NN = np.asarray(mesh.eval_basis(xi, el), dtype=float)
            NN = NN.reshape(dshape, p + 1)
        except Exception as e:
            ctx.violation("Mesh1D.eval_basis", "raises / returns an unexpected shape for xi in [0,1]",
                          {**detail, "xi": xi, "el": el, "exception": type(e).__name__, "message": str(e)[:200]})
            continue
        if not (0 <= el_used < nel):
            continue  # reported by the lookup monitor
        a, b = float(ivs[el_used][0]), float(ivs[el_used][1])
        check_basis_rows(ctx, "Mesh1D.eval_basis", p, xi, a, b, list(NN), {**detail, "el": el, "kind": kind}, mon_prefix="basis")
        for c in range(dim_q):
            val = float(sum(NN[0, k] * q[elDOF[el_used][nd_el[k]][c]] for k in range(p + 1)))
            ref = float(_horner(polys[el_used if disc else 0][c], F(xi)))
            if abs(val - ref) > 1e-9 * (1 + abs(ref)):
                ctx.violation("Mesh1D.eval_basis", "interpolation through elDOF/nodalDOF_element does not reproduce a polynomial of the basis degree",
                              {**detail, "xi": xi, "el": el, "element_used": el_used, "kind": kind, "component": c,
                               "interpolated": val, "exact": ref})
                break


def quad_tolerance(w, vals_abs, dvals_abs, a, b):
    return 100 * EPS * (float(np.sum(np.abs(w) * vals_abs)) + (abs(a) + abs(b)) * float(np.sum(np.abs(w) * dvals_abs)))


def check_rule_on_poly(ctx, mon, site, x, w, a, b, coefs, var, detail):
    """coefs ascending Fractions of a polynomial in t (var='t': t=(2x-a-b)/(b-a)) or in x (var='x').
    Exact quadrature sum on the float points/weights vs exact integral."""
    ctx.mon(mon)
    Fa, Fb = F(float(a)), F(float(b))
    xs = [F(float(v)) for v in x]
    if var == "t":
        ts = [(2 * xv - Fa - Fb) / (Fb - Fa) for xv in xs]
        I = (Fb - Fa) / 2 * sum(2 * ck / (k + 1) for k, ck in enumerate(coefs) if k % 2 == 0)
        scale = 2.0 / abs(b - a)
    else:
        ts = xs
        I = sum(ck * (Fb ** (k + 1) - Fa ** (k + 1)) / (k + 1) for k, ck in enumerate(coefs))
        scale = 1.0
    vals = [_horner(coefs, t) for t in ts]
    Q = sum(F(float(wi)) * v for wi, v in zip(w, vals))
    dc = [float(c) for c in _polyder(list(coefs))]
    tf = np.array([float(t) for t in ts])
    dvals = np.abs(np.polynomial.polynomial.polyval(tf, dc)) * scale
    tol = quad_tolerance(np.asarray(w, dtype=float), np.array([abs(float(v)) for v in vals]), dvals, a, b)
    err = abs(float(Q - I))
    if not err <= tol:
        ctx.violation(site, "quadrature sum differs from the exact integral of a polynomial of admissible degree",
                      {**detail, "interval": [a, b], "degree": len(coefs) - 1, "variable": var,
                       "coefficients": [str(c) for c in coefs], "points": x, "weights": w,
                       "quadrature_sum": float(Q), "exact_integral": float(I), "abs_err": err, "tol": tol})
        return False
    return True


# --------------------------------------------------------------------------
# case kinds
# --------------------------------------------------------------------------
def case_knot(spec, ctx, directed=False):
    from cardillo.rods.discretization.lagrange import lagrange_basis1D

    rng = ctx.rng
    p, nel = spec["degree"], spec["nel"]
    sig = []
    interior = False
    variants = [("uniform", None)]
    if directed:
        variants = [("nonuniform:directed", np.array(spec["data"], dtype=float))]
    else:
        d, c = nonuniform_data(rng, nel)
        variants.append((c, d))
    for cname, data in variants:
        ctx.cls(f"knot:{'uniform' if data is None else 'nonuniform'}:p{'1' if p == 1 else '>1'}")
        kv = make_knot_vector(ctx, p, nel, None if data is None else data.tolist())
        if data is None:
            ctx.count("grid_knot_vectors")
        if kv is None:
            continue
        detail = {"degree": p, "nel": nel, "data": "uniform" if data is None else data}
        requested = [F(k, nel) for k in range(nel + 1)] if data is None else list(data)
        ivs = check_partition(ctx, kv, p, nel, requested, detail)
        if ivs is None:
            continue
        corners = [iv[0] for iv in ivs] + [ivs[-1][1]]
        xis = xi_set(rng, corners, p, spec.get("nxi", 20))
        sig.append([cname, [x for x, _ in xis[-5:]]])
        els = []
        for xi, cls in xis:
            el = check_lookup(ctx, kv, nel, xi, cls, detail)
            els.append(el)
            if el is None:
                continue
            a, b = float(ivs[el][0]), float(ivs[el][1])
            interior |= a < xi < b
            dorder = int(rng.integers(0, 3))
            try:
                NN = np.asarray(lagrange_basis1D(p, xi, dorder, kv, squeeze=False), dtype=float).reshape(dorder + 1, p + 1)
            except Exception as e:
                ctx.violation("lagrange_basis1D", "raises / wrong shape for xi in [0,1]",
                              {**detail, "xi": xi, "exception": type(e).__name__, "message": str(e)[:200]})
                continue
            kron = None
            if cls in ("xi=corner", "xi=0", "xi=1"):
                kron = 0 if xi == a else p
            elif cls == "xi=interior-node":
                kron = int(round((xi - a) / (b - a) * p))
            check_basis_rows(ctx, "lagrange_basis1D", p, xi, a, b, list(NN), detail, expect_kronecker=kron)
        # vector input gives the same answer as scalar input
        ctx.mon("lookup.contains")
        try:
            vec = np.asarray(kv.element_number([x for x, _ in xis]))
            scal = np.array([-1 if e is None else e for e in els])
            if vec.shape != scal.shape or np.any((vec != scal) & (scal >= 0)):
                ctx.violation("LagrangeKnotVector.element_number", "list input and scalar input give different elements",
                              {**detail, "scalar": scal, "vector": vec})
        except Exception as e:
            ctx.violation("LagrangeKnotVector.element_number", "raises for a list of parameters in [0,1]",
                          {**detail, "exception": type(e).__name__, "message": str(e)[:200]})
    ctx.sig(["knot", p, nel, sig], nontrivial=interior)
    ctx.sample({"kind": spec["kind"], "degree": p, "nel": nel, "variants": [v[0] for v in variants],
                "some_xi": sig[0][1] if sig else None})


def case_basis(spec, ctx):
    from cardillo.rods.discretization.lagrange import LagrangeBasis

    rng = ctx.rng
    p = spec["degree"]
    sig, interior = [], False
    for i in range(spec["nint"]):
        kind = INTERVAL_KINDS[(i + spec["rep"]) % len(INTERVAL_KINDS)]
        a, b = rand_interval(rng, kind)
        ctx.cls(f"interval:{kind}")
        detail = {"degree": p, "interval_kind": kind}
        try:
            if rng.random() < 0.5:
                lb = LagrangeBasis(p, interval=[a, b])
            else:
                lb = LagrangeBasis(p)
                lb.set_interval(np.array([a, b]))
        except Exception as e:
            ctx.violation("LagrangeBasis.__init__", "raises for a valid degree / interval",
                          {**detail, "interval": [a, b], "exception": type(e).__name__, "message": str(e)[:200]})
            continue
        pts = [(a, 0), (b, p)] + [(a + k * (b - a) / p, k) for k in range(1, p)]
        pts += [(a + (b - a) * float(u), None) for u in rng.random(4)]
        sig.append([a, b, pts[-1][0]])
        nder = int(rng.integers(1, 4))
        for xi, kron in pts:
            if not (a <= xi <= b):
                continue
            interior |= a < xi < b
            try:
                rows = [np.asarray(lb(xi), dtype=float).reshape(-1)]
                for n in range(1, nder + 1):
                    rows.append(np.asarray(lb.deriv(xi, n=n), dtype=float).reshape(-1))
            except Exception as e:
                ctx.violation("LagrangeBasis.__call__", "raises for xi inside the interval",
                              {**detail, "interval": [a, b], "xi": xi, "exception": type(e).__name__, "message": str(e)[:200]})
                continue
            check_basis_rows(ctx, "LagrangeBasis", p, xi, a, b, rows, detail, expect_kronecker=kron)
        # several parameters at once
        xs = [x for x, _ in pts if a <= x <= b]
        try:
            xs_arr = np.array(xs, dtype=float)
            many = np.asarray(lb(xs_arr), dtype=float)
            one = np.vstack([np.asarray(lb(x), dtype=float).reshape(1, -1) for x in xs])
            ctx.mon("basis.reference")
            if many.shape != one.shape or not np.array_equal(many, one):
                ctx.violation("LagrangeBasis.__call__", "array input differs from scalar input", {**detail, "interval": [a, b], "xis": xs})
            # the caller's parameter array belongs to the caller: it must come back unchanged, and evaluating it again (values and
            # derivatives, in any order) must give the same rows
            again_d = np.asarray(lb.deriv(xs_arr, n=1), dtype=float)
            again = np.asarray(lb(xs_arr), dtype=float)
            if not np.array_equal(xs_arr, np.array(xs, dtype=float)):
                ctx.violation("LagrangeBasis.__call__", "the array of parameters handed to the basis is modified in place", {**detail, "interval": [a, b], "before": xs, "after": xs_arr})
            elif again.shape != many.shape or not np.array_equal(again, many):
                ctx.violation("LagrangeBasis.__call__", "evaluating the same parameter array again gives different values", {**detail, "interval": [a, b], "xis": xs})
        except Exception as e:
            ctx.violation("LagrangeBasis.__call__", "raises for an array of parameters",
                          {**detail, "interval": [a, b], "exception": type(e).__name__, "message": str(e)[:200]})
    ctx.sig(["basis", p, sig], nontrivial=interior)
    ctx.sample({"kind": "basis", "degree": p, "intervals": [[s[0], s[1]] for s in sig[:3]]})


def case_quad(spec, ctx):
    import importlib

    gmod = importlib.import_module("cardillo.rods.discretization.gauss")  # (the package re-exports the function under the same name)
    rng = ctx.rng
    name, n = spec["rule"], spec["n"]
    rule = getattr(gmod, name)
    dmax = 2 * n - 1 if name == "gauss" else 2 * n - 3
    mon = f"quadrature.{name}"
    site = f"{name}"
    sig, nontrivial = [], False
    intervals = [("default", None), ("reference", (-1.0, 1.0)), ("unit", (0.0, 1.0))]
    for i in range(spec["nint"]):
        kind = INTERVAL_KINDS[2 + (i + spec["rep"]) % (len(INTERVAL_KINDS) - 2)]
        intervals.append((kind, rand_interval(rng, kind)))
    for kind, ab in intervals:
        ctx.cls(f"interval:{kind}")
        detail = {"rule": name, "n": n, "interval_kind": kind}
        try:
            with warnings.catch_warnings(record=True) as wlog:
                warnings.simplefilter("always")
                if ab is None:
                    x, w = rule(n)
                    a, b = -1.0, 1.0
                else:
                    a, b = ab
                    form = int(rng.integers(3))
                    x, w = rule(n, interval=[np.array([a, b]), [a, b], (a, b)][form])
            if wlog:
                ctx.count("warnings_emitted_by_rule", len(wlog))
            x = np.asarray(x); w = np.asarray(w)
            if x.shape != (n,) or w.shape != (n,) or np.iscomplexobj(x) or np.iscomplexobj(w) \
                    or not np.all(np.isfinite(x)) or not np.all(np.isfinite(w)):
                raise ValueError(f"shapes {x.shape} {w.shape} dtype {x.dtype} {w.dtype}")
            x = x.astype(float); w = w.astype(float)
        except Exception as e:
            ctx.mon(mon)
            ctx.violation(site, "rule raises / does not return n finite real points and weights",
                          {**detail, "interval": ab, "exception": type(e).__name__, "message": str(e)[:200]})
            continue
        sig.append([kind, a, b])
        for d in range(dmax + 1):
            ctx.count("grid_rule_degree") if kind == "reference" else None
            polys = [("legendre", list(legendre(d)), "t"),
                     ("random", [F(c) for c in _rand_poly(rng, d)], "t"),
                     ("monomial", [F(0)] * d + [F(1)], "x")]
            for pname, coefs, var in polys:
                if var == "x" and kind in ("huge", "far") and d > 8:
                    continue  # exact but hopelessly conditioned; the t-polynomials cover these intervals
                check_rule_on_poly(ctx, mon, site, x, w, a, b, coefs, var, {**detail, "polynomial": pname})
                nontrivial |= d >= 1 and kind not in ("default", "reference")
        # sensitivity probe (no verdict): the first non-admissible even degree must be seen as inexact by this oracle
        if kind == "reference":
            dprobe = dmax + 1
            Q = sum(F(float(wi)) * F(float(xi)) ** dprobe for wi, xi in zip(w, x))
            I = F(2, dprobe + 1) if dprobe % 2 == 0 else F(0)
            tol = quad_tolerance(w, np.abs(x) ** dprobe, dprobe * np.abs(x) ** (dprobe - 1), a, b)
            ctx.count("probe_inadmissible_degree_detected" if abs(float(Q - I)) > tol else "probe_inadmissible_degree_missed")
    ctx.sig(["quad", name, n, sig], nontrivial=nontrivial)
    ctx.sample({"kind": "quad", "rule": name, "n": n, "max_degree": dmax, "intervals": sig[:4]})


def case_mesh(spec, ctx):
    from cardillo.rods.discretization.mesh1D import Mesh1D

    rng = ctx.rng
    p, nel, basis, rep = spec["degree"], spec["nel"], spec["basis"], spec["rep"]
    sig, interior = [], False
    # knot vectors: uniform always; non-uniform in addition where it can be constructed
    kvs = [("uniform", None, make_knot_vector(ctx, p, nel, None))]
    data, cname = nonuniform_data(rng, nel)
    kv_nu = make_knot_vector(ctx, p, nel, data.tolist())
    if kv_nu is not None:
        kvs.append((cname, data, kv_nu))
    for cname, data, kv in kvs:
        if kv is None:
            continue
        base = {"degree": p, "nel": nel, "basis": basis, "data": "uniform" if data is None else data}
        requested = [F(k, nel) for k in range(nel + 1)] if data is None else list(data)
        ivs = check_partition(ctx, kv, p, nel, requested, base)
        if ivs is None:
            continue
        rules = [("Gauss", n) for n in range(1, 11)] + [("Lobatto", n) for n in range(2, 11)]
        if data is not None:  # non-uniform meshes: a sample of the rules (the grid is enumerated on uniform data)
            rules = [rules[int(i)] for i in rng.choice(len(rules), size=4, replace=False)]
        for quad, n in rules:
            dim_q = int(rng.integers(1, 5))
            dim_u = None if rng.random() < 0.4 else int(rng.integers(1, 5))
            dorder = int(rng.integers(0, 3))
            detail = {**base, "quadrature": quad, "nquadrature": n, "dim_q": dim_q, "dim_u": dim_u, "derivative_order": dorder}
            ctx.cls(f"mesh:{basis}:{quad}:{'uniform' if data is None else 'nonuniform'}")
            ctx.cls(f"mesh:dim_u={'None' if dim_u is None else ('=dim_q' if dim_u == dim_q else '!=dim_q')}")
            if data is None:
                ctx.count("grid_meshes")
            try:
                with warnings.catch_warnings(record=True) as wlog:
                    warnings.simplefilter("always")
                    mesh = Mesh1D(kv, n, dim_q=dim_q, derivative_order=dorder, basis=basis, quadrature=quad, dim_u=dim_u)
                if wlog:
                    ctx.count("warnings_emitted_by_rule", len(wlog))
            except Exception as e:
                nm, _ = _tb_innermost(e)
                ctx.violation("Mesh1D.__init__", "constructor raises for a valid configuration",
                              {**detail, "exception": type(e).__name__, "message": str(e)[:200], "raised_in": nm})
                continue
            sig.append([cname, quad, n, dim_q, dim_u, dorder])
            # ---- connectivity
            usable = check_connectivity(ctx, mesh, p, nel, basis, dim_q, dim_q if dim_u is None else dim_u, detail)
            # ---- quadrature of the mesh
            qp, wp = np.asarray(mesh.qp, dtype=float), np.asarray(mesh.wp, dtype=float)
            dmax = 2 * n - 1 if quad == "Gauss" else 2 * n - 3
            ctx.mon("quadrature.mesh")
            if qp.shape != (nel, n) or wp.shape != (nel, n) or not np.all(np.isfinite(qp)) or not np.all(np.isfinite(wp)):
                ctx.violation("Mesh1D.quadrature_points", "qp / wp have wrong shape or non-finite entries", {**detail, "qp": qp, "wp": wp})
                continue
            slack = 4 * EPS  # end points of a Lobatto rule are mapped with rounding
            outside = [(el, i) for el in range(nel) for i in range(n)
                       if not (ivs[el][0] - slack <= qp[el, i] <= ivs[el][1] + slack)]
            if outside:
                ctx.violation("Mesh1D.quadrature_points", "quadrature point outside its element",
                              {**detail, "element_point": outside[0], "qp": qp[outside[0][0]], "interval": ivs[outside[0][0]]})
            # whole rod: sum over elements integrates a polynomial in xi over [0, 1]
            coefs = [F(c) for c in _rand_poly(rng, dmax)]
            Q = sum(F(float(wp[el, i])) * _horner(coefs, F(float(qp[el, i]))) for el in range(nel) for i in range(n))
            I = sum(ck / (k + 1) for k, ck in enumerate(coefs))
            dc = [float(c) for c in _polyder(coefs)]
            vals = np.abs(np.polynomial.polynomial.polyval(qp.ravel(), [float(c) for c in coefs]))
            tol = quad_tolerance(wp.ravel(), vals, np.abs(np.polynomial.polynomial.polyval(qp.ravel(), dc)), 0.0, 1.0)
            if not abs(float(Q - I)) <= tol:
                ctx.violation("Mesh1D.quadrature_points", "element quadrature summed over the mesh does not integrate an admissible polynomial over [0,1] exactly",
                              {**detail, "degree": dmax, "coefficients": [str(c) for c in coefs], "sum": float(Q), "exact": float(I), "tol": tol})
            # one element: integral of the element shape functions (degree p) where admissible
            els_sample = sorted(set([0, nel - 1, int(rng.integers(nel))]))
            for el in els_sample:
                a, b = float(ivs[el][0]), float(ivs[el][1])
                check_rule_on_poly(ctx, "quadrature.mesh", "Mesh1D.quadrature_points", qp[el], wp[el], a, b,
                                   list(legendre(dmax)), "t", {**detail, "element": el, "polynomial": "legendre"})
            # ---- shape functions stored at the quadrature points
            stored = [np.asarray(mesh.N, dtype=float)]
            if dorder > 0:
                stored.append(np.asarray(mesh.N_xi, dtype=float))
            if dorder > 1:
                stored.append(np.asarray(mesh.N_xixi, dtype=float))
            if any(s.shape != (nel, n, p + 1) for s in stored):
                ctx.violation("Mesh1D.shape_functions", "stored shape function arrays have the wrong shape",
                              {**detail, "shapes": [list(s.shape) for s in stored]})
                continue
            for el in range(nel):
                a, b = float(ivs[el][0]), float(ivs[el][1])
                full = el in els_sample
                for i in range(n):
                    rows = [s[el, i] for s in stored]
                    interior |= a < qp[el, i] < b
                    if full:
                        check_basis_rows(ctx, "Mesh1D.shape_functions", p, float(qp[el, i]), a, b, rows,
                                         {**detail, "element": el, "point": i})
                    else:  # sums only (cheap), all elements
                        for k, row in enumerate(rows):
                            tol_k = max(basis_tol(p, k, b - a), 1e3 * EPS * float(np.max(np.abs(row))))
                            ctx.mon("basis.partition_of_unity" if k == 0 else "basis.zero_sum_derivative")
                            if abs(row.sum() - (1.0 if k == 0 else 0.0)) > tol_k * (p + 1):
                                ctx.violation("Mesh1D.shape_functions", "stored basis functions do not sum to one" if k == 0
                                              else "stored basis function derivatives do not sum to zero",
                                              {**detail, "element": el, "point": i, "derivative": k, "row": row})
            # ---- element nodes: Kronecker through the mesh API (explicit element)
            for el in els_sample:
                a, b = float(ivs[el][0]), float(ivs[el][1])
                for k in range(p + 1):
                    xi = a if k == 0 else (b if k == p else a + k * (b - a) / p)
                    try:
                        NN = np.asarray(mesh.eval_basis(xi, el), dtype=float).reshape(dorder + 1, p + 1)
                    except Exception as e:
                        ctx.violation("Mesh1D.eval_basis", "raises / returns an unexpected shape for xi in [0,1]",
                                      {**detail, "xi": xi, "el": el, "exception": type(e).__name__, "message": str(e)[:200]})
                        continue
                    check_basis_rows(ctx, "Mesh1D.eval_basis", p, xi, a, b, list(NN), {**detail, "el": el}, expect_kronecker=k)
            # ---- interpolation through the connectivity
            if usable:
                check_interpolation(ctx, mesh, kv, p, nel, basis, dim_q, ivs, detail)
    ctx.sig(["mesh", p, nel, basis, rep, sig], nontrivial=interior)
    ctx.sample({"kind": "mesh", "degree": p, "nel": nel, "basis": basis, "meshes": len(sig), "first": sig[0] if sig else None})


def run_case(spec, ctx):
    env.import_cardillo()
    kind = spec["kind"]
    ctx.cls(f"kind:{kind}")
    if kind == "knot":
        case_knot(spec, ctx)
    elif kind == "knot_directed":
        case_knot(spec, ctx, directed=True)
    elif kind == "basis":
        case_basis(spec, ctx)
    elif kind == "quad":
        case_quad(spec, ctx)
    elif kind == "mesh":
        case_mesh(spec, ctx)
    else:
        raise ValueError(kind)


def finalize(agg):
    """the finite part must have been enumerated completely"""
    reasons = []
    reps = {"quick": (1, 1, 2), "thorough": (3, 8, 12)}[agg["tier"]]
    ex = agg["extra"]
    want_meshes = reps[0] * len(DEGREES) * len(NELS) * len(BASES) * 19
    want_knots = reps[1] * len(DEGREES) * len(NELS)
    want_rule_deg = reps[2] * (sum(2 * n for n in range(1, 11)) + sum(2 * n - 2 for n in range(2, 11)))
    got = (ex.get("grid_meshes", 0), ex.get("grid_knot_vectors", 0), ex.get("grid_rule_degree", 0))
    agg["extra_out"] = {"finite_grid": {"meshes(degree x nel x basis x rule x n)": [got[0], want_meshes],
                                        "knot_vectors(degree x nel)": [got[1], want_knots],
                                        "rule_degree(rule x n x admissible degree)": [got[2], want_rule_deg]}}
    if got[0] != want_meshes:
        reasons.append(f"mesh grid not enumerated completely: {got[0]} of {want_meshes}")
    if got[1] != want_knots:
        reasons.append(f"knot-vector grid not enumerated completely: {got[1]} of {want_knots}")
    if got[2] != want_rule_deg:
        reasons.append(f"(rule, n, degree) grid not enumerated completely: {got[2]} of {want_rule_deg}")
    if ex.get("probe_inadmissible_degree_missed", 0) > 0:
        reasons.append("the quadrature oracle failed to see the error of a rule on the first inadmissible degree (oracle too weak)")
    return reasons


META = {
    "level_text": "Exploration with a completely enumerated finite part: every degree 1..5 x element count 1..12 x {Lagrange, Lagrange_Disc} x "
                  "{Gauss n=1..10, Lobatto n=2..10} mesh and every (rule, n, admissible degree) is built with the real code in both tiers; "
                  "parameters xi, non-uniform partitions, intervals and polynomials are sampled (seeded, hostile: 0, 1, element boundaries "
                  "and their float neighbours, tiny/huge/far intervals). Every return value is decided against exact rational (Fraction) "
                  "references; held on what was generated, not a proof.",
    "level_note": "float64 inputs, xi in [0,1] as float scalars/lists; non-uniform knot data with degree > 1 cannot be constructed on the pinned "
                  "tree (known finding), that stratum is covered only through LagrangeBasis on arbitrary intervals; node numbering convention taken from the code.",
    "technique": "runtime return-value monitors with exact rational reference models (Lagrange polynomials, polynomial integrals) and structural connectivity invariants",
}
