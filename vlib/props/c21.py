"""C21 Non-convergence is never silent (fault enumeration through guarded failpoints)."""

import re
import io
import warnings
import contextlib
import numpy as np
from vlib import env, gen

ID = "C21"
LEVEL = "fault_enumeration"
RULE = ("enumeration of injection points: failpoint site (which nonlinear solve / fixed-point loop of which solver) x step "
        "{first, second, middle, last} x continue_with_unconverged {off, on} x system {smooth pendulum with revolute joint and "
        "compliance spring, ball resting / bouncing on a plane with friction}; plus hook-free provocation (max_iter = 1 with "
        "tolerances 1e-14, NaN right-hand side from a given time) and solvers that cannot treat contacts run on a contact system. "
        "Outcome classes: raised / returned with warning (full or truncated) / returned silently; only the last is a violation, "
        "as is returning rows beyond the last converged step or a truncation warning that does not name the stop time. "
        "distinct = (site, step class, flag, system); non-trivial = the injection was consumed (hook log) or the natural failure occurred")
ASSUMPTIONS = ["the failpoints (cardillo/_verif_hooks.py, guard CARDILLOPROJECT_CARDILLO_VERIF=1) force the convergence flag of the chosen solve/loop to False at the chosen step; everything downstream is the real code",
               "'names the time' = the warning text contains a number within one step of the last returned time (last converged time or time of the failed step)",
               "with continue_with_unconverged on, both 'warn and continue' and 'raise' are accepted (the property's subject is silence)",
               "a case whose injection was not consumed is not judged; every listed site must be consumed at least once or the check is inconclusive"]
META = {
    "level_text": "Fault enumeration: every failpoint site of every solver is forced to report non-convergence at first/second/middle/last step with continue_with_unconverged off and on, on a smooth and a contact system; the observable outcome (exception, warnings, returned Solution) is classified. Held on the enumerated injection points; natural provocation and unsupported-model runs are explored in addition.",
    "level_note": "injection happens at the convergence flag after the real solve; sites listed in the evidence with the number of consumed injections.",
    "technique": "fault injection at guarded failpoints with outcome classifier over exceptions, warnings and returned solutions",
}
CASE_TIMEOUT = 240
NSTEPS = 8
DT = 1e-2

# site -> (solver, systems on which the site is reachable)
SITES = {
    "moreau.fp": ("Moreau", ["contact"]),
    "rattle.newton": ("Rattle", ["smooth", "contact"]),
    "rattle.fp1": ("Rattle", ["smooth", "contact"]),
    "rattle.fp2": ("Rattle", ["smooth", "contact"]),
    "be.newton1": ("BackwardEuler", ["smooth", "contact"]),
    "be.fp": ("BackwardEuler", ["contact"]),
    "be.newton2": ("BackwardEuler", ["contact"]),
    "dsv.fixed_point_iteration": ("DualStormerVerlet", ["smooth", "contact"]),
    "dsv.fixed_point_iteration_with_momentum": ("DualStormerVerlet", ["smooth", "contact"]),
    "statics.newton": ("Newton", ["static"]),
    "riks.newton": ("Riks", ["static"]),
    "cic.fp": ("assemble", ["contact"]),
}
STEPS = {"first": 0, "second": 1, "middle": NSTEPS // 2, "last": NSTEPS - 1}
REQUIRED_MONITORS = ["outcome"]


def cases(tier, seed):
    out = []
    reps = {"quick": 1, "thorough": 12}[tier]
    for r in range(reps):
        for site, (solver, systems) in SITES.items():
            for sysk in systems:
                for sname in STEPS:
                    if site == "cic.fp" and sname != "first":
                        continue
                    if site == "riks.newton" and sname in ("middle", "last"):
                        continue
                    for cont in (False, True):
                        out.append({"kind": "inject", "site": site, "solver": solver, "system": sysk, "step": sname, "continue": cont, "rep": r})
                if sysk == "contact" and site != "cic.fp":
                    # the failing solve sits in the step in which the ball hits the ground (contact forces change within the
                    # step, so further solves follow the failed one inside the same step)
                    for cont in (False, True):
                        out.append({"kind": "inject", "site": site, "solver": solver, "system": sysk, "step": "impact", "continue": cont, "rep": r})
                if site == "statics.newton":
                    # the very first solve (load step 0, the unloaded state) fails: nothing converged, nothing may be returned
                    for cont in (False, True):
                        out.append({"kind": "inject", "site": site, "solver": solver, "system": sysk, "step": "zero", "continue": cont, "rep": r})
        for solver in ("Moreau", "Rattle", "BackwardEuler", "DualStormerVerlet", "Newton"):
            for how in ("newton_max_iter", "fixed_point_max_iter"):
                for cont in (False, True):
                    out.append({"kind": "natural", "solver": solver, "how": how, "continue": cont, "system": "contact" if solver != "Newton" else "static", "rep": r})
        for cont in (False, True):
            out.append({"kind": "natural", "solver": "Newton", "how": "nan_load", "continue": cont, "system": "static", "rep": r})
        for solver in ("ScipyIVP", "ScipyDAE"):
            out.append({"kind": "unsupported_contacts", "solver": solver, "rep": r})
            out.append({"kind": "unsupported_friction", "solver": solver, "rep": r})
            out.append({"kind": "nan_rhs", "solver": solver, "rep": r})
        for solver in ("DualStormerVerlet", "Newton", "Riks", "Moreau", "Rattle"):
            out.append({"kind": "actuators", "solver": solver, "rep": r})
    return out


# ---------------------------------------------------------------- systems
def _smooth(rng):
    from cardillo import System
    from cardillo.discrete import RigidBody
    from cardillo.constraints import Revolute
    from cardillo.forces import Force
    from cardillo.force_laws import Spring
    from cardillo.interactions import TwoPointInteraction
    S = System()
    m = float(rng.uniform(0.5, 2))
    q0 = np.array([float(rng.uniform(0.3, 1)), 0, 0, 1, 0, 0, 0.0])
    body = RigidBody(m, np.diag(rng.uniform(0.05, 0.2, size=3)), q0=q0, u0=np.zeros(6), name="body")
    joint = Revolute(S.origin, body, axis=int(rng.integers(1, 3)), r_OJ0=np.zeros(3), A_IJ0=np.eye(3), name="rev")
    tpi = TwoPointInteraction(S.origin, body, B_r_CP2=np.array([0.1, 0.05, 0.0]))
    spring = Spring(tpi, float(rng.uniform(5, 50)), l_ref=float(rng.uniform(0.2, 0.8)), compliance_form=bool(rng.random() < 0.5), name="spring")
    S.add(body, joint, spring, Force(np.array([0, 0, -9.81 * m]), body, name="grav"))
    S.assemble()
    return S


class _BlockOnBelt:
    """the contribution of examples/friction_belt: a block on a belt, dry friction with a CONSTANT force reservoir (a friction
    law that does not depend on any normal contact: nla_F > 0, nla_N == 0)"""

    def __init__(self, rng):
        from cardillo.math.prox import Sphere
        self.mass, self.k, self.u_b = float(rng.uniform(0.5, 2)), float(rng.uniform(0.5, 3)), float(rng.uniform(1, 3))
        self.nq = self.nu = 1
        self.q0, self.u0 = np.array([float(rng.normal() * 0.2)]), np.array([float(rng.normal() * 0.2)])
        self.reservoir = float(rng.uniform(2, 6))
        self.friction_laws = [([], [0], Sphere(self.reservoir))]
        self.nla_F = 1
        self.e_F = np.zeros(1)
        self.name = "block_on_belt"

    def q_dot(self, t, q, u):
        return u

    def q_dot_u(self, t, q):
        return np.eye(1)

    def M(self, t, q):
        return np.diag([self.mass])

    def h(self, t, q, u):
        return np.array([-self.k * q[0]])

    def h_q(self, t, q, u):
        return np.array([[-self.k]])

    def h_u(self, t, q, u):
        return np.zeros((1, 1))

    def gamma_F(self, t, q, u):
        return np.array([u[0] - self.u_b])

    def gamma_F_u(self, t, q):
        return np.ones((1, 1))

    def gamma_F_dot(self, t, q, u, u_dot):
        return np.array([u_dot[0]])

    def W_F(self, t, q):
        return np.ones((1, 1))

    def Wla_F_q(self, t, q, la_F):
        return np.zeros((1, 1))


def _contact(rng, resting=True):
    from cardillo import System
    from cardillo.discrete import RigidBody
    from cardillo.contacts import Sphere2Plane
    from cardillo.forces import Force
    S = System()
    m, r = float(rng.uniform(0.5, 2)), float(rng.uniform(0.05, 0.3))
    h = r if resting else r + 0.5 * 9.81 * (2.5 * DT) ** 2   # closes during the 3rd step
    q0 = np.array([0, 0, h, 1, 0, 0, 0.0])
    u0 = np.array([float(rng.normal()), float(rng.normal()), 0, 0, 0, 0.0]) * (1.0 if rng.random() < 0.7 else 0.0)
    ball = RigidBody(m, 0.4 * m * r * r * np.eye(3), q0=q0, u0=u0, name="ball")
    con = Sphere2Plane(S.origin, ball, float(rng.uniform(0.1, 0.8)), r=r, e_N=float(rng.uniform(0, 0.5)), e_F=0.0, name="contact")
    S.add(ball, con, Force(np.array([0, 0, -9.81 * m]), ball, name="grav"))
    return S


def _static(rng, nan_after=None):
    from cardillo import System
    from cardillo.discrete import RigidBody
    from cardillo.forces import Force
    from cardillo.force_laws import Spring
    from cardillo.interactions import TwoPointInteraction
    S = System()
    m = float(rng.uniform(0.5, 2))
    body = RigidBody(m, np.diag([0.1, 0.1, 0.1]), q0=np.array([0.3, 0.2, -1.0, 1, 0, 0, 0]), u0=np.zeros(6), name="body")
    for k, p in enumerate(([1.0, 0, 0], [-1.0, 0.5, 0], [0, -1.0, 0.2], [0.2, 0.3, 1.0])):
        from cardillo.discrete import Frame
        f = Frame(r_OP=np.array(p), name=f"anchor{k}")
        tpi = TwoPointInteraction(f, body, B_r_CP2=0.1 * np.eye(3)[k % 3])
        S.add(f, Spring(tpi, float(rng.uniform(20, 60)), l_ref=0.8, compliance_form=False, name=f"spring{k}"))
    if nan_after is None:
        S.add(body, Force(lambda t: t * np.array([0, 0, -9.81 * m]), body, name="grav"))
    else:
        S.add(body, Force(lambda t: (t if t <= nan_after else float("nan")) * np.array([0, 0, -9.81 * m]), body, name="grav"))
    S.assemble()
    return S


KF_CONTINUE = "DualStormerVerlet,Riks/continue_with_unconverged-ignored"
SAYS_SO = re.compile(r"converge|failed|fails|returning|truncat|cannot treat|ignored|not supported|stopp", re.I)
_FLOAT = re.compile(r"[-+]?(?:\d+\.\d*|\.\d+|\d+)(?:[eE][-+]?\d+)?")


def _names_time(messages, t_last, step):
    for msg in messages:
        for tok in _FLOAT.findall(msg):
            try:
                v = float(tok)
            except ValueError:
                continue
            if abs(v - t_last) <= 1.01 * step + 1e-12:
                return True
    return False


class FsolveTrace:
    """replaces the name `fsolve` bound in the solver modules by a recording wrapper"""

    def __init__(self):
        import cardillo.solver.rattle as a, cardillo.solver.backward_euler as b, cardillo.solver.statics as c
        self.mods = [a, b, c]
        self.flags = []

    def __enter__(self):
        self.saved = [m.fsolve for m in self.mods]
        for m, f in zip(self.mods, self.saved):
            def wrapped(*args, _f=f, **kw):
                r = _f(*args, **kw)
                self.flags.append(bool(r.success))
                return r
            m.fsolve = wrapped
        return self

    def __exit__(self, *exc):
        for m, f in zip(self.mods, self.saved):
            m.fsolve = f


def _run(ctx, make_solver, det, t_first_bad, step, cont, nrows_full, injected_site=None):
    """run the solver, classify the outcome. t_first_bad: time reached by the first unconverged step (None: unknown)."""
    from cardillo import _verif_hooks as vh
    buf = io.StringIO()
    outcome, sol, err = None, None, None
    with warnings.catch_warnings(record=True) as wlist, contextlib.redirect_stdout(buf), contextlib.redirect_stderr(buf), FsolveTrace() as tr:
        warnings.simplefilter("always")
        try:
            solver = make_solver()
            sol = solver.solve() if hasattr(solver, "solve") else solver
        except Exception as e:
            err = e
    det = {**det, "fsolve_calls": len(tr.flags), "failure_observed": not all(tr.flags)}
    ctx.count("fsolve_calls_traced", len(tr.flags))
    all_msgs = [str(w.message) for w in wlist if "constant_mass_matrix" not in str(w.message)]
    # only a message that speaks about the failure counts as 'not silent': incidental numpy / scipy warnings (invalid value
    # encountered, overflow, matrix is exactly singular) do not tell the user that a solve failed or where the run stopped
    msgs = [m for m in all_msgs if SAYS_SO.search(m)]
    det = {**det, "other_warnings": [m for m in all_msgs if m not in msgs][:3]}
    consumed = list(vh.log)
    if injected_site is not None and not any(s == injected_site for s, _ in consumed):
        ctx.count(f"not_consumed:{injected_site}")
        ctx.cls("injection_not_consumed")
        return "not_consumed"
    if injected_site is not None:
        ctx.count(f"consumed:{injected_site}")
    ctx.mon("outcome")
    det = {**det, "warnings": msgs[:4], "stdout_tail": buf.getvalue()[-200:]}
    if det.get("kind") == "natural" and det["failure_observed"]:
        ctx.cls("natural:fsolve_failure_observed")
    if err is not None:
        ctx.cls(f"outcome:raised:{type(err).__name__}")
        if cont and (injected_site is not None or det.get("failure_observed")) and str(det.get("solver")) != "assemble":
            # (System.assemble is not a solver: its initial fixed point may refuse whatever the option says)
            # 'with continue_with_unconverged enabled it warns and continues': an exception is loud, but it is not that
            solver_ = str(det.get("solver"))
            key = KF_CONTINUE if (solver_.startswith("DualStormerVerlet") or solver_ == "Riks") else None
            ctx.violation(f"{solver_}.solve", "a failed iteration raises although continue_with_unconverged is enabled (all computed steps are lost)",
                          {**det, "error": f"{type(err).__name__}: {err}"[:200]}, key=key)
        return "raised"
    t = np.asarray(sol.t, dtype=float)
    det["returned_rows"] = len(t)
    det["t_last"] = float(t[-1]) if len(t) else None
    if not msgs and injected_site == "statics.newton" and cont:
        # Newton delegates the 'not converged' warning to fsolve; the failpoint sits after fsolve, so this injection
        # cannot show the warning. Real failures of this path are covered by the natural provocation cases.
        ctx.cls("outcome:not_judged:warning_delegated_to_fsolve")
        return "not_judged"
    q_ret = np.asarray(getattr(sol, "q", np.zeros((0, 0))), dtype=float)
    if not msgs and q_ret.size and not np.all(np.isfinite(q_ret)):
        # whatever the helper reported: a state that is not a number is not a converged step, and nobody said so
        bad_rows = np.where(~np.all(np.isfinite(q_ret.reshape(len(q_ret), -1)), axis=1))[0]
        ctx.cls("outcome:returned_non_finite_rows_silently")
        ctx.violation(f"{det.get('solver')}.solve", "a nonlinear solve / fixed-point loop failed and the solver returned without any warning",
                      {**det, "non_finite_rows": bad_rows[:6], "t_of_first_non_finite_row": float(t[bad_rows[0]]) if len(t) > bad_rows[0] else None})
        return "silent"
    if not msgs and det.get("kind") == "natural" and t_first_bad is not None and len(t) and t[-1] >= t_first_bad - 1e-9 * step:
        # the provocation is one that cannot converge by construction (the load is not a number from t_first_bad on): rows at
        # or beyond that time were returned and nothing was said - whatever success flags the helpers exchanged
        ctx.cls("outcome:returned_silently")
        ctx.violation(f"{det.get('solver')}.solve", "a nonlinear solve / fixed-point loop failed and the solver returned without any warning",
                      {**det, "first_time_at_which_no_solution_exists": t_first_bad})
        return "silent"
    if not msgs and det.get("kind") == "natural" and not det.get("failure_observed") and len(t) == nrows_full:
        ctx.cls("outcome:natural_provocation_did_not_fail")
        return "no_failure"
    if not msgs:
        ctx.cls("outcome:returned_silently")
        ctx.violation(f"{det.get('solver')}.solve", "a nonlinear solve / fixed-point loop failed and the solver returned without any warning", det)
        return "silent"
    if cont:
        ctx.cls("outcome:warned_and_continued")
        return "warned"
    # continue flag off: only converged steps may be returned, and the warning must name the stop time
    if t_first_bad is not None and len(t) and t[-1] >= t_first_bad - 1e-9 * step:
        ctx.cls("outcome:returned_unconverged_rows")
        ctx.violation(f"{det.get('solver')}.solve", "returned rows at or beyond the first unconverged step although continue_with_unconverged is off",
                      {**det, "first_unconverged_time": t_first_bad})
        return "unconverged_rows"
    t_last = float(t[-1]) if len(t) else (t_first_bad - step if t_first_bad is not None else 0.0)
    named = _names_time(msgs, t_last, step)
    if not len(t) and not named:
        # nothing was returned at all: the run may also have stopped in its very first step, the time named is then the initial one
        named = _names_time(msgs, 0.0, step)
    if not named:
        ctx.cls("outcome:truncated_without_time")
        ctx.violation(f"{det.get('solver')}.solve", "truncated solution returned but no warning names the time at which the solver stopped", det)
        return "no_time"
    ctx.cls("outcome:truncated_with_warning")
    return "truncated"


def run_case(spec, ctx):
    env.import_cardillo()
    import cardillo.solver as sv
    from cardillo.solver import SolverOptions
    from cardillo import _verif_hooks as vh
    rng = ctx.rng
    kind = spec["kind"]
    vh.reset()
    det = dict(spec)
    consumed = False
    if not vh.ENABLED:
        raise RuntimeError("hooks are not enabled")
    t1 = NSTEPS * DT

    def dyn_solver(name, S, opts):
        if name == "DualStormerVerlet":
            return sv.DualStormerVerlet(S, t1, DT, options=opts, linear_solver="LU", accelerated=True)
        return getattr(sv, name)(S, t1, DT, options=opts)

    if kind == "inject":
        site, solver, sysk = spec["site"], spec["solver"], spec["system"]
        k = STEPS.get(spec["step"], -1)
        cont = spec["continue"]
        opts = SolverOptions(continue_with_unconverged=cont)
        with gen.quiet():
            if site == "cic.fp":
                S = _contact(rng, resting=True)
                vh.reset(); vh.plan[site] = {0}
                res = _run(ctx, lambda: (S.assemble(options=opts), type("R", (), {"t": [0.0]})())[1], det, None, DT, cont, 1, injected_site=site)
            elif sysk == "static":
                S = _static(rng)
                n_load = NSTEPS
                vh.reset()
                if solver == "Newton":
                    vh.plan[site] = {k + 1 if k + 1 <= n_load else n_load}   # load step 0 is the unloaded state
                    kk = min(k + 1, n_load)                                  # (step "zero": k = -1, i.e. load step 0 itself)
                    res = _run(ctx, lambda: sv.Newton(S, n_load_steps=n_load, verbose=False, options=opts), {**det, "load_step": kk},
                               kk / n_load, 1.0 / n_load, cont, n_load + 1, injected_site=site)
                else:
                    vh.plan[site] = {k}
                    res = _run(ctx, lambda: sv.Riks(S, la_arc0=0.05, la_arc_span=[0.0, 1.0], iter_goal=3, options=opts), det, None, 1.0, cont, None, injected_site=site)
            else:
                impact = spec["step"] == "impact"
                if impact:
                    k = 2                                            # _contact(resting=False) closes during the third step
                S = _smooth(rng) if sysk == "smooth" else _contact(rng, resting=not impact)
                if sysk == "contact":
                    S.assemble()
                vh.reset()
                vh.plan[site] = {k}
                t0_ = S.t0
                vh.unit_key = lambda tn, t0_=t0_: int(round((tn - t0_) / DT))
                if site == "be.newton2":
                    vh.plan["be.fp"] = {k}     # keeps the fixed-point loop alive so that the in-loop Newton solve is reached
                if site == "dsv.fixed_point_iteration":
                    pass
                res = _run(ctx, lambda: dyn_solver(solver, S, opts), det, S.t0 + (k + 1) * DT, DT, cont, NSTEPS + 1, injected_site=site)
        consumed = res != "not_consumed"
        ctx.cls(f"site:{spec['site']}")
    elif kind == "natural":
        solver, how, cont = spec["solver"], spec["how"], spec["continue"]
        kw = {"continue_with_unconverged": cont}
        if how == "newton_max_iter":
            kw.update(newton_max_iter=1, newton_atol=1e-14, newton_rtol=1e-14)
        elif how == "nan_load":
            pass        # default options; the load curve is undefined (NaN) beyond half of the load range
        else:
            kw.update(fixed_point_max_iter=1, fixed_point_atol=1e-14, fixed_point_rtol=1e-14)
        with gen.quiet():
            if solver == "Newton":
                S = _static(rng, nan_after=0.55 if how == "nan_load" else None)
                res = _run(ctx, lambda: sv.Newton(S, n_load_steps=4, verbose=False, options=SolverOptions(**kw)), det, 0.75 if how == "nan_load" else None, 0.25, cont, 5)
            else:
                S = _contact(rng, resting=bool(rng.random() < 0.5))
                try:
                    S.assemble()
                except AssertionError as e_:
                    if "does not converge" not in str(e_):
                        raise
                    # the initial fixed point of the generated scene gave up (loudly): there is no run to judge
                    ctx.undecided("System.assemble: initial fixed-point iteration did not converge (said so)")
                    ctx.sig([spec], nontrivial=False)
                    return
                res = _run(ctx, lambda: dyn_solver(solver, S, SolverOptions(**kw)), det, None, DT, cont, NSTEPS + 1)
        # a natural provocation that happens to converge anyway returns a full solution without warning: not a failure case
        consumed = True
        ctx.cls(f"natural:{solver}:{how}")
    elif kind == "unsupported_contacts":
        with gen.quiet():
            S = _contact(rng, resting=False)
            S.assemble()
        buf = io.StringIO()
        with warnings.catch_warnings(record=True) as wlist, contextlib.redirect_stdout(buf), contextlib.redirect_stderr(buf):
            warnings.simplefilter("always")
            err = None
            try:
                sol = getattr(sv, spec["solver"])(S, 0.3, DT).solve()
            except Exception as e:
                err = e
        ctx.mon("outcome")
        msgs = [str(w.message) for w in wlist]
        if err is None and not any("contact" in m.lower() for m in msgs):
            gN = S.g_N(sol.t[-1], sol.q[-1])
            ctx.violation(f"{spec['solver']}", "solver that cannot treat unilateral contacts ran on a contact system without warning or error",
                          {**det, "warnings": msgs[:3], "final_gap": gN})
        ctx.cls(f"unsupported:{spec['solver']}:{'raised' if err else 'warned'}")
        consumed = True
    elif kind == "actuators":
        # a motor on a revolute joint: a solver either accounts for the actuator force (the body is driven) or says that it does not
        from cardillo import System
        from cardillo.discrete import RigidBody
        from cardillo.constraints import Revolute
        from cardillo.actuators import Motor
        from cardillo.force_laws import Spring
        with gen.quiet():
            S = System()
            body = RigidBody(1.0, np.diag([0.1, 0.2, 0.3]), q0=np.array([0.5, 0, 0, 1, 0, 0, 0.0]), u0=np.zeros(6), name="rotor")
            j = Revolute(S.origin, body, 2, r_OJ0=np.zeros(3), A_IJ0=np.eye(3), name="hinge")
            torque = float(rng.uniform(0.5, 3))
            S.add(body, j, Motor(j, torque), Spring(j, 5.0, l_ref=0.0, compliance_form=False, name="return_spring"))
            S.assemble()
        buf = io.StringIO()
        with warnings.catch_warnings(record=True) as wlist, contextlib.redirect_stdout(buf), contextlib.redirect_stderr(buf):
            warnings.simplefilter("always")
            err = None
            try:
                if spec["solver"] == "Newton":
                    sol = sv.Newton(S, n_load_steps=3, verbose=False).solve()
                elif spec["solver"] == "Riks":
                    sol = sv.Riks(S, la_arc0=0.05, la_arc_span=[0.0, 1.0], iter_goal=3).solve()
                elif spec["solver"] == "DualStormerVerlet":
                    sol = sv.DualStormerVerlet(S, 0.2, DT, linear_solver="LU").solve()
                else:
                    sol = getattr(sv, spec["solver"])(S, 0.2, DT).solve()
            except Exception as e:
                err = e
        ctx.mon("outcome")
        msgs = [str(w.message) for w in wlist]
        if err is None:
            j.reset()
            ang = float(j.l(sol.t[-1], np.asarray(sol.q[-1])[j.qDOF]))
            driven = abs(ang) > 1e-4 * torque
            said = any("actuator" in m.lower() for m in msgs)
            if not driven and not said:
                ctx.violation(f"{spec['solver']}", "solver ignored the actuator force of the system (the driven body did not move) without warning or error",
                              {**det, "torque": torque, "final_angle": ang, "warnings": msgs[:3]})
            ctx.cls(f"actuators:{spec['solver']}:{'driven' if driven else 'ignored_with_warning' if said else 'ignored_silently'}")
        else:
            ctx.cls(f"actuators:{spec['solver']}:raised")
        consumed = True
    elif kind == "unsupported_friction":
        from cardillo import System
        with gen.quiet():
            S = System()
            S.add(_BlockOnBelt(rng))
            S.assemble()
        buf = io.StringIO()
        with warnings.catch_warnings(record=True) as wlist, contextlib.redirect_stdout(buf), contextlib.redirect_stderr(buf):
            warnings.simplefilter("always")
            err = None
            try:
                sol = getattr(sv, spec["solver"])(S, 0.3, DT).solve()
            except Exception as e:
                err = e
        ctx.mon("outcome")
        msgs = [str(w.message) for w in wlist]
        if err is None and not any(("friction" in m.lower() or "contact" in m.lower()) for m in msgs):
            ctx.violation(f"{spec['solver']}", "solver that cannot treat friction ran on a system with a friction law (constant force reservoir, no normal contact) without warning or error",
                          {**det, "warnings": msgs[:3], "nla_F": S.nla_F, "nla_N": S.nla_N})
        ctx.cls(f"unsupported_friction:{spec['solver']}:{'raised' if err else 'warned'}")
        consumed = True
    else:  # nan_rhs: the right-hand side becomes NaN from a given time on
        with gen.quiet():
            S = _smooth(rng)
        t_bad = 3.5 * DT
        h_orig = S.h
        S.h = lambda t, q, u: h_orig(t, q, u) * (np.nan if t > t_bad else 1.0)
        det["t_bad"] = t_bad
        # (no output instant beyond t_bad can have been computed: the first grid time after t_bad is the first unconverged one)
        res = _run(ctx, lambda: getattr(sv, spec["solver"])(S, t1, DT), det, (int(t_bad / DT) + 1) * DT, 1.5 * DT, False, NSTEPS + 1)
        ctx.cls(f"nan_rhs:{spec['solver']}:{res}")
        if res == "warned":
            pass
        consumed = True
    ctx.sig([{k: v for k, v in spec.items() if k != "rep"}, spec.get("rep")], nontrivial=consumed)
    ctx.sample(det)


def finalize(agg):
    out = []
    c = agg["extra"]
    for site in SITES:
        if c.get(f"consumed:{site}", 0) == 0:
            out.append(f"failpoint site {site} was never consumed (hook log empty)")
    agg["extra_out"] = {"sites_consumed": {s: c.get(f"consumed:{s}", 0) for s in SITES},
                        "sites_not_consumed_cases": {s: c.get(f"not_consumed:{s}", 0) for s in SITES}}
    return out
