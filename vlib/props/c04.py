"""C04 Rigid body, point mass and frame kinematics are self-consistent."""

import numpy as np
from vlib import env, gen
from vlib.oracles import (fd_jac, compare, check_jac, check_rate, check_close, path_derivative, loguniform,
                          random_unit, quat_to_mat, dense)

ID = "C04"
LEVEL = "exploration"
RULE = ("each case builds one real body (RigidBody with random SPD inertia, Box/Ball/Cylinder wrappers, PointMass, Frame with "
        "prescribed smooth motion and exact derivatives) and evaluates all kinematic methods at 3 random states "
        "(unit / non-unit quaternions with norm 1e-3..1e3, zero and large velocities, offsets zero/random/large, t != 0); "
        "distinct = hash of body parameters + first state; non-trivial = nonzero offset and nonzero angular velocity")
ASSUMPTIONS = ["T-oracle: central differences with two Richardson levels along s -> (t+s, q+s*q_dot(t,q,u), u+s*u_dot); "
               "violation iff error > 1e-6*max(1,|D|) + 20*oracle uncertainty; noisy oracle => case undecided",
               "frames are given their exact first and second time derivatives (closed form), as the property requires"]
REQUIRED_MONITORS = ["T:v_P", "T:a_P", "W:J_P", "EQ:kappa_P", "T:B_Omega", "T:B_Psi", "D:partials", "EQ:quaternion_length", "EQ:gyroscopic_power", "EQ:mass_matrix", "EQ:representation"]
META = {
    "level_text": "Exploration: all kinematic methods of the real RigidBody / PointMass / Frame (and meshed wrappers) are evaluated at seeded hostile states and decided by time-derivative (T), velocity-Jacobian (W) and finite-difference (D) oracles. Held on the states generated.",
    "level_note": "float64; finite-difference oracles with measured uncertainty (noisy comparisons are undecided, not held); frames supplied with exact derivatives.",
    "technique": "runtime return-value monitors with T/D/W finite-difference oracles + representation twins",
}
KINDS = ["rigid", "rigid", "rigid", "meshed", "point", "frame", "frame"]


def cases(tier, seed):
    n = {"quick": 210, "thorough": 7000}[tier]
    return [{"kind": KINDS[i % len(KINDS)]} for i in range(n)]


def _axial_of(M):
    return 0.5 * np.array([M[2, 1] - M[1, 2], M[0, 2] - M[2, 0], M[1, 0] - M[0, 1]])


def _kinematics(ctx, body, t, q, u, u_dot, B, label, has_q=True):
    """all T/W/D checks for a body with coordinates (RigidBody-like / PointMass)"""
    kw = {"B_r_CP": B}
    qd = body.q_dot(t, q, u)
    sc = 1.0 / max(1.0, np.linalg.norm(u), np.linalg.norm(u_dot), np.linalg.norm(qd))
    P = lambda s: (t + s, q + s * qd, u + s * u_dot)
    ex = {"t": t, "q": q, "u": u, "u_dot": u_dot, "B_r_CP": B, "body": label}

    check_rate(ctx, f"{label}.v_P", body.v_P(t, q, u, **kw), lambda s: body.r_OP(P(s)[0], P(s)[1], **kw), scale=sc, mon="T:v_P", extra=ex)
    check_rate(ctx, f"{label}.a_P", body.a_P(t, q, u, u_dot, **kw), lambda s: body.v_P(*P(s), **kw), scale=sc, mon="T:a_P", extra=ex)
    check_jac(ctx, f"{label}.J_P", body.J_P(t, q, **kw), lambda v: body.v_P(t, q, v, **kw), u, mon="W:J_P", extra=ex)
    if hasattr(body, "kappa_P"):
        check_close(ctx, f"{label}.kappa_P", "kappa_P differs from a_P at u_dot = 0", body.kappa_P(t, q, u, **kw),
                    body.a_P(t, q, u, np.zeros_like(u_dot), **kw), 1e-9 * (1 + np.linalg.norm(u) ** 2 * (1 + np.linalg.norm(B))), mon="EQ:kappa_P", extra=ex)
    if hasattr(body, "A_IB"):
        A = body.A_IB(t, q)
        dA, eA = path_derivative(lambda s: body.A_IB(P(s)[0], P(s)[1]), scale=sc)
        W = A.T @ dA
        spin = _axial_of(W)
        ctx.mon("T:B_Omega")
        c = compare(body.B_Omega(t, q, u), spin, 3 * np.max(eA) * np.ones(3), floor=1e-6)
        if not c.ok:
            ctx.violation(f"{label}.B_Omega", "reported angular velocity is not the body-fixed spin of A_IB along the kinematic equation", {**c.detail(), **ex})
        elif c.undecided:
            ctx.undecided("B_Omega oracle noisy")
        if np.abs(A.T @ A - np.eye(3)).max() > 1e-12:
            ctx.violation(f"{label}.A_IB", "orientation is not orthonormal", ex)
        check_rate(ctx, f"{label}.B_Psi", body.B_Psi(t, q, u, u_dot), lambda s: body.B_Omega(*P(s)), scale=sc, mon="T:B_Psi", extra=ex)
        if hasattr(body, "B_J_R"):
            check_jac(ctx, f"{label}.B_J_R", body.B_J_R(t, q), lambda v: body.B_Omega(t, q, v), u, mon="D:partials", extra=ex)
        if hasattr(body, "B_kappa_R"):
            check_close(ctx, f"{label}.B_kappa_R", "B_kappa_R differs from B_Psi at u_dot = 0", body.B_kappa_R(t, q, u),
                        body.B_Psi(t, q, u, np.zeros_like(u_dot)), 1e-10 * (1 + np.linalg.norm(u) ** 2), mon="EQ:kappa_P", extra=ex)
    if not has_q:
        return
    # ---- partial derivatives (D-oracle) ----
    hs = float(np.abs(body.B_Theta_C).max()) if hasattr(body, "B_Theta_C") else 1.0
    D = [
        ("r_OP_q", lambda: body.r_OP_q(t, q, **kw), lambda x: body.r_OP(t, x, **kw), q),
        ("v_P_q", lambda: body.v_P_q(t, q, u, **kw), lambda x: body.v_P(t, x, u, **kw), q),
        ("a_P_q", lambda: body.a_P_q(t, q, u, u_dot, **kw), lambda x: body.a_P(t, x, u, u_dot, **kw), q),
        ("a_P_u", lambda: body.a_P_u(t, q, u, u_dot, **kw), lambda x: body.a_P(t, q, x, u_dot, **kw), u),
        ("J_P_q", lambda: body.J_P_q(t, q, **kw), lambda x: body.J_P(t, x, **kw), q),
        ("kappa_P_q", lambda: body.kappa_P_q(t, q, u, **kw), lambda x: body.kappa_P(t, x, u, **kw), q),
        ("kappa_P_u", lambda: body.kappa_P_u(t, q, u, **kw), lambda x: body.kappa_P(t, q, x, **kw), u),
        ("A_IB_q", lambda: body.A_IB_q(t, q), lambda x: body.A_IB(t, x), q),
        ("B_Omega_q", lambda: body.B_Omega_q(t, q, u), lambda x: body.B_Omega(t, x, u), q),
        ("B_Psi_q", lambda: body.B_Psi_q(t, q, u, u_dot), lambda x: body.B_Psi(t, x, u, u_dot), q),
        ("B_Psi_u", lambda: body.B_Psi_u(t, q, u, u_dot), lambda x: body.B_Psi(t, q, x, u_dot), u),
        ("B_J_R_q", lambda: body.B_J_R_q(t, q), lambda x: body.B_J_R(t, x), q),
        ("B_kappa_R_q", lambda: body.B_kappa_R_q(t, q, u), lambda x: body.B_kappa_R(t, x, u), q),
        ("B_kappa_R_u", lambda: body.B_kappa_R_u(t, q, u), lambda x: body.B_kappa_R(t, q, x), u),
        ("q_dot_q", lambda: body.q_dot_q(t, q, u), lambda x: body.q_dot(t, x, u), q),
        ("q_dot_u", lambda: body.q_dot_u(t, q), lambda x: body.q_dot(t, q, x), u),
        # (gyroscopic forces scale with the inertia tensor: compared in units of max|Theta|, so that a body given in
        #  millimetre-gram or tonne-kilometre units is judged like one of order one)
        ("h_u", lambda: body.h_u(t, q, u) / hs, lambda x: body.h(t, q, x) / hs, u),
        ("g_S_q", lambda: body.g_S_q(t, q), lambda x: body.g_S(t, x), q),
    ]
    for name, claimed, f, x in D:
        meth, base = name, name.rsplit("_", 1)[0]
        if not (hasattr(body, meth) and hasattr(body, base)):
            continue
        check_jac(ctx, f"{label}.{name}", claimed(), f, x, mon="D:partials", extra=ex)
    # kinematic equation keeps the quaternion length
    if len(q) == 7:
        ctx.mon("EQ:quaternion_length")
        pl = q[3:] @ qd[3:]
        if abs(pl) > 1e-12 * np.linalg.norm(q[3:]) * (np.linalg.norm(qd[3:]) + 1e-300):
            ctx.violation(f"{label}.q_dot", "kinematic equation changes the quaternion length (P . P_dot != 0)", {**ex, "P_dot_P": pl})
    if hasattr(body, "h"):
        ctx.mon("EQ:gyroscopic_power")
        h = body.h(t, q, u)
        Mn = np.abs(dense(body.M(t, q))).max()
        if abs(u @ h) > 1e-10 * np.linalg.norm(u) * np.linalg.norm(h) + 1e-13 * Mn * np.linalg.norm(u) ** 3 + 1e-300:
            ctx.violation(f"{label}.h", "gyroscopic forces do work (u . h != 0)", {**ex, "power": u @ h})
    M = dense(body.M(t, q))
    ctx.mon("EQ:mass_matrix")
    ev = np.linalg.eigvalsh(0.5 * (M + M.T))
    if np.abs(M - M.T).max() > 1e-12 * np.abs(M).max() or ev.min() <= 0:
        ctx.violation(f"{label}.M", "mass matrix is not symmetric positive definite", {**ex, "min_eig": ev.min()})
    # ---- the same state handed over as strided / negatively strided / read-only arrays, the time as numpy scalar / 0-d array
    from vlib.oracles import representation_check
    t_ = float(t)
    calls = [(f"{label}.{nm}", getattr(body, nm), a, k) for nm, a, k in (
        ("r_OP", (t_, q), kw), ("v_P", (t_, q, u), kw), ("a_P", (t_, q, u, u_dot), kw), ("J_P", (t_, q), kw), ("r_OP_q", (t_, q), kw),
        ("v_P_q", (t_, q, u), kw), ("kappa_P", (t_, q, u), kw), ("A_IB", (t_, q), {}), ("A_IB_q", (t_, q), {}), ("B_Omega", (t_, q, u), {}),
        ("B_Psi", (t_, q, u, u_dot), {}), ("q_dot", (t_, q, u), {}), ("h", (t_, q, u), {}), ("h_u", (t_, q, u), {}), ("B_J_R", (t_, q), {}))
        if hasattr(body, nm)]
    calls.append((f"{label}.M", lambda t__, q__: dense(body.M(t__, q__)), (t_, q), {}))
    calls.append((f"{label}.r_OP[offset]", lambda B__: body.r_OP(t_, q, B_r_CP=B__), (np.array(B, dtype=float),), {}))
    calls.append((f"{label}.v_P[offset]", lambda B__: body.v_P(t_, q, u, B_r_CP=B__), (np.array(B, dtype=float),), {}))
    representation_check(ctx, calls, mon="EQ:representation", scalars=True)
    # a system reports the kinetic energy of ALL its bodies
    from cardillo import System as _Sys
    from cardillo.discrete import PointMass as _PM
    with gen.quiet():
        S_ = _Sys()
        import copy as _copy
        b_ = _copy.deepcopy(body); b_.name = "kin_body"
        pm_ = _PM(1.7, q0=np.zeros(3), u0=np.zeros(3), name="kin_pm")
        S_.add(b_, pm_)
        S_.assemble(options=gen.no_cic_options())
    qs_, us_ = np.array(S_.q0, dtype=float), np.zeros(S_.nu)
    qs_[b_.my_qDOF], us_[b_.my_uDOF] = q, u
    us_[pm_.my_uDOF] = np.array([0.3, -1.1, 0.7])
    ctx.mon("EQ:E_kin")
    Es_ = float(S_.E_kin(t, qs_, us_)); Mr_ = dense(S_.M(t, qs_))
    if abs(Es_ - 0.5 * us_ @ Mr_ @ us_) > 1e-12 * (abs(Es_) + 0.5 * us_ @ Mr_ @ us_ + 1e-300):
        ctx.violation("System.E_kin", "kinetic energy reported by the system differs from 1/2 u^T M u", {**ex, "E_kin": Es_, "ref": float(0.5 * us_ @ Mr_ @ us_)})
    if hasattr(body, "E_kin"):
        ctx.mon("EQ:E_kin")
        E = body.E_kin(t, q, u)
        if abs(E - 0.5 * u @ M @ u) > 1e-12 * (abs(E) + 1e-300):
            ctx.violation(f"{label}.E_kin", "kinetic energy differs from 1/2 u^T M u", {**ex, "E_kin": E, "ref": 0.5 * u @ M @ u})


def run_case(spec, ctx):
    env.import_cardillo()
    from cardillo.discrete import RigidBody, PointMass, Frame
    import cardillo.discrete as disc
    rng = ctx.rng
    kind = spec["kind"]
    sig = [kind]
    nontrivial = False
    if kind in ("rigid", "meshed"):
        mass = float(loguniform(rng, 1e-2, 1e2))
        Theta = gen.random_spd(rng)
        if kind == "rigid" and rng.random() < 0.3:
            # other unit systems: the same body with mass and inertia scaled by 1e-12 .. 1e9
            sc_units = float(10.0 ** rng.uniform(-12, -3)) if rng.random() < 0.6 else float(10.0 ** rng.uniform(3, 9))
            mass, Theta = mass * sc_units, Theta * sc_units
            ctx.cls("rigid:inertia_scale:tiny" if sc_units < 1 else "rigid:inertia_scale:huge")
        q0, u0, _, _ = gen.rigid_body_state(rng, unit=True)
        label = "RigidBody"
        with gen.quiet():
            if kind == "rigid":
                body = RigidBody(mass, Theta, q0=q0, u0=u0)
            else:
                c = int(rng.integers(4))
                dens = float(loguniform(rng, 1e-1, 1e1))
                if c == 3:
                    # general entry point: a trimesh object with density, mesh basis rotated against the body basis, origin offset, scale
                    import trimesh
                    ext = rng.uniform(0.2, 2, size=3)
                    A_BM = quat_to_mat(rng.normal(size=4)) if rng.random() < 0.8 else np.eye(3)
                    scale = float(rng.uniform(0.5, 2)) if rng.random() < 0.5 else 1
                    body = disc.Meshed(RigidBody)(trimesh.creation.box(extents=ext), density=dens, B_r_CP=rng.normal(size=3) * 0.3, A_BM=A_BM, scale=scale, q0=q0, u0=u0)
                    label = "Meshed(RigidBody)"
                    e_ = ext * scale
                    m_ref = dens * float(np.prod(e_))
                    Th_ref = A_BM @ np.diag(m_ref / 12.0 * np.array([e_[1] ** 2 + e_[2] ** 2, e_[0] ** 2 + e_[2] ** 2, e_[0] ** 2 + e_[1] ** 2])) @ A_BM.T
                    ctx.mon("EQ:mass_matrix")
                    if abs(body.mass - m_ref) > 1e-9 * m_ref or np.abs(np.asarray(body.B_Theta_C) - Th_ref).max() > 1e-9 * np.abs(Th_ref).max():
                        ctx.violation("Meshed(RigidBody).M", "mass / inertia computed from a box mesh with density differ from the closed form in the body basis",
                                      {"extents": e_, "density": dens, "A_BM": A_BM, "mass": body.mass, "mass_ref": m_ref, "B_Theta_C": np.asarray(body.B_Theta_C), "reference": Th_ref})
                elif c == 0:
                    body = disc.Box(RigidBody)(dimensions=rng.uniform(0.2, 2, size=3), density=dens, q0=q0, u0=u0)
                    label = "Box(RigidBody)"
                elif c == 1:
                    body = disc.Sphere(RigidBody)(radius=float(rng.uniform(0.2, 2)), subdivisions=1, density=dens, q0=q0, u0=u0)
                    label = "Sphere(RigidBody)"
                else:
                    body = disc.Cylinder(RigidBody)(radius=float(rng.uniform(0.2, 1)), height=float(rng.uniform(0.2, 2)), density=dens, q0=q0, u0=u0)
                    label = "Cylinder(RigidBody)"
        sig += [mass, Theta.tolist(), label]
        for k in range(3):
            q, u, u_dot, qcls = gen.rigid_body_state(rng, big=rng.random() < 0.3)
            B, bcls = gen.offset(rng)
            t = float(rng.normal()) * 3
            ctx.cls(f"rigid:{qcls}:offset_{bcls}")
            if k == 0:
                sig += [q.tolist(), u.tolist(), B.tolist()]
            nontrivial |= bool(np.any(B)) and bool(np.any(u[3:]))
            _kinematics(ctx, body, t, q, u, u_dot, B, label)
    elif kind == "point":
        mass = float(loguniform(rng, 1e-3, 1e3))
        body = PointMass(mass, q0=rng.normal(size=3), u0=rng.normal(size=3))
        sig += [mass]
        for k in range(3):
            q = rng.normal(size=3) * loguniform(rng, 1e-3, 1e3)
            u = rng.normal(size=3) * loguniform(rng, 1e-2, 1e2)
            u_dot = rng.normal(size=3) * loguniform(rng, 1e-2, 1e2)
            B, bcls = gen.offset(rng)
            t = float(rng.normal()) * 3
            ctx.cls(f"point:offset_{bcls}")
            if k == 0:
                sig += [q.tolist(), u.tolist()]
            nontrivial = True
            _kinematics(ctx, body, t, q, u, u_dot, B, "PointMass")
    else:
        mot = gen.Motion(rng, moving=rng.random() < 0.85, rotating=rng.random() < 0.85)
        fr = mot.frame(Frame)
        sig += [mot.c0.tolist(), mot.axis.tolist(), mot.k1, mot.k2]
        e = np.zeros(0)
        for k in range(3):
            t = float(rng.normal()) * 2
            B, bcls = gen.offset(rng)
            ctx.cls(f"frame:{'moving' if mot.moving else 'fixed'}:{'rotating' if mot.rotating else 'const'}:offset_{bcls}")
            nontrivial |= bool(np.any(B)) and mot.rotating
            ex = {"t": t, "B_r_CP": B, "body": "Frame"}
            kw = {"B_r_CP": B}
            check_rate(ctx, "Frame.v_P", fr.v_P(t, e, e, **kw), lambda s: fr.r_OP(t + s, e, **kw), mon="T:v_P", extra=ex)
            check_rate(ctx, "Frame.a_P", fr.a_P(t, e, e, e, **kw), lambda s: fr.v_P(t + s, e, e, **kw), mon="T:a_P", extra=ex)
            check_close(ctx, "Frame.kappa_P", "kappa_P differs from a_P at u_dot = 0", fr.kappa_P(t, e, e, **kw), fr.a_P(t, e, e, e, **kw),
                        1e-9 * (1 + np.abs(fr.a_P(t, e, e, e, **kw)).max()), mon="EQ:kappa_P", extra=ex)
            if fr.J_P(t, e, **kw).shape != (3, 0):
                ctx.violation("Frame.J_P", "frame without velocity coordinates must report an empty Jacobian", ex)
            ctx.mon("W:J_P")
            A = fr.A_IB(t)
            dA, eA = path_derivative(lambda s: fr.A_IB(t + s))
            ctx.mon("T:B_Omega")
            c = compare(fr.B_Omega(t), _axial_of(A.T @ dA), 3 * np.max(eA) * np.ones(3), floor=1e-6)
            if not c.ok:
                ctx.violation("Frame.B_Omega", "reported angular velocity is not the body-fixed spin of A_IB(t)", {**c.detail(), **ex})
            check_rate(ctx, "Frame.B_Psi", fr.B_Psi(t), lambda s: fr.B_Omega(t + s), mon="T:B_Psi", extra=ex)
            check_close(ctx, "Frame.B_kappa_R", "B_kappa_R differs from B_Psi", fr.B_kappa_R(t), fr.B_Psi(t), 1e-12, mon="EQ:kappa_P", extra=ex)
            # independent closed forms of the generator
            check_close(ctx, "Frame.B_Omega", "differs from the closed-form angular velocity of the prescribed motion", fr.B_Omega(t), mot.omega_B(t) if mot.rotating else np.zeros(3), 1e-10, mon="T:B_Omega", extra=ex)
        # monitors that only exist for bodies with coordinates are counted as reached through the frame-free path
        for m in ("D:partials", "EQ:quaternion_length", "EQ:gyroscopic_power", "EQ:mass_matrix"):
            pass
    ctx.cls(f"kind:{kind}")
    ctx.sig(sig, nontrivial=nontrivial)
    ctx.sample({"kind": kind, "signature": sig[:3]})
