"""C23 Static solvers return equilibria and are frame-indifferent.

Monitors (all on the REAL ``cardillo.solver.Newton`` / ``Riks``):

(1) post-condition on every returned load step / arc-length point: the residuals
    equilibrium h(t,q,0)+W_g la_g+W_c la_c+W_N la_N, g(t,q), c(t,q,0,la_c), g_S(t,q),
    min(la_N,g_N) are re-assembled from the real System methods (not the solver's
    ``fun``/``R``) and compared with 10 x the a-priori bound of fsolve's stopping rule
    rms(f/(atol+rtol|f(x0)|)) < 1  =>  |f_i| < sqrt(n) (atol + rtol |f_i(x0)|);
    x0 (the initial guess of that step) is taken from a recording wrapper around
    ``cardillo.solver.statics.fsolve`` (harness side, nothing in /repo is edited).
(2) trace/outcome monitor: a run that returns fewer load steps than requested (Newton) or
    ends inside the requested span (Riks) must say so (stdout / stderr / warning that names
    the stop; fsolve's own per-call warning does not name a stop of the run); rows that
    fsolve flagged as unconverged must not be returned as if they were converged.
(3) metamorphic monitor: the same static problem is built a second time, rigidly moved
    (supports, loads, reference configuration); its equilibria must be the moved equilibria.

Besides natural provocation of early stops (newton_max_iter 1-3, loads beyond the limit point,
max_load_steps) the guarded failpoints of the repository (cardillo/_verif_hooks.py, sites
``statics.newton`` / ``riks.newton``) force a chosen load step to report non-convergence.
The two reference problems of the repository's own scripts (test/test_cantilever.py,
test/test_riks.py), which the pinned tree solves, must still be solved.
"""

import io
import re
import warnings
import contextlib

import numpy as np

from vlib import env
from vlib.oracles import dense, quat_to_mat, loguniform, random_unit, rodrigues
from vlib.rodgen import rot_to_quat, quat_mul, unpack, pack, raised_in_cardillo

ID = "C23"
LEVEL = "exploration"
RULE = ("each case builds one real static problem and runs the real Newton or Riks solver on it (most cases twice: the problem and a "
        "rigidly moved copy): clamped Cosserat-rod cantilevers (30 formulations: Quaternion p=1,2 / SE3 / R12 p=1,2 x displacement-based/"
        "mixed x constraint sets none,[1,2],[0,1,2]; 1-4 elements; straight or pre-curved reference; tip/interior Force, B_Force, Moment, "
        "B_Moment, line load, moving clamp; 1-20 load steps), rigid bodies / point masses on springs (force and compliance form) under "
        "gravity, the same above one or two frictionless planes (static Signorini), the 2D truss of test_riks.py and cantilevers under "
        "Riks with random la_arc0 / spans / iter_goal, provoked early stops (newton_max_iter 1-3, few load steps, large loads, loads "
        "beyond the limit point, max_load_steps, failpoints statics.newton / riks.newton), and the reference problems of "
        "test/test_cantilever.py and test/test_riks.py. distinct = problem parameters; non-trivial = at least one returned row at nonzero load whose configuration "
        "differs from the reference configuration was decided")
ASSUMPTIONS = [
    "residual bound per entry: 10*sqrt(n)*(newton_atol + newton_rtol*|f_i(x0)|), the a-priori consequence of fsolve's rms stopping rule; "
    "f(x0) re-assembled by the harness from System methods at the initial guess recorded by a wrapper around statics.fsolve",
    "rows that fsolve itself flagged unconverged are judged by monitor (2), not by the residual bound",
    "frame indifference: tolerance 1e-7*L on positions and 1e-7 on rotation-matrix entries, decided only where the size of one further "
    "Newton correction (harness estimate of the distance to the exact equilibrium) is below 1e-8*L in both runs, otherwise undecided",
    "'says so' = a line on stdout/stderr or a Python warning, other than fsolve's per-call warning, that names non-convergence / the stop",
    "Riks problems start from an equilibrium at zero load (stress-free reference), as the solver presupposes",
    "the cantilever of test/test_cantilever.py and the truss of test/test_riks.py (solved by the pinned tree) must be solved: a solver that "
    "fails loudly on them is reported, on generated problems loud failures are only counted (and make the check inconclusive when they dominate)",
    "loads are kept below buckling-type bifurcations (no dominant axial compression); contact without friction (Newton has no friction unknowns)",
]
REQUIRED_MONITORS = ["reference.solved", "res:equilibrium", "res:g", "res:c", "res:g_S", "res:signorini", "signorini.closed_contact",
                     "newton.rows", "newton.early_stop_says_so", "riks.rows", "riks.iterates", "riks.end_of_run",
                     "frame.rod", "frame.body", "frame.riks"]
META = {
    "level_text": "Exploration: the real Newton and Riks static solvers are run on generated rod / rigid-body / contact problems; every returned load step is decided by re-assembling the static residuals from the System methods against 10x the solver's own stopping criterion, every early stop by an outcome monitor over stdout/warnings/returned rows, and frame indifference by solving a rigidly moved copy of each problem. Held on the problems generated, not a proof.",
    "level_note": "float64; residual bound derived a priori from fsolve's rms criterion with the step's initial guess recorded by a harness wrapper; frame-indifference comparisons guarded by a measured Newton-correction estimate; frictionless contacts only.",
    "technique": "runtime post-condition monitors on solver results + trace monitor of fsolve calls and emitted messages + metamorphic (rigid motion) monitor",
}
CASE_TIMEOUT = 120
WALL_BUDGET = {"quick": 600, "thorough": 3000}

# ---- decisions taken from the property text (see final report) ---------------------------------
# Until commit 23187af2 Newton printed the truncation and returned the unconverged iterate as last row of the Solution:
# "every load step returned ... satisfies static equilibrium" is violated by that row although the run says so.
# (fixed in /repo: the run now warns and returns the converged load steps only; the defect model is kept so that a
# regression is recognised by mechanism)
UNCONVERGED_LAST_ROW_IS_FINDING = True
# Riks leaves its loop silently when max_load_steps is exhausted inside the requested span.
RIKS_MAXSTEPS_IS_EARLY_STOP = True

KF_UNCONV = "Newton.solve/unconverged-iterate-returned-as-last-load-step"
KF_RIKS_ALIAS = "Riks.solve/stored-points-overwritten-by-secant-predictor"
KF_RIKS_FIRST = "Riks.solve/first-point-labelled-la_arc0"
KF_RIKS_MAXSTEPS = "Riks.solve/max_load_steps-silent"

FORMS = [(interp, p, mixed, cs)
         for interp, p in (("Quaternion", 1), ("Quaternion", 2), ("SE3", 1), ("R12", 1), ("R12", 2))
         for mixed in (False, True)
         for cs in (None, (1, 2), (0, 1, 2))]


def form_name(f):
    interp, p, mixed, cs = f
    return "%s%d/%s/%s" % (interp, p, "mixed" if mixed else "disp", "free" if cs is None else "c" + "".join(map(str, cs)))


# =================================================================================================
# cases
# =================================================================================================
DIRECTED = [
    {"kind": "reference", "directed": "test_cantilever"},
    {"kind": "early", "directed": "newton_unconverged_row", "form": 1},
    {"kind": "riks", "sub": "truss", "directed": "test_riks"},
    {"kind": "riks", "sub": "truss", "directed": "maxsteps"},
]


def cases(tier, seed):
    n = {"quick": {"cantilever": 90, "early": 24, "springs": 16, "contact": 18, "riks": 21},
         "thorough": {"cantilever": 1500, "early": 360, "springs": 250, "contact": 300, "riks": 378}}[tier]
    out = []
    for i in range(n["cantilever"]):
        out.append({"kind": "cantilever", "form": i % len(FORMS), "v": i // len(FORMS)})
    for i in range(n["early"]):
        out.append({"kind": "early", "form": (7 * i + 3) % len(FORMS), "v": i, "sub": ["rod", "inject", "truss", "rod"][i % 4]})
    for i in range(n["springs"]):
        out.append({"kind": "springs", "body": ["rigid", "point"][i % 2], "v": i})
    for i in range(n["contact"]):
        out.append({"kind": "contact", "body": ["point", "rigid"][i % 2], "v": i})
    for i in range(n["riks"]):
        out.append({"kind": "riks", "sub": ["truss", "cantilever", "cantilever", "truss_maxsteps", "contact", "cantilever", "inject"][i % 7],
                    "form": (11 * i + 5) % len(FORMS), "v": i})
    rng = np.random.default_rng([int(seed) & 0xFFFFFFFF, 0xC23])
    perm = rng.permutation(len(out))
    return [dict(d) for d in DIRECTED] + [out[j] for j in perm]


# =================================================================================================
# running a solver under observation
# =================================================================================================
FSOLVE_WARNING = "fsolve is not converged"
STOP_RE = re.compile(r"not\s+converge|unconverged|non-?converge|no\s+convergence|fail(ed|s|ure)?\s+to\s+converge|diverge|"
                     r"\bstopp|\babort|\bterminat|\btruncat|\bprematur|\bearly\b|returning\s+solution\s+up\s+to|"
                     r"\bmax(imum|imal)?[\s_]*(number\s+of\s+)?(load[\s_]*)?steps", re.I)


class Observed:
    """context manager: captures stdout / stderr / warnings and records every call of statics.fsolve"""

    def __init__(self):
        self.calls = []
        self.out = io.StringIO()
        self.err = io.StringIO()
        self.warnings = []
        self.exc = None
        self.result = None
        self.b0 = {}

    def __enter__(self):
        import cardillo.solver.statics as st
        self._st = st
        self._orig = st.fsolve
        orig = self._orig
        calls = self.calls

        def recording_fsolve(fun, x0, *args, **kwargs):
            x0c = np.array(x0, dtype=float, copy=True)
            res = orig(fun, x0, *args, **kwargs)
            calls.append({"x0": x0c, "x": np.array(res.x, dtype=float, copy=True), "success": bool(res.success),
                          "nit": int(res.nit), "error": float(res.error),
                          "fun_args": kwargs.get("fun_args", ())})
            return res

        st.fsolve = recording_fsolve
        self._stack = contextlib.ExitStack()
        self._stack.enter_context(contextlib.redirect_stdout(self.out))
        self._stack.enter_context(contextlib.redirect_stderr(self.err))
        self._wl = self._stack.enter_context(warnings.catch_warnings(record=True))
        warnings.simplefilter("always")
        return self

    def __exit__(self, et, ev, tb):
        self._st.fsolve = self._orig
        self.warnings = [str(w.message) for w in self._wl]
        self._stack.close()
        if et is not None and issubclass(et, Exception) and et.__name__ != "CaseTimeout":
            self.exc = ev
            return True
        return False

    # ---- messages -----------------------------------------------------------------------------
    def lines(self):
        txt = self.out.getvalue() + "\n" + self.err.getvalue()
        return [l.strip() for l in re.split(r"[\r\n]+", txt) if l.strip()] + list(self.warnings)

    def stop_messages(self):
        return [l for l in self.lines() if FSOLVE_WARNING not in l and STOP_RE.search(l)]

    def any_nonconvergence_indication(self):
        return [l for l in self.lines() if STOP_RE.search(l)]


def plan_injection(site, units):
    """guarded fault-injection hook of the repository (cardillo/_verif_hooks.py): force the given units (load steps) of `site`
    to report non-convergence. Returns the hook module or None if the tree has no (enabled) hooks."""
    try:
        from cardillo import _verif_hooks as vh
    except Exception:
        return None
    if not getattr(vh, "ENABLED", False):
        return None
    vh.reset()
    vh.plan[site] = set(int(k) for k in units)
    return vh


ALLOWED_EXC = ("AssertionError", "RuntimeError", "ArithmeticError", "FloatingPointError", "ZeroDivisionError", "LinAlgError",
               "OverflowError", "MatrixRankWarning")


def classify_exception(ctx, site, obs, det):
    """an exception that escaped a static solver. Loud failures are allowed by the property (they 'say so' and return nothing);
    programming errors on a valid problem are not. Returns True if the exception was accounted for."""
    e = obs.exc
    inside, where = raised_in_cardillo(e)
    if not inside:
        raise e
    name = type(e).__name__
    if name in ALLOWED_EXC:
        ctx.count("solver_raised:" + name)
        return True
    ctx.violation(site, "static solver crashes with %s on a valid static problem" % name,
                  {**det, "exception": "%s: %s" % (name, str(e)[:300]), "raised_at": where})
    return True


# =================================================================================================
# residuals from the real System methods
# =================================================================================================
BLOCKS = ("equilibrium", "g", "c", "g_S", "signorini")


def residual_blocks(S, t, q, la_g, la_c, la_N):
    t = float(t)
    q = np.asarray(q, dtype=float)
    u0 = np.zeros(S.nu)
    eq = np.array(S.h(t, q, u0), dtype=float)
    if S.nla_g:
        eq = eq + dense(S.W_g(t, q)) @ la_g
    if S.nla_c:
        eq = eq + dense(S.W_c(t, q)) @ la_c
    if S.nla_N:
        eq = eq + dense(S.W_N(t, q)) @ la_N
    return {
        "equilibrium": eq,
        "g": np.asarray(S.g(t, q), dtype=float),
        "c": np.asarray(S.c(t, q, u0, la_c), dtype=float),
        "g_S": np.asarray(S.g_S(t, q), dtype=float),
        "signorini": np.minimum(la_N, np.asarray(S.g_N(t, q), dtype=float)) if S.nla_N else np.zeros(0),
    }


def judge(blocks, blocks0, atol, rtol, n=None):
    """returns (ok, worst) ; worst = dict describing the entry with the largest ratio residual/bound"""
    if n is None:
        n = sum(b.size for b in blocks.values())
    worst = {"ratio": 0.0}
    ok = True
    for name in BLOCKS:
        b, b0 = blocks[name], blocks0[name]
        if b.size == 0:
            continue
        bound = 10.0 * np.sqrt(max(n, 1)) * (atol + rtol * np.abs(np.where(np.isfinite(b0), b0, 0.0)))
        ratio = np.abs(b) / bound
        bad = ~np.isfinite(b) | (ratio > 1.0)
        r = np.where(np.isfinite(ratio), ratio, np.inf)
        i = int(np.argmax(r))
        if r[i] > worst["ratio"]:
            worst = {"ratio": float(r[i]), "block": name, "index": i, "residual": float(b[i]), "bound": float(bound[i])}
        if np.any(bad):
            ok = False
    return ok, worst


def count_blocks(ctx, blocks, la_N):
    for name in BLOCKS:
        if blocks[name].size:
            ctx.mon("res:" + name)
    if la_N.size and np.any(la_N > 0):
        ctx.mon("signorini.closed_contact")


# =================================================================================================
# Newton: rows + early stop
# =================================================================================================
def split_newton(S, x):
    i0, i1, i2 = S.nq, S.nq + S.nla_g, S.nq + S.nla_g + S.nla_c
    return x[:i0], x[i0:i1], x[i1:i2], x[i2:]


def check_newton(ctx, label, S, obs, n_steps, optkw, det):
    """decides monitors (1) and (2) for one Newton run. Returns list of per-row verdicts (True = decided ok)."""
    sol = obs.result
    nt = n_steps + 1
    atol, rtol = optkw.get("newton_atol", 1e-6), optkw.get("newton_rtol", 1e-6)
    cont = bool(optkw.get("continue_with_unconverged", False))
    site = "Newton.solve"
    try:
        t = np.atleast_1d(np.asarray(sol.t, dtype=float))
        Q = np.asarray(sol.q, dtype=float)
        LG = np.asarray(sol.la_g, dtype=float)
        LC = np.asarray(sol.la_c, dtype=float)
        LN = np.asarray(sol.la_N, dtype=float)
        rows = len(t)
        shapes_ok = (Q.shape == (rows, S.nq) and LG.shape == (rows, S.nla_g) and LC.shape == (rows, S.nla_c) and LN.shape == (rows, S.nla_N))
    except Exception as e:
        shapes_ok, rows = False, 0
    ctx.mon("newton.rows")
    if not shapes_ok or rows > nt:
        ctx.violation(site, "returned Solution fields do not form one row per returned load step", {**det, "rows": rows, "requested": nt})
        return []
    levels = np.linspace(0.0, 1.0, nt)
    if rows and np.max(np.abs(t - levels[:rows])) > 1e-12:
        ctx.violation(site, "returned load levels are not the requested load steps", {**det, "t": t, "expected": levels[:rows]})
        return []
    calls = obs.calls
    have_trace = len(calls) >= rows and all(c["x0"].size == S.nq + S.nla_g + S.nla_c + S.nla_N for c in calls[:rows])
    if not have_trace:
        ctx.count("newton_runs_without_trace")
    said = obs.stop_messages()
    verdicts = []
    for i in range(rows):
        b = residual_blocks(S, t[i], Q[i], LG[i], LC[i], LN[i])
        if have_trace:
            x0 = calls[i]["x0"]
            success = calls[i]["success"]
        else:
            x0 = np.concatenate((Q[i - 1], LG[i - 1], LC[i - 1], LN[i - 1])) if i else np.concatenate((S.q0, S.la_g0, S.la_c0, S.la_N0))
            success = None
        b0 = residual_blocks(S, t[i], *split_newton(S, x0))
        if have_trace and i:
            # the solver's criterion is relative to the residual of its starting point; the reference starting point of a load
            # step is the previous returned equilibrium at the new load level. A predictor may start closer (smaller residual,
            # tighter criterion) - a starting point that is FURTHER away must not widen what counts as an equilibrium
            b0p = residual_blocks(S, t[i], Q[i - 1], LG[i - 1], LC[i - 1], LN[i - 1])
            if any(np.any(np.abs(b0[nm_]) > np.abs(b0p[nm_]) * (1 + 1e-9) + 1e-300) for nm_ in BLOCKS if b0[nm_].size):
                ctx.count("newton_start_further_from_equilibrium_than_previous_step")
            b0 = {nm_: np.where(np.abs(b0[nm_]) <= np.abs(b0p[nm_]), b0[nm_], b0p[nm_]) if b0[nm_].size else b0[nm_] for nm_ in b0}
        obs.b0[i] = b0
        ok, worst = judge(b, b0, atol, rtol)
        count_blocks(ctx, b, LN[i])
        ctx.mon("newton.rows")
        wit = {**det, "row": i, "load_level": float(t[i]), "rows_returned": rows, "load_steps_requested": nt, **worst,
               "newton_atol": atol, "newton_rtol": rtol, "fsolve_success": success, "messages": said[:3]}
        if ok:
            verdicts.append(True)
            continue
        verdicts.append(False)
        if success is False:
            if cont:
                # the user asked to continue; every unconverged step must at least have been announced
                ctx.count("continued_unconverged_rows")
                if not obs.any_nonconvergence_indication():
                    ctx.violation(site, "unconverged load step returned without any indication (continue_with_unconverged)", wit)
                continue
            last = i == rows - 1
            is_iterate = have_trace and np.array_equal(np.concatenate((Q[i], LG[i], LC[i], LN[i])), calls[i]["x"])
            if last and said and is_iterate:
                ctx.count("unconverged_last_row_announced")
                if UNCONVERGED_LAST_ROW_IS_FINDING:
                    ctx.violation(site, "the unconverged iterate of the failed load step is returned as last row of the solution (announced by a message)", wit, key=KF_UNCONV)
            else:
                ctx.violation(site, "unconverged load step returned as if converged (no message names the stop / not the last row)", wit)
        else:
            ctx.violation(site, "returned load step violates %s beyond 10x the solver criterion" % worst.get("block", "a residual"), wit)
    # ---- (2) outcome of the run
    stopped_early = rows < nt
    if have_trace and not cont:
        fails = [k for k, c in enumerate(calls) if not c["success"]]
        if fails and rows > fails[0] + 1:
            ctx.violation(site, "load steps after an unconverged step are returned although continue_with_unconverged is off",
                          {**det, "first_failed_step": fails[0], "rows_returned": rows})
    if stopped_early:
        ctx.mon("newton.early_stop_says_so")
        ctx.cls("newton:stopped_early")
        if not said:
            ctx.violation(site, "run returned fewer load steps than requested without saying so",
                          {**det, "rows_returned": rows, "load_steps_requested": nt, "stdout": obs.out.getvalue()[-300:],
                           "warnings": obs.warnings[:3]})
    elif have_trace and any(not c["success"] for c in calls) and not cont:
        # failure in the very last load step: nothing is truncated, but the run must still say that it did not converge
        ctx.mon("newton.early_stop_says_so")
        ctx.cls("newton:failed_in_last_step")
        if not said:
            ctx.violation(site, "last load step did not converge and the run does not say so", {**det, "warnings": obs.warnings[:3]})
    else:
        ctx.cls("newton:complete" if not (have_trace and any(not c["success"] for c in calls)) else "newton:continued_unconverged")
    return verdicts


def run_newton(S, n_steps, optkw, verbose):
    from cardillo.solver import Newton, SolverOptions
    obs = Observed()
    with obs:
        solver = Newton(S, n_load_steps=n_steps, verbose=verbose, options=SolverOptions(**optkw))
        obs.solver = solver
        obs.result = solver.solve()
    return obs


def newton_correction(obs, S, t, q, la_g, la_c, la_N):
    """size (position coordinates) of one further Newton correction at a returned row: harness estimate of the
    distance between the returned row and the exact equilibrium. inf if it cannot be computed."""
    from scipy.sparse.linalg import spsolve
    from scipy.sparse import csc_matrix
    try:
        x = np.concatenate((q, la_g, la_c, la_N))
        with warnings.catch_warnings(), contextlib.redirect_stdout(io.StringIO()):
            warnings.simplefilter("ignore")
            F = obs.solver.fun(x, float(t))
            J = csc_matrix(obs.solver.jac(x, float(t)))
            dx = spsolve(J, F)
        if not np.all(np.isfinite(dx)):
            return np.inf
        return float(np.max(np.abs(dx[: S.nq]))) if S.nq else 0.0
    except Exception as e:
        if type(e).__name__ == "CaseTimeout":
            raise
        return np.inf


# =================================================================================================
# rigid motions and poses
# =================================================================================================
def draw_motion(rng):
    u = rng.random()
    if u < 0.15:
        R = rodrigues(random_unit(rng) * np.pi)     # half turn
        cls = "half_turn"
    elif u < 0.3:
        R = rodrigues(random_unit(rng) * float(loguniform(rng, 1e-6, 1e-2)))
        cls = "tiny_rotation"
    else:
        R = quat_to_mat(rng.normal(size=4))
        cls = "generic"
    c = rng.normal(size=3) * float(loguniform(rng, 1e-2, 1e2))
    if rng.random() < 0.1:
        c = np.zeros(3)
    return R, c, cls


def rod_samples(rod, t, q_sys, xis):
    """nodal positions / rotation matrices (decoded by the harness from the coordinate layout) and interpolated poses at xis
    (evaluated by the rod's own r_OP / A_IB)"""
    q = np.asarray(q_sys, dtype=float)[rod.qDOF]
    nn = len(q) // 7
    r, P = unpack(q, nn)
    A = np.array([quat_to_mat(p) for p in P])
    ri, Ai = [], []
    for xi in xis:
        qe = q[rod.local_qDOF_P(xi)]
        ri.append(np.asarray(rod.r_OP(t, qe, xi), dtype=float))
        Ai.append(np.asarray(rod.A_IB(t, qe, xi), dtype=float))
    return r, A, np.array(ri), np.array(Ai)


def compare_moved(ctx, site, what, r1, A1, r2, A2, R, c, L, det, tol=1e-7, other_equilibrium=None):
    """r2 == c + R r1, A2 == R A1 (arrays of points / matrices). Returns True if it held.
    other_equilibrium: optional callable deciding whether the moved solution, mapped back, is itself an equilibrium of the
    reference problem (then the problem has several equilibria and rounding decided which one each run found: undecided)."""
    er = float(np.max(np.abs(r2 - (c[None, :] + r1 @ R.T)))) if len(r1) else 0.0
    eA = float(np.max(np.abs(A2 - np.einsum("ij,njk->nik", R, A1)))) if len(A1) else 0.0
    if not (np.isfinite(er) and np.isfinite(eA)) or er > tol * L or eA > tol:
        if other_equilibrium is not None and other_equilibrium():
            ctx.count("frame_non_unique_equilibria")
            ctx.undecided("frame indifference: the two runs found different equilibria of the same problem (the moved solution mapped back "
                          "satisfies the reference problem): non-unique static problem")
            return False
        ctx.violation(site, what, {**det, "position_error": er, "position_tol": tol * L, "rotation_error": eA, "rotation_tol": tol})
        return False
    return True


def map_back(q_sys, movers, R, c):
    """coordinates of the moved problem expressed in the reference placement: r -> R^T (r - c), p -> quat(R)^-1 o p.
    movers: list of (qDOF, layout) with layout in rod / rigid / point"""
    q = np.array(q_sys, dtype=float)
    PRinv = rot_to_quat(R.T)
    for dof, layout in movers:
        qq = q[dof]
        if layout == "rod":
            nn = len(qq) // 7
            r, P = unpack(qq, nn)
            q[dof] = pack((r - c[None, :]) @ R, np.array([quat_mul(PRinv, pp) for pp in P]))
        elif layout == "rigid":
            q[dof] = np.concatenate(((qq[:3] - c) @ R, quat_mul(PRinv, qq[3:7])))
        else:
            q[dof] = (qq[:3] - c) @ R
    return q


def is_equilibrium_of(S, t, q, la_c, la_N, b0, atol, rtol):
    """is (q, la_c, la_N) with SOME bilateral constraint forces an equilibrium of S at load level t (100 x the row bound)?"""
    try:
        u0 = np.zeros(S.nu)
        r = np.array(S.h(t, q, u0), dtype=float)
        if S.nla_c:
            r = r + dense(S.W_c(t, q)) @ la_c
        if S.nla_N:
            r = r + dense(S.W_N(t, q)) @ la_N
        la_g = np.linalg.lstsq(dense(S.W_g(t, q)), -r, rcond=None)[0] if S.nla_g else np.zeros(0)
        ok, _ = judge(residual_blocks(S, t, q, la_g, la_c, la_N), b0, 100 * atol, 100 * rtol)
        return bool(ok)
    except Exception as e:
        if type(e).__name__ == "CaseTimeout":
            raise
        return False


# =================================================================================================
# workload: clamped cantilever
# =================================================================================================
KF_RIKS_FIRST = "Riks.solve/first-point-not-solved"
TIME_LAWS = {"linear": lambda t: t, "quadratic": lambda t: t * t, "affine": lambda t: 0.25 + 0.75 * t, "const": lambda t: 1.0,
             "sine": lambda t: np.sin(0.5 * np.pi * t)}


def draw_cantilever(rng, form, demanding=False, riks=False):
    interp, p, mixed, cs = form
    P = {"form": list(map(lambda v: list(v) if isinstance(v, tuple) else v, form)), "nel": int(rng.integers(1, 5)),
         "reduced": bool(rng.random() < 0.6)}
    P["material"] = "Simo1986" if (mixed or rng.random() < 0.5) else "Harsch2021"
    L = P["L"] = float(loguniform(rng, 0.3, 10.0))
    kF = float(loguniform(rng, 0.1, 100.0))
    P["Fi"] = (kF * loguniform(rng, 0.5, 2.0, size=3)).tolist()
    P["Ei"] = (kF / L**2 * loguniform(rng, 20.0, 1000.0, size=3)).tolist()
    if rng.random() < 0.2:
        # a very slender rod (wire): axial and shear stiffness many orders above the bending stiffness over L^2
        P["Ei"] = (kF / L**2 * float(loguniform(rng, 1e5, 1e9)) * loguniform(rng, 0.5, 2.0, size=3)).tolist()
        P["slender"] = True
    fscale = P["fscale"] = kF / L**2
    kmin = min(P["Fi"])
    nn1 = p * P["nel"]                      # number of nodal intervals
    # reference configuration
    P["r0"] = (rng.normal(size=3) * (rng.random() < 0.7)).tolist()
    P["A0"] = (np.eye(3) if rng.random() < 0.25 else quat_to_mat(rng.normal(size=4))).tolist()
    if rng.random() < 0.3 and nn1 >= 2:
        P["ref"] = "arc"
        P["theta"] = float(rng.uniform(0.3, min(2.5, 0.6 * nn1)))
        P["twist"] = float(rng.uniform(-0.5, 0.5)) if rng.random() < 0.5 else 0.0
    else:
        P["ref"] = "straight"
    # support
    u = rng.random()
    ident = np.allclose(P["r0"], 0) and np.allclose(P["A0"], np.eye(3))
    P["clamp"] = "origin" if (ident and u < 0.6) else ("frame" if u < 0.7 else "frame_offset")
    P["clamp_offset"] = (rng.normal(size=3) * 0.3 * L).tolist() if P["clamp"] == "frame_offset" else [0.0, 0.0, 0.0]
    P["clamp_A"] = quat_to_mat(rng.normal(size=4)).tolist() if P["clamp"] == "frame_offset" else None
    P["flip"] = bool(rng.random() < 0.3)
    if rng.random() < 0.2 and not riks and P["clamp"] != "origin":
        P["clamp_motion"] = {"d": (rng.normal(size=3) * 0.2 * L).tolist(), "w": (random_unit(rng) * float(rng.uniform(0.1, 0.8))).tolist()}
    else:
        P["clamp_motion"] = None
    # loads
    amp = float(loguniform(rng, 0.2, 4.0)) * (float(rng.uniform(4, 15)) if demanding else 1.0)
    loads = []
    nl = int(rng.integers(1, 4))
    kinds = ["Force", "B_Moment", "Moment", "B_Force", "line", "Force_ecc"]
    for k in range(nl):
        kind = kinds[int(rng.integers(len(kinds)))] if k or rng.random() < 0.5 else ["Force", "B_Moment", "Moment"][int(rng.integers(3))]
        xi = 1.0 if rng.random() < 0.8 else float(rng.uniform(0.3, 0.95))
        d = random_unit(rng)
        if kind in ("Force", "Force_ecc", "B_Force", "line"):
            if d[0] < -0.6:                 # no dominant axial compression (buckling-type bifurcation)
                d[0] = -d[0]
            mag = amp * kmin / L**2 / nl
            if kind == "line":
                mag = mag / L
        else:
            lim = min(2.5, 0.5 * nn1) * (3.0 if demanding else 1.0)
            mag = min(amp, lim) * kmin / L / nl
        law = "linear" if riks else ["linear", "linear", "quadratic", "affine", "const", "sine"][int(rng.integers(6))]
        if demanding and rng.random() < 0.7:
            law = "linear"
        loads.append({"kind": kind, "xi": xi, "vec": (np.asarray(P["A0"]) @ d * mag).tolist() if kind in ("Force", "Force_ecc", "Moment", "line") else (d * mag).tolist(),
                      "ecc": (rng.normal(size=3) * 0.05 * L).tolist() if kind == "Force_ecc" else [0.0, 0.0, 0.0], "law": law})
    P["loads"] = loads
    return P


def build_cantilever(P, R, c):
    from cardillo import System
    from cardillo.discrete import Frame
    from cardillo.constraints import RigidConnection
    from cardillo.forces import Force, B_Force, Moment, B_Moment
    from cardillo.rods import Simo1986, Harsch2021, CircularCrossSection
    from cardillo.rods.cosseratRod import make_CosseratRod
    from cardillo.rods.force_line_distributed import Force_line_distributed
    from cardillo.solver import SolverOptions

    interp, p, mixed, cs = P["form"]
    moved = not (np.array_equal(R, np.eye(3)) and not np.any(c))
    with warnings.catch_warnings():
        warnings.simplefilter("ignore")
        Rod = make_CosseratRod(interpolation=interp, mixed=bool(mixed), constraints=None if cs is None else list(cs),
                               polynomial_degree=int(p), reduced_integration=bool(P["reduced"]))
    nel, L = P["nel"], P["L"]
    A0r = np.asarray(P["A0"], dtype=float)
    r0r = np.asarray(P["r0"], dtype=float)
    A0, r0 = R @ A0r, c + R @ r0r
    if P["ref"] == "straight":
        Q = Rod.straight_configuration(nel, L, r_OP0=r0, A_IB0=A0)
    else:
        th, tw = P["theta"], P["twist"]
        Rr = L / th
        ez, ex = np.array([0, 0, 1.0]), np.array([1.0, 0, 0])
        Q = Rod.pose_configuration(
            nel, lambda xi: Rr * np.array([np.sin(th * xi), 1 - np.cos(th * xi), 0.0]),
            lambda xi: rodrigues(ez * th * xi) @ rodrigues(ex * tw * xi), xi1=1.0, r_OP0=r0, A_IB0=A0)
    Q = np.asarray(Q, dtype=float)
    mat = {"Simo1986": Simo1986, "Harsch2021": Harsch2021}[P["material"]](np.array(P["Ei"]), np.array(P["Fi"]))
    with warnings.catch_warnings():
        warnings.simplefilter("ignore")
        rod = Rod(CircularCrossSection(L / 50), mat, nel, Q=Q.copy(), q0=Q.copy(), name="rod")
    S = System()
    # ---- support
    if P["clamp"] == "origin" and not moved:
        support = S.origin
    else:
        rF = r0r + A0r @ np.asarray(P["clamp_offset"], dtype=float)
        AF = A0r if P["clamp_A"] is None else np.asarray(P["clamp_A"], dtype=float)
        cm = P["clamp_motion"]
        if cm is None:
            support = Frame(r_OP=c + R @ rF, A_IB=R @ AF, name="support")
        else:
            d, w = np.asarray(cm["d"]), np.asarray(cm["w"])
            support = Frame(r_OP=lambda t: c + R @ (rF + t * d), A_IB=lambda t: R @ AF @ rodrigues(t * w), name="support")
        S.add(support)
    S.add(rod)
    if P["flip"]:
        S.add(RigidConnection(rod, support, xi1=0, name="clamp"))
    else:
        S.add(RigidConnection(support, rod, xi2=0, name="clamp"))
    # ---- loads
    for k, ld in enumerate(P["loads"]):
        lam = TIME_LAWS[ld["law"]]
        v = np.asarray(ld["vec"], dtype=float)
        kind, xi = ld["kind"], ld["xi"]
        if kind in ("Force", "Force_ecc"):
            vv = R @ v
            S.add(Force((lambda t, vv=vv, lam=lam: lam(t) * vv), rod, xi, B_r_CP=np.asarray(ld["ecc"], dtype=float), name="load%d" % k))
        elif kind == "B_Force":
            S.add(B_Force((lambda t, v=v, lam=lam: lam(t) * v), rod, xi, name="load%d" % k))
        elif kind == "Moment":
            vv = R @ v
            S.add(Moment((lambda t, vv=vv, lam=lam: lam(t) * vv), rod, xi, name="load%d" % k))
        elif kind == "B_Moment":
            S.add(B_Moment((lambda t, v=v, lam=lam: lam(t) * v), rod, xi, name="load%d" % k))
        elif kind == "line":
            vv = R @ v
            fl = Force_line_distributed((lambda t, xi_, vv=vv, lam=lam: lam(t) * vv * (0.5 + xi_)), rod)
            fl.name = "load%d" % k
            S.add(fl)
    with contextlib.redirect_stdout(io.StringIO()), warnings.catch_warnings():
        warnings.simplefilter("ignore")
        S.assemble(options=SolverOptions(compute_consistent_initial_conditions=False))
    return S, rod


def cantilever_classes(ctx, P):
    interp, p, mixed, cs = P["form"]
    ctx.cls("form:" + form_name((interp, p, mixed, None if cs is None else tuple(cs))))
    ctx.cls("nel:%d" % P["nel"])
    ctx.cls("ref:" + P["ref"])
    ctx.cls("clamp:" + P["clamp"] + ("+moving" if P["clamp_motion"] else "") + ("+flipped" if P["flip"] else ""))
    ctx.cls("material:" + P["material"])
    ctx.cls("slenderness:" + ("wire" if P.get("slender") else "ordinary"))
    for ld in P["loads"]:
        ctx.cls("load:%s:%s:%s" % (ld["kind"], "tip" if ld["xi"] == 1.0 else "interior", ld["law"]))


def draw_options(rng, fscale, tight):
    if tight:
        rel = float([1e-9, 1e-10, 1e-11][int(rng.integers(3))])
        rtol = float([1e-9, 1e-11][int(rng.integers(2))])
    else:
        rel = float(loguniform(rng, 1e-10, 1e-5))
        rtol = float(loguniform(rng, 1e-10, 1e-5))
    return {"newton_atol": rel * max(fscale, 1e-3), "newton_rtol": rtol, "newton_max_iter": int(rng.integers(15, 40))}


def nontrivial_rows(S, sol_q, t, verdicts, L):
    q0 = np.asarray(S.q0, dtype=float)
    for i, ok in enumerate(verdicts):
        if ok and t[i] > 0 and np.max(np.abs(sol_q[i] - q0)) > 1e-6 * L:
            return True
    return False


def case_cantilever(spec, ctx):
    rng = ctx.rng
    form = FORMS[spec["form"]]
    P = draw_cantilever(rng, form)
    n_steps = int([1, 2, 3, 5, 8, 12, 20][int(rng.integers(7))])
    optkw = draw_options(rng, P["fscale"], tight=True)
    verbose = bool(rng.random() < 0.5)
    R, c, mcls = draw_motion(rng)
    det = {"problem": "cantilever", "formulation": form_name(form), "P": P, "n_load_steps": n_steps, "options": optkw}
    cantilever_classes(ctx, P)
    ctx.cls("load_steps:%d" % n_steps)
    ctx.cls("motion:" + mcls)
    runs = []
    for tag, (Rk, ck) in (("reference", (np.eye(3), np.zeros(3))), ("moved", (R, c))):
        S, rod = build_cantilever(P, Rk, ck)
        obs = run_newton(S, n_steps, dict(optkw), verbose)
        d = {**det, "placement": tag, "R": Rk, "c": ck}
        if obs.exc is not None:
            classify_exception(ctx, "Newton.solve", obs, d)
            runs.append(None)
            continue
        verdicts = check_newton(ctx, tag, S, obs, n_steps, optkw, d)
        runs.append((S, rod, obs, verdicts))
    ctx.count("benign:cantilever")
    nontriv = False
    if all(r is not None for r in runs):
        (S1, rod1, o1, v1), (S2, rod2, o2, v2) = runs
        if len(v1) == n_steps + 1 and all(v1) and len(v2) == n_steps + 1 and all(v2):
            ctx.count("benign_converged:cantilever")
        nontriv = nontrivial_rows(S1, np.asarray(o1.result.q), np.asarray(o1.result.t), v1, P["L"])
        frame_compare_rods(ctx, "Newton", P, det, runs, R, c)
    ctx.sig(det, nontrivial=nontriv)
    ctx.sample({"kind": "cantilever", "formulation": form_name(form), "nel": P["nel"], "L": P["L"], "loads": [(l["kind"], l["law"]) for l in P["loads"]],
                "n_load_steps": n_steps, "atol": optkw["newton_atol"], "rtol": optkw["newton_rtol"]})


def frame_compare_rods(ctx, solver_name, P, det, runs, R, c, use_correction=True):
    (S1, rod1, o1, v1), (S2, rod2, o2, v2) = runs
    s1, s2 = o1.result, o2.result
    n = min(len(v1), len(v2))
    if len(v1) != len(v2):
        ctx.count("frame_runs_of_different_length")
        ctx.undecided("moved problem returned a different number of load steps (iteration counts at the limit)")
    L = P["L"]
    xis = [0.0, 0.37, 0.5, 0.81, 1.0]
    worst = 0.0
    for i in range(n):
        if not (v1[i] and v2[i]):
            continue
        if use_correction:
            e1 = newton_correction(o1, S1, s1.t[i], s1.q[i], s1.la_g[i], s1.la_c[i], s1.la_N[i])
            e2 = newton_correction(o2, S2, s2.t[i], s2.q[i], s2.la_g[i], s2.la_c[i], s2.la_N[i])
            if not (e1 < 1e-8 * L and e2 < 1e-8 * L):
                ctx.count("frame_rows_undecided")
                ctx.undecided("frame indifference: Newton-correction estimate above 1e-8 L (%.1e, %.1e)" % (e1, e2))
                continue
        r1, A1, ri1, Ai1 = rod_samples(rod1, float(s1.t[i]), s1.q[i], xis)
        r2, A2, ri2, Ai2 = rod_samples(rod2, float(s2.t[i]), s2.q[i], xis)
        ctx.mon("frame.rod")
        d = {**det, "row": i, "load_level": float(s1.t[i]), "R": R, "c": c, "solver": solver_name}
        alt = (lambda i=i: is_equilibrium_of(S1, float(s1.t[i]), map_back(s2.q[i], [(rod2.qDOF, "rod")], R, c), np.asarray(s2.la_c[i]), np.asarray(s2.la_N[i]),
                                             o1.b0[i], o1.solver.options.newton_atol, o1.solver.options.newton_rtol))
        ok = compare_moved(ctx, solver_name + ".solve/frame-indifference", "nodal poses of the rigidly moved problem are not the moved nodal poses",
                           r1, A1, r2, A2, R, c, L, d, other_equilibrium=alt)
        ok = ok and compare_moved(ctx, solver_name + ".solve/frame-indifference", "interpolated cross-section poses of the rigidly moved problem are not the moved poses",
                                  ri1, Ai1, ri2, Ai2, R, c, L, d, other_equilibrium=alt)
        if not ok:
            break


# =================================================================================================
# workload: provoked early stops
# =================================================================================================
class Truss2D:
    """the two-bar truss of test/test_riks.py (one coordinate: the bar angle), analytic h_q"""

    def __init__(self, force, stiffness, phi0, width):
        self.force, self.stiffness, self.phi0, self.width = force, stiffness, phi0, width
        self.nq = self.nu = 1
        self.q0 = np.array([phi0])
        self.u0 = np.zeros(1)
        self.constant_mass_matrix = True
        self.name = "truss"

    def M(self, t, q):
        return np.eye(1)

    def h(self, t, q, u):
        phi = q[0]
        return np.array([self.force(t) + 2 * self.stiffness * (self.width / np.cos(phi) - self.width / np.cos(self.phi0)) * np.sin(phi)])

    def h_q(self, t, q, u):
        phi = q[0]
        w, k = self.width, self.stiffness
        return np.array([[2 * k * (w * np.sin(phi) ** 2 / np.cos(phi) ** 2 + (w / np.cos(phi) - w / np.cos(self.phi0)) * np.cos(phi))]])


def truss_limit_load(k, phi0, w):
    phi = np.linspace(0.0, phi0, 2001)
    return float(np.max(-2 * k * (w / np.cos(phi) - w / np.cos(phi0)) * np.sin(phi)))


def build_truss(k, phi0, w, fmax):
    from cardillo import System
    from cardillo.solver import SolverOptions
    S = System()
    S.add(Truss2D(lambda t: -fmax * t, k, phi0, w))     # pushes the truss down towards snap-through
    with contextlib.redirect_stdout(io.StringIO()), warnings.catch_warnings():
        warnings.simplefilter("ignore")
        S.assemble(options=SolverOptions(compute_consistent_initial_conditions=False))
    return S


def case_early(spec, ctx):
    rng = ctx.rng
    directed = spec.get("directed")
    if spec.get("sub") == "truss" and not directed:
        k, phi0, w = float(loguniform(rng, 0.1, 100)), float(rng.uniform(0.3, 1.2)), float(loguniform(rng, 0.3, 3))
        flim = truss_limit_load(k, phi0, w)
        over = float(rng.uniform(0.6, 2.5))
        S = build_truss(k, phi0, w, over * flim)
        n_steps = int(rng.integers(1, 25))
        optkw = {"newton_atol": float(loguniform(rng, 1e-10, 1e-6)) * flim, "newton_rtol": float(loguniform(rng, 1e-10, 1e-6)),
                 "newton_max_iter": int(rng.integers(1, 25)), "continue_with_unconverged": bool(rng.random() < 0.25)}
        det = {"problem": "truss (test_riks.py) under Newton", "stiffness": k, "phi0": phi0, "width": w, "load/limit_load": over,
               "n_load_steps": n_steps, "options": optkw}
        ctx.cls("early:truss:%s" % ("beyond_limit_load" if over > 1 else "below_limit_load"))
        L = 1.0
    elif spec.get("sub") == "inject" and not directed:
        return case_inject_newton(spec, ctx)
    else:
        form = FORMS[spec["form"]]
        if directed:
            rng = np.random.default_rng(20230923)        # directed case: same problem for every seed
        P = draw_cantilever(rng, form, demanding=True)
        if directed:
            for ld in P["loads"]:
                ld["law"] = "linear"
            P["clamp_motion"] = None
            n_steps, max_iter, cont = 2, 2, False
        else:
            n_steps = int(rng.integers(1, 4))
            max_iter = int(rng.integers(1, 4))
            cont = bool(rng.random() < 0.3)
            if rng.random() < 0.5:
                # far too few load steps but a generous iteration limit: an iteration that diverges has room to overflow
                n_steps, max_iter = int(rng.integers(1, 3)), int(rng.integers(60, 150))
        optkw = draw_options(rng, P["fscale"], tight=False)
        optkw.update({"newton_max_iter": max_iter, "continue_with_unconverged": cont})
        S, rod = build_cantilever(P, np.eye(3), np.zeros(3))
        det = {"problem": "cantilever with demanding load", "formulation": form_name(form), "P": P, "n_load_steps": n_steps, "options": optkw}
        cantilever_classes(ctx, P)
        ctx.cls("early:rod:max_iter=%d:%s" % (max_iter, "continue" if cont else "stop"))
        L = P["L"]
    obs = run_newton(S, n_steps, dict(optkw), bool(rng.random() < 0.5))
    if obs.exc is not None:
        classify_exception(ctx, "Newton.solve", obs, det)
        ctx.sig(det, nontrivial=False)
        return
    verdicts = check_newton(ctx, "early", S, obs, n_steps, optkw, det)
    rows = len(verdicts)
    ctx.cls("early:outcome:%s" % ("truncated" if rows < n_steps + 1 else ("all_rows_ok" if all(verdicts) else "full_length_with_bad_rows")))
    ctx.sig(det, nontrivial=rows < n_steps + 1 or nontrivial_rows(S, np.asarray(obs.result.q), np.asarray(obs.result.t), verdicts, L))
    ctx.sample({"kind": "early", "problem": det["problem"], "n_load_steps": n_steps, "newton_max_iter": optkw["newton_max_iter"],
                "rows_returned": rows, "messages": obs.stop_messages()[:2]})


def case_inject_newton(spec, ctx):
    """benign cantilever; the repository's guarded failpoint makes load step k report non-convergence"""
    rng = ctx.rng
    form = FORMS[spec["form"]]
    P = draw_cantilever(rng, form)
    n_steps = int(rng.integers(2, 11))
    k = int(rng.integers(0, n_steps + 1))
    optkw = draw_options(rng, P["fscale"], tight=False)
    S, rod = build_cantilever(P, np.eye(3), np.zeros(3))
    det = {"problem": "cantilever, load step %d forced to report non-convergence (failpoint statics.newton)" % k, "formulation": form_name(form),
           "P": P, "n_load_steps": n_steps, "options": optkw, "injected_step": k}
    cantilever_classes(ctx, P)
    vh = plan_injection("statics.newton", [k])
    if vh is None:
        ctx.count("failpoints_unavailable")
        ctx.sig(det, nontrivial=False)
        return
    try:
        obs = run_newton(S, n_steps, dict(optkw), bool(rng.random() < 0.5))
        consumed = ("statics.newton", k) in list(vh.log)
    finally:
        vh.reset()
    ctx.cls("early:inject:%s" % ("first" if k == 0 else ("last" if k == n_steps else "middle")))
    if obs.exc is not None:
        classify_exception(ctx, "Newton.solve", obs, det)
        ctx.sig(det, nontrivial=False)
        return
    verdicts = check_newton(ctx, "inject", S, obs, n_steps, optkw, det)
    rows = len(verdicts)
    if consumed:
        ctx.mon("newton.injected_stop")
        if rows > k:
            ctx.violation("Newton.solve", "load steps at or after a step that reported non-convergence are returned (continue_with_unconverged off)",
                          {**det, "rows_returned": rows})
    else:
        ctx.count("injection_not_consumed")
    ctx.sig(det, nontrivial=consumed)
    ctx.sample({"kind": "early", "problem": det["problem"], "n_load_steps": n_steps, "rows_returned": rows, "messages": obs.stop_messages()[:2]})


# =================================================================================================
# workload: bodies on springs, optionally above planes
# =================================================================================================
def draw_springs(rng, body, contact):
    P = {"body": body}
    P["r"] = rng.normal(size=3).tolist()
    P["p"] = (lambda v: (v / np.linalg.norm(v)).tolist())(rng.normal(size=4))
    ns = int(rng.integers(6, 9)) if body == "rigid" else int(rng.integers(3, 6))
    kmean = float(loguniform(rng, 10, 1e3))
    springs = []
    for k in range(ns):
        springs.append({
            "dir": random_unit(rng).tolist(), "len": float(rng.uniform(0.5, 2.0)),
            "att": (rng.normal(size=3) * 0.3).tolist() if body == "rigid" else [0.0, 0.0, 0.0],
            "k": kmean * float(loguniform(rng, 0.3, 3.0)), "compliance": bool(rng.random() < 0.5),
            "pre": float(rng.uniform(0.9, 1.1)) if rng.random() < 0.25 else None,
            "reversed": bool(rng.random() < 0.3)})
    P["springs"] = springs
    P["kmean"] = kmean
    P["mass"] = float(loguniform(rng, 0.1, 10))
    gdir = random_unit(rng)
    P["weight"] = (gdir * kmean * float(loguniform(rng, 0.02, 0.4))).tolist()
    P["law"] = ["linear", "quadratic", "affine", "const"][int(rng.integers(4))]
    # the body may still be moving when the static analysis is started (a state taken over from a dynamic run): a static
    # equilibrium is one with the velocities at ZERO, whatever the system's initial velocities are
    P["u0"] = ((rng.normal(size=6 if body == "rigid" else 3) * float(loguniform(rng, 0.3, 3.0))).tolist()
               if (not contact and rng.random() < 0.4) else None)
    P["planes"] = []
    if contact:
        npl = 1 if rng.random() < 0.7 else 2
        for j in range(npl):
            # plane normal roughly against the weight so that the load closes the contact
            n = -gdir + 0.4 * rng.normal(size=3) * (1 if j == 0 else 2)
            n /= np.linalg.norm(n)
            t1 = np.cross(n, random_unit(rng)); t1 /= np.linalg.norm(t1)
            A = np.vstack((t1, np.cross(n, t1), n)).T
            gap = [0.0, float(loguniform(rng, 1e-3, 5e-2)), float(rng.uniform(0.05, 0.3)), 5.0][int(rng.integers(4))]
            P["planes"].append({"A": A.tolist(), "gap": gap, "radius": float(rng.uniform(0, 0.3)) if rng.random() < 0.7 else 0.0,
                                "off": (rng.normal(size=3) * 0.2).tolist() if (body == "rigid" and rng.random() < 0.5) else [0.0, 0.0, 0.0]})
    return P


def build_springs(P, R, c):
    from cardillo import System
    from cardillo.discrete import Frame, RigidBody, PointMass
    from cardillo.forces import Force
    from cardillo.interactions import TwoPointInteraction
    from cardillo.force_laws import Spring
    from cardillo.contacts import Sphere2Plane
    from cardillo.solver import SolverOptions
    S = System()
    r = np.asarray(P["r"]); p = np.asarray(P["p"])
    A = quat_to_mat(p)
    if P["body"] == "rigid":
        q0 = np.concatenate((c + R @ r, quat_mul(rot_to_quat(R), p)))
        u0_ = np.zeros(6) if P.get("u0") is None else np.concatenate((R @ np.asarray(P["u0"][:3]), np.asarray(P["u0"][3:])))
        body = RigidBody(P["mass"], np.diag([0.1, 0.2, 0.15]) * P["mass"], q0=q0, u0=u0_, name="body")
    else:
        body = PointMass(P["mass"], q0=c + R @ r, u0=np.zeros(3) if P.get("u0") is None else R @ np.asarray(P["u0"]), name="body")
    S.add(body)
    for k, sp in enumerate(P["springs"]):
        att = np.asarray(sp["att"])
        anchor = r + (A @ att if P["body"] == "rigid" else 0.0) + np.asarray(sp["dir"]) * sp["len"]
        fr = Frame(r_OP=c + R @ anchor, A_IB=R, name="anchor%d" % k)
        if sp["reversed"]:
            tpi = TwoPointInteraction(body, fr, B_r_CP1=att, name="tpi%d" % k)
        else:
            tpi = TwoPointInteraction(fr, body, B_r_CP2=att, name="tpi%d" % k)
        l_ref = None if sp["pre"] is None else sp["pre"] * sp["len"]
        S.add(fr, tpi, Spring(tpi, sp["k"], l_ref=l_ref, compliance_form=sp["compliance"], name="spring%d" % k))
    lam = TIME_LAWS[P["law"]]
    W = R @ np.asarray(P["weight"])
    S.add(Force(lambda t: lam(t) * W, body, name="weight"))
    for j, pl in enumerate(P["planes"]):
        Apl = np.asarray(pl["A"]); n = Apl[:, 2]
        off = np.asarray(pl["off"])
        centre = r + (A @ off if P["body"] == "rigid" else 0.0)
        point = centre - n * (pl["radius"] + pl["gap"])
        fr = Frame(r_OP=c + R @ point, A_IB=R @ Apl, name="plane%d" % j)
        S.add(fr, Sphere2Plane(fr, body, mu=0, r=pl["radius"], B_r_CP=off, name="contact%d" % j))
    with contextlib.redirect_stdout(io.StringIO()), warnings.catch_warnings():
        warnings.simplefilter("ignore")
        S.assemble(options=SolverOptions(compute_consistent_initial_conditions=False))
    return S, body


def body_pose(P, body, q_sys):
    q = np.asarray(q_sys, dtype=float)[body.qDOF]
    if P["body"] == "rigid":
        return q[:3][None, :], quat_to_mat(q[3:7])[None, :, :]
    return q[:3][None, :], np.zeros((0, 3, 3))


def case_springs(spec, ctx, contact=False):
    rng = ctx.rng
    P = draw_springs(rng, spec["body"], contact)
    n_steps = int([1, 2, 4, 7, 12, 20][int(rng.integers(6))])
    optkw = draw_options(rng, P["kmean"], tight=True)
    optkw["newton_atol"] = optkw["newton_atol"] * 1e-2
    R, c, mcls = draw_motion(rng)
    kind = "contact" if contact else "springs"
    det = {"problem": kind, "P": P, "n_load_steps": n_steps, "options": optkw}
    ctx.cls("%s:%s" % (kind, P["body"]))
    ctx.cls("springs:compliance=%d/%d" % (sum(s["compliance"] for s in P["springs"]), len(P["springs"])))
    ctx.cls("springs:prestressed" if any(s["pre"] for s in P["springs"]) else "springs:stress_free")
    if P.get("u0") is not None:
        ctx.cls("springs:system_has_initial_velocities")
    ctx.cls("weight_law:" + P["law"])
    ctx.cls("motion:" + mcls)
    for pl in P["planes"]:
        ctx.cls("plane:gap=%s" % ("0" if pl["gap"] == 0 else ("far" if pl["gap"] > 1 else "open")))
    runs = []
    for tag, (Rk, ck) in (("reference", (np.eye(3), np.zeros(3))), ("moved", (R, c))):
        S, body = build_springs(P, Rk, ck)
        obs = run_newton(S, n_steps, dict(optkw), bool(rng.random() < 0.3))
        d = {**det, "placement": tag, "R": Rk, "c": ck}
        if obs.exc is not None:
            classify_exception(ctx, "Newton.solve", obs, d)
            runs.append(None)
            continue
        verdicts = check_newton(ctx, tag, S, obs, n_steps, optkw, d)
        runs.append((S, body, obs, verdicts))
    ctx.count("benign:" + kind)
    nontriv = False
    if all(r is not None for r in runs):
        (S1, b1, o1, v1), (S2, b2, o2, v2) = runs
        if len(v1) == n_steps + 1 and all(v1) and len(v2) == n_steps + 1 and all(v2):
            ctx.count("benign_converged:" + kind)
        s1, s2 = o1.result, o2.result
        nontriv = nontrivial_rows(S1, np.asarray(s1.q), np.asarray(s1.t), v1, 1.0)
        if contact:
            closed = [bool(np.any(np.asarray(s1.la_N[i]) > 0)) for i in range(len(v1))]
            ctx.cls("contact:closes_during_run" if (any(closed) and not all(closed[1:])) else ("contact:closed" if any(closed) else "contact:stays_open"))
        if len(v1) != len(v2):
            ctx.undecided("moved problem returned a different number of load steps")
        for i in range(min(len(v1), len(v2))):
            if not (v1[i] and v2[i]):
                continue
            e1 = newton_correction(o1, S1, s1.t[i], s1.q[i], s1.la_g[i], s1.la_c[i], s1.la_N[i])
            e2 = newton_correction(o2, S2, s2.t[i], s2.q[i], s2.la_g[i], s2.la_c[i], s2.la_N[i])
            if not (e1 < 1e-8 and e2 < 1e-8):
                ctx.count("frame_rows_undecided")
                ctx.undecided("frame indifference: Newton-correction estimate above 1e-8 (%.1e, %.1e)" % (e1, e2))
                continue
            r1, A1 = body_pose(P, b1, s1.q[i])
            r2, A2 = body_pose(P, b2, s2.q[i])
            ctx.mon("frame.body")
            alt = (lambda i=i: is_equilibrium_of(S1, float(s1.t[i]), map_back(s2.q[i], [(b2.qDOF, P["body"])], R, c), np.asarray(s2.la_c[i]),
                                                 np.asarray(s2.la_N[i]), o1.b0[i], optkw["newton_atol"], optkw["newton_rtol"]))
            if not compare_moved(ctx, "Newton.solve/frame-indifference", "equilibrium pose of the rigidly moved spring/contact problem is not the moved pose",
                                 r1, A1, r2, A2, R, c, 1.0, {**det, "row": i, "load_level": float(s1.t[i]), "R": R, "c": c}, other_equilibrium=alt):
                break
            # contact forces are scalars: they must not change at all
            if contact and S1.nla_N:
                la1, la2 = np.asarray(s1.la_N[i]), np.asarray(s2.la_N[i])
                if np.max(np.abs(la1 - la2)) > 1e-6 * (1 + np.max(np.abs(la1))):
                    ctx.violation("Newton.solve/frame-indifference", "normal contact forces change under a rigid motion of the whole problem",
                                  {**det, "row": i, "la_N": la1, "la_N_moved": la2})
                    break
    ctx.sig(det, nontrivial=nontriv)
    ctx.sample({"kind": kind, "body": P["body"], "springs": len(P["springs"]), "planes": len(P["planes"]), "n_load_steps": n_steps})


# =================================================================================================
# workload: Riks
# =================================================================================================
def split_riks(S, x):
    i0 = S.nq
    i1 = i0 + S.nla_c
    i2 = i1 + S.nla_g
    i3 = i2 + S.nla_N
    return x[:i0], x[i0:i1], x[i1:i2], x[i2:i3]     # q, la_c, la_g, la_N


def riks_blocks(S, t, x):
    q, la_c, la_g, la_N = split_riks(S, x)
    return residual_blocks(S, t, q, la_g, la_c, la_N)


def run_riks(S, kw, optkw):
    from cardillo.solver import Riks, SolverOptions
    obs = Observed()
    with obs:
        solver = Riks(S, options=SolverOptions(**optkw), **kw)
        obs.solver = solver
        obs.result = solver.solve()
    return obs


def check_riks(ctx, S, obs, kw, optkw, det):
    """monitors (1) and (2) for one Riks run; returns (verdicts per returned row, nit sequence)"""
    sol = obs.result
    site = "Riks.solve"
    atol, rtol = optkw.get("newton_atol", 1e-6), optkw.get("newton_rtol", 1e-6)
    nx = S.nq + S.nla_c + S.nla_g + S.nla_N
    t = np.atleast_1d(np.asarray(sol.t, dtype=float))
    rows = len(t)
    try:
        X = np.hstack([np.asarray(a, dtype=float).reshape(rows, -1) for a in (sol.q, sol.la_c, sol.la_g, sol.la_N)])
        ok_shape = X.shape == (rows, nx)
    except Exception:
        ok_shape = False
    ctx.mon("riks.rows")
    if not ok_shape or rows < 1:
        ctx.violation(site, "returned Solution fields do not form one row per returned point", {**det, "rows": rows})
        return [], []
    calls = obs.calls
    have_trace = len(calls) == rows and all(cl["x"].size == (nx if k == 0 else nx + 1) for k, cl in enumerate(calls))
    if not have_trace:
        ctx.count("riks_runs_without_trace")
    la0 = float(kw.get("la_arc0", 1e-3))
    x_init = np.concatenate((S.q0, S.la_c0, S.la_g0, S.la_N0))
    n_main = nx + 1
    verdicts = []
    n_alias = 0
    for k in range(rows):
        b = riks_blocks(S, t[k], X[k])
        count_blocks(ctx, b, split_riks(S, X[k])[3])
        ctx.mon("riks.rows")
        if have_trace:
            x0 = calls[k]["x0"]
            b0 = riks_blocks(S, la0 if k == 0 else x0[-1], x0[:nx])
            n = nx if k == 0 else n_main
        else:
            b0, n = b, n_main
        ok, worst = judge(b, b0, atol, rtol, n=n)
        wit = {**det, "point": k, "points_returned": rows, "la_arc": float(t[k]), **worst, "newton_atol": atol, "newton_rtol": rtol}
        if k == 0:
            if not ok:
                # defect model: the first stored point is the initial configuration q0 (equilibrium for la_arc = 0) labelled with la_arc0
                b_at0 = riks_blocks(S, 0.0, X[0])
                ok0, _ = judge(b_at0, b_at0, atol, 0.0, n=nx)
                key = KF_RIKS_FIRST if (np.array_equal(X[0], x_init) and t[0] == la0 and ok0) else None
                ctx.violation(site, "first returned point is not an equilibrium at its load parameter"
                              + (" (it is the initial configuration, an equilibrium for la_arc=0, labelled la_arc0)" if key else ""), wit, key=key)
            verdicts.append(ok)
            continue
        if not have_trace:
            if not ok:
                ctx.violation(site, "returned point violates %s beyond 10x the solver criterion" % worst.get("block"), wit)
            verdicts.append(ok)
            continue
        xk = calls[k]["x"]
        # the converged iterate of this step itself
        bi = riks_blocks(S, xk[-1], xk[:nx])
        oki, worsti = judge(bi, b0, atol, rtol, n=n_main)
        ctx.mon("riks.iterates")
        if not oki and calls[k]["success"]:
            ctx.violation("Riks.R", "iterate accepted by the arc-length solver violates %s beyond 10x the solver criterion" % worsti.get("block"),
                          {**det, "point": k, "la_arc": float(xk[-1]), **worsti})
        if t[k] != xk[-1]:
            ctx.violation(site, "returned load parameter is not the load parameter of the accepted iterate", {**wit, "iterate_la_arc": float(xk[-1])})
        if not ok:
            # defect model: stored point k was advanced in place by the secant predictor of step k+1: 2 x_k - x_{k-1}
            prev = calls[k - 1]["x"][:nx] if k > 1 else x_init
            pred = 2 * xk[:nx] - prev
            sc = 1e-12 * (1 + np.max(np.abs(xk[:nx])))
            key = KF_RIKS_ALIAS if (k < rows - 1 and oki and np.max(np.abs(X[k] - pred)) <= sc) else None
            if key is not None:
                ctx.count("riks_points_overwritten_by_predictor")
                n_alias += 1
            if key is None or n_alias <= 2:     # one witness per run is enough for the classified defect
                ctx.violation(site, "returned point is not an equilibrium at its load parameter"
                              + (" (it is the accepted iterate advanced by the next secant predictor)" if key else ""),
                              {**wit, "distance_to_accepted_iterate": float(np.max(np.abs(X[k] - xk[:nx]))),
                               "distance_to_next_predictor": float(np.max(np.abs(X[k] - pred)))}, key=key)
        elif np.max(np.abs(X[k] - xk[:nx])) > 0 and k < rows - 1:
            ctx.count("riks_rows_altered_but_within_bound")
        verdicts.append(ok)
    # ---- (2) how did the run end
    ctx.mon("riks.end_of_run")
    span = np.asarray(kw.get("la_arc_span", [0.0, 1.0]), dtype=float)
    inside = span[0] <= t[-1] <= span[1]
    if inside:
        ctx.cls("riks:ended_inside_span")
        if not obs.stop_messages():
            nsolve = len(calls) - 1
            exhausted = have_trace and nsolve >= int(kw.get("max_load_steps", 10000)) and all(cl["success"] for cl in calls)
            wit = {**det, "last_la_arc": float(t[-1]), "span": span, "points_returned": rows, "max_load_steps": kw.get("max_load_steps")}
            if exhausted:
                ctx.count("riks_max_load_steps_exhausted_silently")
                if RIKS_MAXSTEPS_IS_EARLY_STOP:
                    ctx.violation(site, "run ended inside the requested load span (max_load_steps exhausted) without saying so", wit, key=KF_RIKS_MAXSTEPS)
            else:
                ctx.violation(site, "run ended inside the requested load span without saying so", wit)
    else:
        ctx.cls("riks:left_span")
    return verdicts, [cl["nit"] for cl in calls]


def case_riks(spec, ctx):
    rng = ctx.rng
    sub = spec["sub"]
    directed = spec.get("directed")
    optkw = {"newton_atol": float(loguniform(rng, 1e-10, 1e-7)), "newton_rtol": float(loguniform(rng, 1e-10, 1e-7)), "newton_max_iter": 20}
    kw = {"iter_goal": int(rng.integers(2, 6))}
    twin = None
    if sub in ("truss", "truss_maxsteps"):
        if directed:
            # the problem of test/test_riks.py (shorter span); "maxsteps": the same with max_load_steps=5
            k, phi0, w = 1.0, np.pi / 4, 1.0
            fmax = 1.0
            kw = {"iter_goal": 2, "la_arc0": 1e-3, "la_arc_span": np.array([-0.05, 0.05])}
            optkw = {"newton_atol": 1e-8, "newton_rtol": 1e-8}
        else:
            k, phi0, w = float(loguniform(rng, 0.1, 100)), float(rng.uniform(0.3, 1.2)), float(loguniform(rng, 0.3, 3))
            fmax = truss_limit_load(k, phi0, w)
            lo = -float(rng.uniform(0.2, 1.5)) if rng.random() < 0.6 else 0.0
            hi = float(rng.uniform(0.3, 1.5))
            kw.update({"la_arc0": float(loguniform(rng, 0.01, 0.2)) * (1 if rng.random() < 0.8 else -1) , "la_arc_span": np.array([lo, hi])})
            if kw["la_arc0"] < 0 and lo == 0.0:
                kw["la_arc0"] = -kw["la_arc0"]
            optkw["newton_atol"] *= fmax
        if directed == "maxsteps":
            kw["max_load_steps"] = 5
        elif sub == "truss_maxsteps":
            kw["max_load_steps"] = int(rng.integers(2, 12))
        else:
            kw["max_load_steps"] = 2000
        S = build_truss(k, phi0, w, fmax)
        det = {"problem": "truss (test_riks.py)", "stiffness": k, "phi0": phi0, "width": w, "force_scale": fmax, "riks": kw, "options": optkw}
        L = 1.0
        ctx.cls("riks:truss" + (":max_load_steps" if kw["max_load_steps"] < 100 else ""))
    elif sub in ("cantilever", "inject"):
        form = FORMS[spec["form"]]
        P = draw_cantilever(rng, form, riks=True)
        kw.update({"la_arc0": float(loguniform(rng, 0.02, 0.4)), "la_arc_span": np.array([0.0 if rng.random() < 0.7 else -0.3, float(rng.uniform(0.3, 1.2))]),
                   "max_load_steps": 150})
        if rng.random() < 0.3:
            kw["scale_exponent"] = [None, 0.25, 1.0][int(rng.integers(3))]
        optkw = {"newton_atol": float(loguniform(rng, 1e-11, 1e-9)) * max(P["fscale"], 1e-3), "newton_rtol": float(loguniform(rng, 1e-11, 1e-9)),
                 "newton_max_iter": 20}
        dead_load = sub == "cantilever" and rng.random() < 0.25
        if dead_load:
            # a load that does not vanish at load factor zero (dead weight plus a proportional load): the initial configuration
            # is then NOT the equilibrium of load factor zero
            P["loads"][0]["law"] = "affine"
            ctx.cls("riks:load_does_not_vanish_at_zero_load_factor")
        S, rod = build_cantilever(P, np.eye(3), np.zeros(3))
        R, c, mcls = draw_motion(rng)
        twin = (P, R, c)
        det = {"problem": "cantilever", "formulation": form_name(form), "P": P, "riks": kw, "options": optkw}
        cantilever_classes(ctx, P)
        ctx.cls("riks:cantilever")
        if dead_load:
            # every consequence of the unsolved first point (the point itself, the first secant, an early silent end) is the
            # recorded finding; without a dead load nothing is keyed
            _viol = ctx.violation
            ctx.violation = lambda site, what, detail=None, key=None: _viol(site, what, detail, key=key or KF_RIKS_FIRST)
        L = P["L"]
    else:  # contact: Riks' residual has no contact force; the property only asks that returned points are right and failures are loud
        P = draw_springs(rng, "point", True)
        P["law"] = "linear"
        for sp in P["springs"]:
            sp["pre"] = None        # Riks starts from (q0, la_arc=0) as a converged point: q0 must be an equilibrium at zero load
        kw.update({"la_arc0": float(loguniform(rng, 0.01, 0.1)), "la_arc_span": np.array([0.0, 1.0]), "max_load_steps": 300})
        optkw["newton_atol"] *= P["kmean"] * 1e-2
        S, body = build_springs(P, np.eye(3), np.zeros(3))
        det = {"problem": "point mass on springs above planes", "P": P, "riks": kw, "options": optkw}
        ctx.cls("riks:contact")
        L = 1.0
    if sub == "inject":
        kinj = int(rng.integers(0, 4))
        vh = plan_injection("riks.newton", [kinj])
        if vh is None:
            ctx.count("failpoints_unavailable")
            ctx.sig(det, nontrivial=False)
            return
        try:
            obs = run_riks(S, kw, dict(optkw))
            consumed = ("riks.newton", kinj) in list(vh.log)
        finally:
            vh.reset()
        ctx.cls("riks:inject")
        if consumed:
            ctx.mon("riks.injected_stop")
            if obs.exc is None and not obs.stop_messages():
                ctx.violation("Riks.solve", "run continued / returned silently after an arc-length step reported non-convergence",
                              {**det, "injected_step": kinj, "points_returned": len(np.atleast_1d(obs.result.t))})
            elif obs.exc is not None:
                classify_exception(ctx, "Riks.solve", obs, det)
                ctx.cls("riks:raised:" + type(obs.exc).__name__)
        else:
            ctx.count("injection_not_consumed")
        ctx.sig(det, nontrivial=consumed)
        ctx.sample({"kind": "riks", "sub": sub, "injected_step": kinj, "outcome": "raised %s" % type(obs.exc).__name__ if obs.exc is not None else "returned"})
        return
    obs = run_riks(S, kw, dict(optkw))
    ctx.count("benign:riks")
    if directed:
        ctx.mon("reference.solved")
    if obs.exc is not None:
        classify_exception(ctx, "Riks.solve", obs, det)
        if directed:
            ctx.violation(REF_SITE, "Riks does not return the equilibrium path of the truss of test/test_riks.py",
                          {**det, "exception": "%s: %s" % (type(obs.exc).__name__, str(obs.exc)[:200])})
        ctx.cls("riks:raised:" + type(obs.exc).__name__)
        ctx.sig(det, nontrivial=False)
        ctx.sample({"kind": "riks", "sub": sub, "outcome": "raised %s: %s" % (type(obs.exc).__name__, str(obs.exc)[:80])})
        return
    ctx.count("benign_converged:riks")
    verdicts, nits = check_riks(ctx, S, obs, kw, optkw, det)
    sol = obs.result
    rows = len(verdicts)
    if directed == "test_riks":
        tl = float(np.asarray(sol.t, dtype=float)[-1])
        if rows < 5 or kw["la_arc_span"][0] <= tl <= kw["la_arc_span"][1]:
            ctx.violation(REF_SITE, "Riks does not return the equilibrium path of the truss of test/test_riks.py",
                          {**det, "points_returned": rows, "last_la_arc": tl})
    ctx.cls("riks:points:%s" % ("<5" if rows < 5 else ("<30" if rows < 30 else ">=30")))
    nontriv = rows >= 3 and float(np.max(np.abs(np.asarray(sol.q)[-1] - S.q0))) > 1e-6 * L
    span_ = np.asarray(kw["la_arc_span"], dtype=float)
    if twin is not None and rows and not (span_[0] <= float(np.asarray(sol.t, dtype=float)[-1]) <= span_[1]):
        P, R, c = twin
        S2, rod2 = build_cantilever(P, R, c)
        obs2 = run_riks(S2, kw, dict(optkw))
        if obs2.exc is not None:
            classify_exception(ctx, "Riks.solve", obs2, {**det, "placement": "moved"})
            ctx.undecided("moved Riks run raised")
        else:
            s2 = obs2.result
            nits2 = [cl["nit"] for cl in obs2.calls]
            t1, t2 = np.asarray(sol.t, dtype=float), np.asarray(s2.t, dtype=float)
            if nits != nits2 or len(t1) != len(t2):
                # the step-length control depends on the iteration counts, which depend on a non-invariant norm
                ctx.count("riks_twin_iteration_counts_differ")
                ctx.undecided("Riks on the moved problem took different iteration counts: points are not comparable")
            else:
                ctx.mon("frame.riks")
                d = {**det, "R": R, "c": c}
                if np.max(np.abs(t1 - t2)) > 1e-7 * max(1.0, np.max(np.abs(t1))):
                    ctx.violation("Riks.solve/frame-indifference", "load parameters of the returned points change under a rigid motion of the problem",
                                  {**d, "max_difference": float(np.max(np.abs(t1 - t2)))})
                else:
                    xis = [0.0, 0.37, 0.81, 1.0]
                    for i in range(len(t1)):
                        r1, A1, ri1, Ai1 = rod_samples(rod, float(t1[i]), sol.q[i], xis)
                        r2, A2, ri2, Ai2 = rod_samples(rod2, float(t2[i]), s2.q[i], xis)
                        ok = compare_moved(ctx, "Riks.solve/frame-indifference", "points of the rigidly moved problem are not the moved points (nodal poses)",
                                           r1, A1, r2, A2, R, c, L, {**d, "point": i})
                        ok = compare_moved(ctx, "Riks.solve/frame-indifference", "points of the rigidly moved problem are not the moved points (interpolated poses)",
                                           ri1, Ai1, ri2, Ai2, R, c, L, {**d, "point": i}) and ok
                        if not ok:
                            break
    ctx.sig(det, nontrivial=nontriv)
    ctx.sample({"kind": "riks", "sub": sub, "points": rows, "la_arc0": kw.get("la_arc0"), "span": kw.get("la_arc_span"), "last_la_arc": float(np.asarray(sol.t)[-1])})


# =================================================================================================
# the repository's own reference problems (test/test_cantilever.py, test/test_riks.py): the pinned tree solves them,
# so a solver that does not return their equilibria any more is reported (title of the property)
# =================================================================================================
REF_SITE = "reference problem"


def case_reference(spec, ctx):
    L = 2 * np.pi
    Fi = [0.5, 2.0, 2.0]
    Pt = Fi[2] * 10 / L**2
    P = {"form": ["Quaternion", 2, False, None], "nel": 10, "reduced": True, "material": "Harsch2021", "L": L, "Fi": Fi, "Ei": [5.0, 1.0, 1.0],
         "fscale": 1.0, "r0": [0.0, 0.0, 0.0], "A0": np.eye(3).tolist(), "ref": "straight", "clamp": "origin", "clamp_offset": [0.0, 0.0, 0.0],
         "clamp_A": None, "flip": False, "clamp_motion": None,
         "loads": [{"kind": "Force", "xi": 1.0, "vec": [0.0, -Pt, 0.0], "ecc": [0.0, 0.0, 0.0], "law": "linear"},
                   {"kind": "B_Moment", "xi": 1.0, "vec": [0.0, 0.0, 2.5 * Pt], "ecc": [0.0, 0.0, 0.0], "law": "linear"}]}
    optkw = {"newton_max_iter": 30, "newton_atol": 1.0e-8}
    n_steps = 3
    det = {"problem": "test/test_cantilever.py (Quaternion, displacement-based, Harsch2021, 10 elements, 3 load steps)", "options": optkw}
    cantilever_classes(ctx, P)
    S, rod = build_cantilever(P, np.eye(3), np.zeros(3))
    obs = run_newton(S, n_steps, dict(optkw), True)
    ctx.mon("reference.solved")
    if obs.exc is not None:
        classify_exception(ctx, "Newton.solve", obs, det)
        ctx.violation(REF_SITE, "Newton does not return the equilibria of the cantilever of test/test_cantilever.py", {**det, "exception": str(obs.exc)[:200]})
        ctx.sig(det, nontrivial=False)
        return
    verdicts = check_newton(ctx, "reference", S, obs, n_steps, optkw, det)
    if len(verdicts) != n_steps + 1 or not all(verdicts):
        ctx.violation(REF_SITE, "Newton does not return the equilibria of the cantilever of test/test_cantilever.py",
                      {**det, "rows_returned": len(verdicts), "rows_ok": int(sum(verdicts)), "messages": obs.stop_messages()[:2]})
    tip = rod_samples(rod, 1.0, np.asarray(obs.result.q)[-1], [1.0])[2][0] if verdicts else None
    ctx.sig(det, nontrivial=bool(verdicts) and all(verdicts))
    ctx.sample({"kind": "reference", "problem": det["problem"], "rows": len(verdicts), "tip_position_at_full_load": tip})


# =================================================================================================
def run_case(spec, ctx):
    env.import_cardillo()
    kind = spec["kind"]
    ctx.cls("kind:" + kind)
    if kind == "cantilever":
        case_cantilever(spec, ctx)
    elif kind == "early":
        case_early(spec, ctx)
    elif kind == "springs":
        case_springs(spec, ctx, contact=False)
    elif kind == "contact":
        case_springs(spec, ctx, contact=True)
    elif kind == "riks":
        case_riks(spec, ctx)
    elif kind == "reference":
        case_reference(spec, ctx)
    else:
        raise ValueError(kind)


def finalize(agg):
    """a workload on which the solvers mostly fail decides nothing: report it as inconclusive"""
    reasons = []
    ex = agg["extra"]
    for kind, frac in (("cantilever", 0.6), ("springs", 0.6), ("contact", 0.5), ("riks", 0.4)):
        n, k = ex.get("benign:" + kind, 0), ex.get("benign_converged:" + kind, 0)
        if n and k < frac * n:
            reasons.append("only %d/%d benign '%s' problems were solved completely by the solver under test (need %.0f%%): workload decides too little"
                           % (k, n, kind, 100 * frac))
    return reasons
