"""C28 URDF import builds systems consistent with the described robot.

Random URDF trees are written as XML text into a temporary directory, imported
with the real ``cardillo.urdf.system_from_urdf`` and the returned assembled
system is decided by an independent forward-kinematics model (own RPY,
axis-angle, quaternion and tree traversal; nothing from ``cardillo.math``).
"""

import io
import os
import shutil
import tempfile
import traceback
import contextlib

import numpy as np

from vlib import env

ID = "C28"
LEVEL = "exploration"
RULE = ("each case is one seeded random URDF tree (depth 1-4, branching 1-4, about 2-14 links; joint types fixed / revolute / "
        "continuous / prismatic / floating(6,7) / planar; random origins, axes, inertial origins, visuals, root pose and "
        "twist, requested joint configuration and velocities) written as XML text and imported with the real "
        "system_from_urdf; distinct = distinct hash of the URDF text + request; non-trivial = the import succeeded, the "
        "tree has at least one joint with a non-zero requested coordinate or velocity and every link pose/velocity was "
        "compared with the independent forward kinematics")
ASSUMPTIONS = [
    "URDF semantics: joint origin = pose of joint frame J in the parent link frame, rpy = fixed-axis roll/pitch/yaw "
    "(R = Rz(yaw) Ry(pitch) Rx(roll)), omitted origin parts default to zero, omitted <axis> defaults to (1,0,0), axis is "
    "normalised; the inertial origin is the pose of the centre-of-mass frame in the link frame",
    "request conventions learnt from system_from_urdf: revolute/continuous/prismatic -> scalar, planar -> (x, y) in the "
    "joint frame (only planar joints with axis (0,0,1) are generated), floating -> (xyz, rpy) or (xyz, quaternion "
    "scalar-first); floating velocity -> (v, omega) in joint-frame components. The linear part of a floating velocity "
    "is ambiguous (time derivative of xyz vs. spatial velocity v = xyz_dot - omega x xyz): either is accepted and the "
    "one observed is recorded",
    "root twist (v_R inertial components, R_omega_IR root-frame components) is only requested for floating roots",
    "tolerances: 1e-9*(1+chain length scale) for positions, 1e-9 for rotation matrices, 1e-9*(1+velocity scale) for "
    "velocities and g_dot, 1e-9*max(1,|angle|) for joint angles (rounding is ~1e-13; realistic faults are O(1))",
    "the oracle is validated in every worker before use: RPY / axis-angle / quaternion maps against scipy Rotation and "
    "FK velocities against finite differences of FK poses; a failing self-check is a harness error (INCONCLUSIVE)",
]
REQUIRED_MONITORS = ["import.returned", "link.pose", "link.velocity", "constraint.g", "constraint.g_dot",
                     "joint.angle", "joint.angle_dot", "dof.count"]
CASE_TIMEOUT = 120
WALL_BUDGET = {"quick": 600, "thorough": 3000}

# mechanism keys of genuine defects (see the predicates in _expected_defect/_classify)
K_PRISM = "Prismatic.__init__/name-kwarg-rejected"
K_PLANAR = "joint_kinematics.planar/JointType-unbound"
K_FLOAT7 = "joint_kinematics.floating/RigidBody.q2pose-missing"
K_AXIS = "joint_kinematics.axis/omitted-axis-no-default"

DIRECTED = ["fixed", "revolute", "continuous", "prismatic", "planar", "floating6", "floating7", "axis-omitted",
            "floating-root", "x-axis", "massless-leaf", "chain", "visuals", "defaults"]
KINDS = ["working"] * 14 + ["prismatic", "prismatic", "planar", "floating7", "axis-omitted", "all"]


def cases(tier, seed):
    n = {"quick": 160, "thorough": 10000}[tier]
    out = [{"kind": "directed", "name": d} for d in DIRECTED]
    i = 0
    while len(out) < n:
        out.append({"kind": KINDS[i % len(KINDS)]})
        i += 1
    return out


# --------------------------------------------------------------------------
# independent kinematics model
# --------------------------------------------------------------------------
def _rx(a):
    c, s = np.cos(a), np.sin(a)
    return np.array([[1, 0, 0], [0, c, -s], [0, s, c]], dtype=float)


def _ry(a):
    c, s = np.cos(a), np.sin(a)
    return np.array([[c, 0, s], [0, 1, 0], [-s, 0, c]], dtype=float)


def _rz(a):
    c, s = np.cos(a), np.sin(a)
    return np.array([[c, -s, 0], [s, c, 0], [0, 0, 1]], dtype=float)


def rpy_mat(rpy):
    return _rz(rpy[2]) @ _ry(rpy[1]) @ _rx(rpy[0])


def _skew(a):
    return np.array([[0, -a[2], a[1]], [a[2], 0, -a[0]], [-a[1], a[0], 0.0]])


def axis_rot(n, th):
    n = np.asarray(n, dtype=float)
    n = n / np.linalg.norm(n)
    c, s = np.cos(th), np.sin(th)
    return c * np.eye(3) + s * _skew(n) + (1 - c) * np.outer(n, n)


def quat_mat(p):
    p = np.asarray(p, dtype=float)
    w, x, y, z = p / np.linalg.norm(p)
    return np.array([
        [1 - 2 * (y * y + z * z), 2 * (x * y - w * z), 2 * (x * z + w * y)],
        [2 * (x * y + w * z), 1 - 2 * (x * x + z * z), 2 * (y * z - w * x)],
        [2 * (x * z - w * y), 2 * (y * z + w * x), 1 - 2 * (x * x + y * y)],
    ])


def _pose(o):
    """(xyz, R) of an origin dict {"xyz": list|None, "rpy": list|None} or None"""
    if o is None:
        return np.zeros(3), np.eye(3)
    xyz = np.zeros(3) if o.get("xyz") is None else np.array(o["xyz"], dtype=float)
    R = np.eye(3) if o.get("rpy") is None else rpy_mat(np.array(o["rpy"], dtype=float))
    return xyz, R


def _axis(j):
    a = np.array([1.0, 0.0, 0.0]) if j.get("axis") is None else np.array(j["axis"], dtype=float)
    return a / np.linalg.norm(a)


def joint_motion(j, cfg, vel):
    """relative pose (p, R) of the child frame in the joint frame and relative
    velocity (v, w) in joint-frame components. v is the time derivative of p."""
    t = j["type"]
    p, R, v, w = np.zeros(3), np.eye(3), np.zeros(3), np.zeros(3)
    if t == "fixed":
        pass
    elif t in ("revolute", "continuous"):
        n = _axis(j)
        R = axis_rot(n, float(cfg) if cfg is not None else 0.0)
        w = (float(vel) if vel is not None else 0.0) * n
    elif t == "prismatic":
        n = _axis(j)
        p = (float(cfg) if cfg is not None else 0.0) * n
        v = (float(vel) if vel is not None else 0.0) * n
    elif t == "planar":
        if cfg is not None:
            p = np.array([cfg[0], cfg[1], 0.0], dtype=float)
        if vel is not None:
            v = np.array([vel[0], vel[1], 0.0], dtype=float)
    elif t == "floating":
        if cfg is not None:
            c = np.array(cfg, dtype=float)
            p = c[:3]
            R = rpy_mat(c[3:6]) if len(c) == 6 else quat_mat(c[3:7])
        if vel is not None:
            u = np.array(vel, dtype=float)
            v, w = u[:3], u[3:6]
    else:
        raise ValueError(t)
    return p, R, v, w


def fk(tree, cfg=None, vel=None, root=None, spatial=False):
    """world pose/twist of every link frame and centre-of-mass frame.
    spatial=True: linear part of a floating-joint velocity is the spatial
    velocity (velocity of the child-fixed point coinciding with the joint
    origin), i.e. p_dot = v + w x p."""
    cfg = tree["config"] if cfg is None else cfg
    vel = tree["vel"] if vel is None else vel
    root = tree["root"] if root is None else root
    links = {l["name"]: l for l in tree["links"]}
    children = {}
    for j in tree["joints"]:
        children.setdefault(j["parent"], []).append(j)
    A0 = np.array(root["A_IR"], dtype=float)
    st = {tree["links"][0]["name"]: dict(r=np.array(root["r_OR"], dtype=float), A=A0,
                                         v=np.array(root["v_R"], dtype=float),
                                         w=A0 @ np.array(root["R_omega_IR"], dtype=float),
                                         L=float(np.linalg.norm(root["r_OR"])),
                                         V=float(np.linalg.norm(root["v_R"])), W=float(np.linalg.norm(root["R_omega_IR"])))}
    stack = [tree["links"][0]["name"]]
    jinfo = {}
    while stack:
        pn = stack.pop()
        P = st[pn]
        for j in children.get(pn, []):
            pj, Rj = _pose(j["origin"])
            pm, Rm, vm, wm = joint_motion(j, cfg.get(j["name"]), vel.get(j["name"]))
            A_IJ = P["A"] @ Rj
            r = P["r"] + P["A"] @ (pj + Rj @ pm)
            A = A_IJ @ Rm
            w = P["w"] + A_IJ @ wm
            pdot = vm + (np.cross(wm, pm) if (spatial and j["type"] == "floating") else 0.0)
            v = P["v"] + np.cross(P["w"], r - P["r"]) + A_IJ @ pdot
            dL = float(np.linalg.norm(pj) + np.linalg.norm(pm))
            W = P["W"] + float(np.linalg.norm(wm))
            st[j["child"]] = dict(r=r, A=A, v=v, w=w, L=P["L"] + dL,
                                  V=P["V"] + P["W"] * dL + float(np.linalg.norm(vm)) + float(np.linalg.norm(wm)) * dL, W=W)
            jinfo[j["name"]] = dict(r_J=P["r"] + P["A"] @ pj, A_IJ=A_IJ, e=A_IJ @ _axis(j))
            stack.append(j["child"])
    out = {}
    for name, S in st.items():
        pi, Ri = _pose((links[name].get("inertial") or {}).get("origin"))
        rC = S["r"] + S["A"] @ pi
        AB = S["A"] @ Ri
        dL = float(np.linalg.norm(pi))
        out[name] = dict(r_OR=S["r"], A_IR=S["A"], v_R=S["v"], w=S["w"], r_OC=rC, A_IB=AB,
                         v_C=S["v"] + np.cross(S["w"], rC - S["r"]), B_Omega=AB.T @ S["w"],
                         L=S["L"] + dL, V=S["V"] + S["W"] * dL, W=S["W"])
    return out, jinfo


_SELF_CHECKED = False


def _demo_tree(rng):
    t = gen_tree(rng, "all", force_types=["revolute", "prismatic", "planar", "floating6", "floating7", "continuous", "fixed"])
    for j in t["joints"]:  # make every joint move
        _request(rng, t, j, always=True)
    return t


def self_check():
    """validate the oracle itself (an error here is a harness error)"""
    global _SELF_CHECKED
    if _SELF_CHECKED:
        return
    from scipy.spatial.transform import Rotation as Rot
    rng = np.random.default_rng(20280928)
    for _ in range(20):
        rpy = rng.uniform(-np.pi, np.pi, 3)
        if np.max(np.abs(rpy_mat(rpy) - Rot.from_euler("xyz", rpy).as_matrix())) > 1e-12:
            raise RuntimeError("oracle self-check: rpy_mat disagrees with scipy extrinsic xyz")
        n = rng.normal(size=3); n /= np.linalg.norm(n)
        th = rng.uniform(-7, 7)
        if np.max(np.abs(axis_rot(n, th) - Rot.from_rotvec(n * th).as_matrix())) > 1e-12:
            raise RuntimeError("oracle self-check: axis_rot disagrees with scipy rotvec")
        q = rng.normal(size=4)
        if np.max(np.abs(quat_mat(q) - Rot.from_quat(np.r_[q[1:], q[0]] / np.linalg.norm(q)).as_matrix())) > 1e-12:
            raise RuntimeError("oracle self-check: quat_mat disagrees with scipy")
    # URDF convention spot check: roll about x maps e_y to cos e_y + sin e_z
    if np.max(np.abs(rpy_mat([0.3, 0, 0]) @ [0, 1, 0] - [0, np.cos(0.3), np.sin(0.3)])) > 1e-15:
        raise RuntimeError("oracle self-check: roll convention")
    # FK velocities = d/dt FK poses along the requested joint-space motion
    for k in range(4):
        tree = _demo_tree(rng)
        tree["root"].update(v_R=rng.normal(size=3).tolist(), R_omega_IR=rng.normal(size=3).tolist())

        def at(s, spatial):
            cfg = {}
            for j in tree["joints"]:
                c, v = tree["config"].get(j["name"]), tree["vel"].get(j["name"])
                if j["type"] == "floating":
                    c = np.array(c if c is not None else np.zeros(6), dtype=float)
                    v = np.array(v if v is not None else np.zeros(6), dtype=float)
                    R0 = rpy_mat(c[3:6]) if len(c) == 6 else quat_mat(c[3:7])
                    wn = np.linalg.norm(v[3:])
                    dR = axis_rot(v[3:], wn * s) if wn > 0 else np.eye(3)
                    R = dR @ R0
                    pd = v[:3] + (np.cross(v[3:], c[:3]) if spatial else 0.0)
                    # encode as 7-vector (quaternion from matrix via scipy, only inside the self-check)
                    qq = Rot.from_matrix(R).as_quat()
                    if spatial:
                        # p(s) solves p_dot = v + w x p; first order is enough for a central difference at s=0 (O(s^2) error symmetric)
                        p = c[:3] + s * pd + 0.5 * s * s * np.cross(v[3:], pd)
                    else:
                        p = c[:3] + s * pd
                    cfg[j["name"]] = np.r_[p, qq[3], qq[:3]].tolist()
                elif j["type"] == "planar":
                    c = np.array(c if c is not None else np.zeros(2), dtype=float)
                    v = np.array(v if v is not None else np.zeros(2), dtype=float)
                    cfg[j["name"]] = (c + s * v).tolist()
                elif j["type"] == "fixed":
                    pass
                else:
                    cfg[j["name"]] = (0.0 if c is None else float(c)) + s * (0.0 if v is None else float(v))
            R = tree["root"]
            A0 = np.array(R["A_IR"])
            wr = np.array(R["R_omega_IR"])
            wn = np.linalg.norm(wr)
            root = dict(R, r_OR=(np.array(R["r_OR"]) + s * np.array(R["v_R"])).tolist(),
                        A_IR=(A0 @ (axis_rot(wr, wn * s) if wn > 0 else np.eye(3))).tolist())
            return fk(tree, cfg=cfg, root=root)[0]

        for spatial in (False, True):
            ref, _ = fk(tree, spatial=spatial)
            h = 1e-5
            a, b = at(h, spatial), at(-h, spatial)
            for name in ref:
                vfd = (a[name]["r_OC"] - b[name]["r_OC"]) / (2 * h)
                Wfd = (a[name]["A_IB"] - b[name]["A_IB"]) / (2 * h) @ ref[name]["A_IB"].T
                wfd = np.array([Wfd[2, 1] - Wfd[1, 2], Wfd[0, 2] - Wfd[2, 0], Wfd[1, 0] - Wfd[0, 1]]) / 2
                sc = 1 + ref[name]["V"] * (1 + ref[name]["W"])
                if np.max(np.abs(vfd - ref[name]["v_C"])) > 1e-5 * sc * (1 + ref[name]["W"]) ** 2 * (1 + ref[name]["L"]):
                    raise RuntimeError(f"oracle self-check: FK linear velocity of {name} != d/dt FK position "
                                       f"({vfd} vs {ref[name]['v_C']}, spatial={spatial})")
                if np.max(np.abs(wfd - ref[name]["w"])) > 1e-5 * (1 + ref[name]["W"]) ** 3:
                    raise RuntimeError(f"oracle self-check: FK angular velocity of {name} != d/dt FK orientation")
                A = ref[name]["A_IB"]
                if np.max(np.abs(A @ A.T - np.eye(3))) > 1e-12 or abs(np.linalg.det(A) - 1) > 1e-12:
                    raise RuntimeError("oracle self-check: FK orientation not a rotation")
    _SELF_CHECKED = True


# --------------------------------------------------------------------------
# generators
# --------------------------------------------------------------------------
def _lu(rng, lo, hi):
    return float(np.exp(rng.uniform(np.log(lo), np.log(hi))))


def _xyz(rng):
    r = rng.random()
    if r < 0.08:
        return [0.0, 0.0, 0.0]
    mag = _lu(rng, 1e-2, 1e1) if r < 0.94 else _lu(rng, 1e1, 1e2)
    x = rng.normal(size=3) * mag
    if rng.random() < 0.2:
        x[int(rng.integers(3))] = 0.0
    return [float(a) for a in x]


def _rpy(rng):
    a = rng.uniform(-np.pi, np.pi, 3)
    for i in range(3):
        if rng.random() < 0.15:
            a[i] = [0.0, np.pi / 2, -np.pi / 2, np.pi, 1e-9][int(rng.integers(5))]
    return [float(x) for x in a]


def _origin(rng):
    r = rng.random()
    if r < 0.1:
        return None
    if r < 0.25:
        return {"xyz": _xyz(rng), "rpy": None}
    if r < 0.35:
        return {"xyz": None, "rpy": _rpy(rng)}
    return {"xyz": _xyz(rng), "rpy": _rpy(rng)}


def _gen_axis(rng):
    r = rng.random()
    if r < 0.35:
        a = rng.normal(size=3); a /= np.linalg.norm(a)
        cls = "unit-random"
    elif r < 0.5:
        a = np.array([1.0, 0, 0]) * (1 if rng.random() < 0.5 else -1) * (1.0 if rng.random() < 0.6 else _lu(rng, 0.1, 10))
        cls = "x-aligned"
    elif r < 0.65:
        a = np.zeros(3); a[int(rng.integers(1, 3))] = 1 if rng.random() < 0.5 else -1
        cls = "y/z-aligned"
    elif r < 0.77:
        a = rng.normal(size=3) * _lu(rng, 0.1, 10)
        cls = "non-unit"
    elif r < 0.88:
        a = rng.integers(-2, 3, size=3).astype(float)
        if not np.any(a):
            a[int(rng.integers(3))] = 1.0
        cls = "integer"
    else:
        e = [1e-16, 1e-9, 1e-5, 1e-3][int(rng.integers(4))]
        a = np.array([1.0 if rng.random() < 0.5 else -1.0, 0, 0])
        a[int(rng.integers(1, 3))] = e
        cls = "near-x"
    return [float(x) for x in a], cls


def _scalar(rng):
    r = rng.random()
    if r < 0.06:
        return 0.0
    if r < 0.8:
        return float(rng.uniform(-np.pi, np.pi))
    if r < 0.9:
        return float([np.pi, -np.pi, np.pi / 2, -np.pi / 2, 2 * np.pi][int(rng.integers(5))])
    return float(rng.uniform(-30, 30))


def _request(rng, tree, j, always=False):
    """requested configuration / velocity of joint j (may stay absent = default zero)"""
    t, name = j["type"], j["name"]
    tree["config"].pop(name, None); tree["vel"].pop(name, None)
    pc, pv = (1.0, 1.0) if always else (0.85, 0.8)
    if t in ("revolute", "continuous"):
        if rng.random() < pc:
            tree["config"][name] = _scalar(rng)
        if rng.random() < pv:
            tree["vel"][name] = float(rng.normal() * _lu(rng, 0.1, 10))
    elif t == "prismatic":
        if rng.random() < pc:
            tree["config"][name] = float(rng.normal() * _lu(rng, 1e-2, 10))
        if rng.random() < pv:
            tree["vel"][name] = float(rng.normal() * _lu(rng, 0.1, 10))
    elif t == "planar":
        if rng.random() < pc:
            tree["config"][name] = [float(x) for x in rng.normal(size=2) * _lu(rng, 1e-2, 10)]
        if rng.random() < pv:
            tree["vel"][name] = [float(x) for x in rng.normal(size=2) * _lu(rng, 0.1, 10)]
    elif t == "floating":
        if j["nconf"] == 7 or rng.random() < pc:
            xyz = _xyz(rng)
            if j["nconf"] == 6:
                tree["config"][name] = xyz + _rpy(rng)
            else:
                q = rng.normal(size=4)
                q /= np.linalg.norm(q)
                if rng.random() < 0.2:
                    q = np.array([1.0, 0, 0, 0])
                tree["config"][name] = xyz + [float(x) for x in q]
        if rng.random() < pv:
            u = np.r_[rng.normal(size=3) * _lu(rng, 0.1, 10), rng.normal(size=3) * _lu(rng, 0.1, 10)]
            m = rng.random()
            if m < 0.15:
                u[:3] = 0
            elif m < 0.3:
                u[3:] = 0
            tree["vel"][name] = [float(x) for x in u]


def _inertial(rng):
    Q = quat_mat(rng.normal(size=4))
    ev = np.array([_lu(rng, 1e-3, 1e1) for _ in range(3)])
    ev[2] = min(ev[2], 0.9 * (ev[0] + ev[1]))  # triangle inequality of principal moments
    ev[2] = max(ev[2], 1.1 * abs(ev[0] - ev[1]) + 1e-6)
    Th = (Q * ev) @ Q.T if rng.random() < 0.7 else np.diag(ev)
    Th = 0.5 * (Th + Th.T)
    return {"mass": _lu(rng, 1e-2, 1e2), "inertia": [float(Th[0, 0]), float(Th[0, 1]), float(Th[0, 2]), float(Th[1, 1]), float(Th[1, 2]), float(Th[2, 2])],
            "origin": _origin(rng)}


def _visual(rng, allow_mesh=True):
    r = rng.random()
    if r < 0.45:
        return None
    o = _origin(rng)
    if r < 0.62:
        return {"geom": "sphere", "radius": _lu(rng, 1e-2, 1), "origin": o}
    if r < 0.8:
        return {"geom": "box", "size": [_lu(rng, 1e-2, 1) for _ in range(3)], "origin": o}
    if r < 0.9 or not allow_mesh:
        return {"geom": "cylinder", "radius": _lu(rng, 1e-2, 1), "length": _lu(rng, 1e-2, 1), "origin": o}
    V = (np.array([[0, 0, 0], [1, 0, 0], [0, 1, 0], [0, 0, 1.0]]) * _lu(rng, 0.05, 1) + rng.normal(size=3) * 0.1)
    return {"geom": "mesh", "vertices": [[float(x) for x in v] for v in V], "origin": o}


TYPE_WEIGHTS = {
    "working": {"fixed": .2, "revolute": .4, "continuous": .25, "floating6": .15},
    "prismatic": {"fixed": .15, "revolute": .3, "continuous": .15, "floating6": .1, "prismatic": .3},
    "planar": {"fixed": .15, "revolute": .3, "continuous": .15, "floating6": .1, "planar": .3},
    "floating7": {"fixed": .15, "revolute": .3, "continuous": .15, "floating6": .1, "floating7": .3},
    "axis-omitted": {"fixed": .2, "revolute": .45, "continuous": .25, "floating6": .1},
    "all": {"fixed": .15, "revolute": .2, "continuous": .15, "floating6": .1, "floating7": .1, "prismatic": .2, "planar": .1},
}


def _mk_joint(rng, idx, jt, parent, child):
    j = {"name": f"j{idx}", "parent": parent, "child": child, "origin": _origin(rng), "axis": None, "axis_class": None,
         "limit": bool(rng.random() < 0.5), "nconf": 0}
    # the joint range a robot description carries (the importer places links where they are REQUESTED; ranges are for
    # controllers): wide, a realistic narrow range, one-sided, or the 0/0 placeholder
    j["limit_range"] = [(-100.0, 100.0), (-float(rng.uniform(0.2, 2.0)), float(rng.uniform(0.2, 2.0))),
                        (0.0, float(rng.uniform(0.1, 1.5))), (0.0, 0.0)][int(rng.integers(4))]
    if jt in ("floating6", "floating7"):
        j["type"] = "floating"
        j["nconf"] = 6 if jt == "floating6" else 7
    else:
        j["type"] = jt
    if j["type"] in ("revolute", "continuous", "prismatic"):
        j["axis"], j["axis_class"] = _gen_axis(rng)
    elif j["type"] == "planar":
        j["axis"], j["axis_class"] = [0.0, 0.0, 1.0], "planar-z"
    elif rng.random() < 0.3:  # an (ignored) axis element on fixed / floating joints
        j["axis"], j["axis_class"] = [0.0, 0.0, 1.0], "ignored"
    return j


def gen_tree(rng, kind, force_types=None, shape=None, maxlinks=12):
    w = TYPE_WEIGHTS.get(kind, TYPE_WEIGHTS["all"])
    names, probs = list(w), np.array(list(w.values())) / sum(w.values())
    depth = int(rng.integers(1, 5)) if shape is None else shape[0]
    branching = int(rng.integers(1, 5)) if shape is None else shape[1]
    links = [{"name": "base"}]
    joints = []
    level = [0]
    for d in range(1, depth + 1):
        nxt = []
        forced = int(rng.integers(len(level)))
        for k, p in enumerate(level):
            nch = int(rng.integers(0, branching + 1))
            if k == forced:
                nch = max(nch, 1)
            for _ in range(nch):
                if len(links) >= maxlinks and not (k == forced and not nxt):
                    break
                c = len(links)
                links.append({"name": f"l{c}"})
                jt = names[int(rng.choice(len(names), p=probs))]
                joints.append(_mk_joint(rng, len(joints), jt, links[p]["name"], links[c]["name"]))
                nxt.append(c)
        level = nxt
    if force_types:
        for jt, j in zip(force_types, rng.permutation(len(joints)).tolist()):
            joints[j] = _mk_joint(rng, j, jt, joints[j]["parent"], joints[j]["child"])
    elif kind in ("prismatic", "planar", "floating7") and not any(
            (j["type"] == kind) or (kind == "floating7" and j["nconf"] == 7) for j in joints):
        k = int(rng.integers(len(joints)))
        joints[k] = _mk_joint(rng, k, kind, joints[k]["parent"], joints[k]["child"])
    if kind == "axis-omitted":
        cand = [j for j in joints if j["type"] in ("revolute", "continuous", "prismatic")]
        if not cand:
            k = int(rng.integers(len(joints)))
            joints[k] = _mk_joint(rng, k, "revolute", joints[k]["parent"], joints[k]["child"])
            cand = [joints[k]]
        for j in cand:
            if j is cand[0] or rng.random() < 0.3:
                j["axis"], j["axis_class"] = None, "omitted"
    has_child = {j["parent"] for j in joints}
    jt_of_child = {j["child"]: j["type"] for j in joints}
    for i, l in enumerate(links):
        l["inertial"] = _inertial(rng)
        l["visual"] = _visual(rng)
        if i > 0 and l["name"] not in has_child and jt_of_child[l["name"]] == "fixed" and rng.random() < 0.35:
            l["inertial"] = None if rng.random() < 0.5 else dict(l["inertial"], mass=0.0)
            l["visual"] = None
    floating_root = bool(rng.random() < 0.45)
    if not floating_root and rng.random() < 0.3:
        links[0]["inertial"] = None
    root = {"floating": floating_root, "defaults": False,
            "r_OR": _xyz(rng), "A_IR": quat_mat(rng.normal(size=4)).tolist() if rng.random() < 0.85 else np.eye(3).tolist(),
            "v_R": [0.0] * 3, "R_omega_IR": [0.0] * 3,
            "gravity": [0.0, 0.0, -9.81] if rng.random() < 0.5 else None}
    if floating_root and rng.random() < 0.8:
        root["v_R"] = [float(x) for x in rng.normal(size=3) * _lu(rng, 0.1, 10)]
        root["R_omega_IR"] = [float(x) for x in rng.normal(size=3) * _lu(rng, 0.1, 10)]
    if rng.random() < 0.08:  # keyword defaults of system_from_urdf
        root.update(defaults=True, r_OR=[0.0] * 3, A_IR=np.eye(3).tolist(), v_R=[0.0] * 3, R_omega_IR=[0.0] * 3, gravity=None)
    tree = {"links": links, "joints": joints, "root": root, "config": {}, "vel": {}}
    for j in joints:
        _request(rng, tree, j)
    return tree


def directed_tree(rng, name):
    """small deterministic-shape trees that isolate one joint type / feature"""
    single = {"fixed": "fixed", "revolute": "revolute", "continuous": "continuous", "prismatic": "prismatic",
              "planar": "planar", "floating6": "floating6", "floating7": "floating7"}
    if name in single:
        t = gen_tree(rng, "working", shape=(1, 1))
        t["links"], t["joints"] = t["links"][:2], t["joints"][:1]
        t["joints"][0] = _mk_joint(rng, 0, single[name], "base", t["links"][1]["name"])
        t["links"][1]["inertial"] = _inertial(rng)
        t["config"], t["vel"] = {}, {}
        _request(rng, t, t["joints"][0], always=True)
        return t
    if name == "axis-omitted":
        t = directed_tree(rng, "revolute")
        t["joints"][0]["axis"], t["joints"][0]["axis_class"] = None, "omitted"
        return t
    if name == "x-axis":
        t = gen_tree(rng, "working", shape=(3, 1), force_types=["revolute", "continuous", "revolute"])
        for j, a in zip(t["joints"], ([1.0, 0, 0], [-1.0, 0, 0], [3.0, 0, 0])):
            j["axis"], j["axis_class"] = a, "x-aligned"
            _request(rng, t, j, always=True)
        return t
    if name == "floating-root":
        t = gen_tree(rng, "working", shape=(2, 2))
        t["root"].update(floating=True, defaults=False, v_R=[0.3, -0.2, 0.5], R_omega_IR=[1.0, -2.0, 0.7])
        if t["links"][0]["inertial"] is None:
            t["links"][0]["inertial"] = _inertial(rng)
        return t
    if name == "massless-leaf":
        t = gen_tree(rng, "working", shape=(2, 1), force_types=["revolute", "fixed"])
        # force_types permutes: make the leaf joint the fixed one
        t["joints"][0] = _mk_joint(rng, 0, "revolute", "base", t["links"][1]["name"])
        t["joints"][1] = _mk_joint(rng, 1, "fixed", t["links"][1]["name"], t["links"][2]["name"])
        t["links"][2]["inertial"], t["links"][2]["visual"] = None, None
        t["config"], t["vel"] = {}, {}
        _request(rng, t, t["joints"][0], always=True)
        return t
    if name == "chain":
        t = gen_tree(rng, "working", shape=(4, 1), force_types=["revolute", "continuous", "revolute", "floating6"])
        for j in t["joints"]:
            _request(rng, t, j, always=True)
        return t
    if name == "visuals":
        t = gen_tree(rng, "working", shape=(2, 2))
        geoms = ["sphere", "box", "mesh", "cylinder"]
        for i, l in enumerate(t["links"]):
            if l["inertial"] is not None and l["inertial"]["mass"] > 0:
                while True:
                    v = _visual(rng)
                    if v is not None and v["geom"] == geoms[i % 4]:
                        break
                l["visual"] = v
        return t
    if name == "defaults":
        t = gen_tree(rng, "working", shape=(2, 2))
        t["root"].update(defaults=True, floating=False, r_OR=[0.0] * 3, A_IR=np.eye(3).tolist(), v_R=[0.0] * 3,
                         R_omega_IR=[0.0] * 3, gravity=None)
        for j in t["joints"]:
            j["origin"] = None
        t["config"], t["vel"] = {}, {}
        return t
    raise ValueError(name)


# --------------------------------------------------------------------------
# URDF text
# --------------------------------------------------------------------------
def _f(x):
    return repr(float(x))


def _v(xs):
    return " ".join(_f(x) for x in xs)


def _origin_xml(o, ind):
    if o is None:
        return ""
    a = ""
    if o.get("xyz") is not None:
        a += f' xyz="{_v(o["xyz"])}"'
    if o.get("rpy") is not None:
        a += f' rpy="{_v(o["rpy"])}"'
    return f"{ind}<origin{a}/>\n"


def urdf_text(tree, files):
    """URDF XML; mesh files to write are returned through the dict `files`"""
    s = '<?xml version="1.0"?>\n<robot name="verif_robot">\n'
    for l in tree["links"]:
        s += f'  <link name="{l["name"]}">\n'
        I = l.get("inertial")
        if I is not None:
            s += "    <inertial>\n" + _origin_xml(I["origin"], "      ")
            s += f'      <mass value="{_f(I["mass"])}"/>\n'
            ixx, ixy, ixz, iyy, iyz, izz = I["inertia"]
            s += (f'      <inertia ixx="{_f(ixx)}" ixy="{_f(ixy)}" ixz="{_f(ixz)}" iyy="{_f(iyy)}" iyz="{_f(iyz)}" '
                  f'izz="{_f(izz)}"/>\n    </inertial>\n')
        V = l.get("visual")
        if V is not None:
            if V["geom"] == "sphere":
                g = f'<sphere radius="{_f(V["radius"])}"/>'
            elif V["geom"] == "box":
                g = f'<box size="{_v(V["size"])}"/>'
            elif V["geom"] == "cylinder":
                g = f'<cylinder radius="{_f(V["radius"])}" length="{_f(V["length"])}"/>'
            else:
                fn = f'mesh_{l["name"]}.obj'
                files[fn] = ("".join(f"v {_v(p)}\n" for p in V["vertices"]) + "f 1 3 2\nf 1 2 4\nf 2 3 4\nf 1 4 3\n")
                g = f'<mesh filename="{fn}"/>'
            for tag in ("visual", "collision"):
                s += f"    <{tag}>\n" + _origin_xml(V["origin"], "      ") + f"      <geometry>{g}</geometry>\n    </{tag}>\n"
        s += "  </link>\n"
    for j in tree["joints"]:
        s += f'  <joint name="{j["name"]}" type="{j["type"]}">\n' + _origin_xml(j["origin"], "    ")
        s += f'    <parent link="{j["parent"]}"/>\n    <child link="{j["child"]}"/>\n'
        if j["axis"] is not None:
            s += f'    <axis xyz="{_v(j["axis"])}"/>\n'
        if j["limit"] and j["type"] in ("revolute", "prismatic"):
            lo_, up_ = j.get("limit_range", (-100.0, 100.0))
            s += f'    <limit lower="{lo_!r}" upper="{up_!r}" effort="10.0" velocity="5.0"/>\n    <dynamics damping="0.0" friction="0.0"/>\n'
        s += "  </joint>\n"
    return s + "</robot>\n"


# --------------------------------------------------------------------------
# defect models
# --------------------------------------------------------------------------
def _bfs_joints(tree):
    """joints in the order a breadth-first traversal from the root meets them
    (children of one parent in file order)"""
    children = {}
    for j in tree["joints"]:
        children.setdefault(j["parent"], []).append(j)
    out, queue = [], [tree["links"][0]["name"]]
    while queue:
        p = queue.pop(0)
        for j in children.get(p, []):
            out.append(j)
            queue.append(j["child"])
    return out


def _joint_defect(tree, j):
    """mechanism key of the known defect that joint j runs into, or None"""
    if j["type"] in ("revolute", "continuous", "prismatic") and j["axis"] is None:
        return K_AXIS
    if j["type"] == "prismatic":
        return K_PRISM
    if j["type"] == "planar":
        return K_PLANAR
    if j["type"] == "floating" and j["name"] in tree["config"] and len(tree["config"][j["name"]]) == 7:
        return K_FLOAT7
    return None


def expected_defect(tree):
    """the import handles one joint completely before the next one in breadth
    first order, so the first joint (in that order) that runs into a known
    defect determines the exception."""
    for j in _bfs_joints(tree):
        k = _joint_defect(tree, j)
        if k:
            return k, j["name"]
    return None, None


def classify(exc, tree):
    """defect-model predicate: key only if exception type, message, raising
    function AND the first defective joint of the tree agree."""
    want, jname = expected_defect(tree)
    frames = [f.name for f in traceback.extract_tb(exc.__traceback__)]
    files = [os.path.basename(f.filename) for f in traceback.extract_tb(exc.__traceback__)]
    msg = str(exc)
    got = None
    if (isinstance(exc, TypeError) and "Prismatic.__init__() got an unexpected keyword argument 'name'" in msg
            and frames[-1] == "system_from_urdf"):
        got = K_PRISM
    elif (isinstance(exc, UnboundLocalError) and "'JointType'" in msg and frames[-1] == "joint_kinematics"):
        got = K_PLANAR
    elif (isinstance(exc, AttributeError) and "'RigidBody'" in msg and "'q2pose'" in msg and frames[-1] == "joint_kinematics"):
        got = K_FLOAT7
    elif (isinstance(exc, (ValueError, TypeError, IndexError)) and len(frames) >= 2 and frames[-2] == "joint_kinematics"
          and frames[-1] == "norm" and files[-2] == "system_from_urdf.py"):
        got = K_AXIS
    return (got if (got is not None and got == want) else None), want, jname, frames[-3:]


# --------------------------------------------------------------------------
# the case
# --------------------------------------------------------------------------
def _call_import(tree, text, files):
    from cardillo.urdf import system_from_urdf

    R = tree["root"]
    kwargs = dict(configuration={k: (np.array(v) if isinstance(v, list) else v) for k, v in tree["config"].items()},
                  velocities={k: (np.array(v) if isinstance(v, list) else v) for k, v in tree["vel"].items()},
                  root_is_floating=R["floating"])
    if not R["defaults"]:
        kwargs.update(r_OR=np.array(R["r_OR"]), A_IR=np.array(R["A_IR"]), v_R=np.array(R["v_R"]),
                      R_omega_IR=np.array(R["R_omega_IR"]),
                      gravitational_acceleration=None if R["gravity"] is None else np.array(R["gravity"]))
    d = tempfile.mkdtemp(prefix="verif-c28-")
    try:
        path = os.path.join(d, "robot.urdf")
        with open(path, "w") as f:
            f.write(text)
        for fn, content in files.items():
            with open(os.path.join(d, fn), "w") as f:
                f.write(content)
        out, err = io.StringIO(), io.StringIO()
        with contextlib.redirect_stdout(out), contextlib.redirect_stderr(err):
            return system_from_urdf(path, **kwargs)
    finally:
        shutil.rmtree(d, ignore_errors=True)


def _maxabs(a):
    a = np.asarray(a, dtype=float)
    return float(np.max(np.abs(a))) if a.size else 0.0


def run_case(spec, ctx):
    env.import_cardillo()
    self_check()
    with contextlib.redirect_stdout(io.StringIO()):
        from cardillo.discrete import RigidBody, Frame
        from cardillo.constraints import Revolute, RigidConnection

    rng = ctx.rng
    if spec["kind"] == "directed":
        tree = directed_tree(rng, spec["name"])
        kind = "directed:" + spec["name"]
    else:
        tree = gen_tree(rng, spec["kind"])
        kind = spec["kind"]
    files = {}
    text = urdf_text(tree, files)
    jtypes = sorted({(j["type"] + (str(j["nconf"]) if j["type"] == "floating" else "")) for j in tree["joints"]})
    summary = {"kind": kind, "links": len(tree["links"]), "joint_types": jtypes,
               "root": "floating" if tree["root"]["floating"] else "fixed", "config": tree["config"], "vel": tree["vel"]}
    ctx.sample(summary)
    ctx.cls(f"kind:{kind}")
    ctx.cls(f"root:{summary['root']}" + (":defaults" if tree["root"]["defaults"] else ""))
    ctx.cls(f"links:{len(tree['links'])}")
    depth = {tree["links"][0]["name"]: 0}
    for j in _bfs_joints(tree):
        depth[j["child"]] = depth[j["parent"]] + 1
        ctx.cls("gen:" + j["type"] + (str(j["nconf"]) if j["type"] == "floating" else ""))
        if j["axis_class"]:
            ctx.cls("axis:" + j["axis_class"])
    ctx.cls(f"depth:{max(depth.values())}")
    nonzero_request = any(_maxabs(v) > 0 for v in list(tree["config"].values()) + list(tree["vel"].values()))
    sig = [text, tree["config"], tree["vel"], tree["root"]]
    witness = {"kind": kind, "urdf": text if len(text) < 6000 else text[:6000] + "...", "configuration": tree["config"],
               "velocities": tree["vel"], "root": tree["root"]}

    # ---------------- run the real import ----------------
    ctx.mon("import.called")
    try:
        system = _call_import(tree, text, files)
    except Exception as exc:  # the property forbids any exception on these trees
        key, want, jname, where = classify(exc, tree)
        if (isinstance(exc, AssertionError) and "g_ddot0" in str(exc) and where[-1] == "consistent_initial_conditions"):
            # System.assemble solved for u_dot0 and found |g_ddot| above its ABSOLUTE tolerance: conditioning of the
            # acceleration-level linear solve (tiny masses, long levers, fast rotation), not something the importer
            # (which provides q0, u0 only) decides. Position and velocity level assertions stay violations.
            ctx.cls("import:raised:assemble-g_ddot0-abs-tolerance")
            ctx.undecided("System.assemble rejected the acceleration-level consistency (absolute tolerance) of an ill-conditioned tree")
            ctx.sig(sig, nontrivial=False)
            return
        ctx.cls("import:raised:" + (key or "unclassified"))
        what = {K_PRISM: "import of a tree with a prismatic joint raises TypeError (Prismatic rejects the 'name' keyword)",
                K_PLANAR: "import of a tree with a planar joint raises UnboundLocalError (JointType never assigned)",
                K_FLOAT7: "import with a 7-vector (quaternion) floating configuration raises AttributeError (RigidBody.q2pose missing)",
                K_AXIS: "import of a joint without <axis> (URDF default 1 0 0) raises"}.get(
            key, "system_from_urdf raised on a supported tree")
        ctx.violation("system_from_urdf", what if key else f"system_from_urdf raised {type(exc).__name__} on a supported tree",
                      {**witness, "exception": f"{type(exc).__name__}: {exc}"[:400], "raised_in": where,
                       "first_defective_joint_by_model": jname, "model_key": want}, key=key)
        ctx.sig(sig, nontrivial=False)
        return
    ctx.mon("import.returned")
    ctx.cls("import:ok")

    t0 = system.t0
    q0, u0 = np.asarray(system.q0, dtype=float), np.asarray(system.u0, dtype=float)
    cmap = system.contributions_map
    if not (np.all(np.isfinite(q0)) and np.all(np.isfinite(u0))):
        ctx.violation("system_from_urdf", "initial state of the returned system is not finite", {**witness, "q0": q0, "u0": u0})
        ctx.sig(sig, nontrivial=False)
        return

    # FK under both readings of a floating joint's linear velocity
    ref_a, jinfo = fk(tree, spatial=False)
    ref_b, _ = fk(tree, spatial=True)
    ambiguous = any(_maxabs(ref_a[n]["v_C"] - ref_b[n]["v_C"]) > 1e-12 * (1 + ref_a[n]["V"]) for n in ref_a)

    links = {l["name"]: l for l in tree["links"]}
    massive = {n: (l.get("inertial") is not None and l["inertial"]["mass"] > 0) for n, l in links.items()}
    rootname = tree["links"][0]["name"]

    # ---------------- links: presence, pose, velocity ----------------
    vel_ok = {"rdot": True, "spatial": True}
    vel_det = {}
    nbodies = 0
    compared = 0
    for name, l in links.items():
        is_root = name == rootname
        if not massive[name] and not is_root:
            ctx.cls("link:massless-fixed-leaf")
            continue  # may legitimately be dropped
        ctx.mon("link.present")
        if name not in cmap:
            ctx.violation("system_from_urdf", "a link of the URDF is missing in the returned system", {**witness, "link": name})
            continue
        body = cmap[name]
        want_cls = Frame if (is_root and not tree["root"]["floating"]) else RigidBody
        if not isinstance(body, want_cls):
            ctx.violation("system_from_urdf", "link has the wrong contribution type",
                          {**witness, "link": name, "type": type(body).__name__, "expected": want_cls.__name__})
            continue
        R = ref_a[name]
        if isinstance(body, RigidBody):
            nbodies += 1
            q, u = q0[body.qDOF], u0[body.uDOF]
            r, A = np.asarray(body.r_OP(t0, q)), np.asarray(body.A_IB(t0, q))
            v, Om = np.asarray(body.v_P(t0, q, u)), np.asarray(body.B_Omega(t0, q, u))
            ctx.mon("quaternion.unit")
            if abs(np.linalg.norm(q[3:]) - 1) > 1e-9:
                ctx.violation("system_from_urdf", "initial quaternion of a link is not of unit length (g_S != 0)",
                              {**witness, "link": name, "q": q})
        else:
            r, A = np.asarray(body.r_OP(t0)), np.asarray(body.A_IB(t0))
            v, Om = np.asarray(body.v_P(t0)), np.asarray(body.B_Omega(t0))
        ctx.mon("link.pose")
        compared += 1
        ctx.cls("link:root" if is_root else f"link:depth{depth[name]}")
        er, eA = _maxabs(r - R["r_OC"]), _maxabs(A - R["A_IB"])
        if er > 1e-9 * (1 + R["L"]) or eA > 1e-9:
            ctx.violation("system_from_urdf", "link pose (centre-of-mass frame) differs from forward kinematics",
                          {**witness, "link": name, "r_OC": r, "fk_r_OC": R["r_OC"], "A_IB": A, "fk_A_IB": R["A_IB"],
                           "err_r": er, "err_A": eA})
            continue  # velocities of a misplaced link say nothing new
        ctx.mon("link.velocity")
        tolv = 1e-9 * (1 + R["V"])
        for tag, ref in (("rdot", ref_a), ("spatial", ref_b)):
            ev, eo = _maxabs(v - ref[name]["v_C"]), _maxabs(Om - ref[name]["B_Omega"])
            if ev > tolv or eo > 1e-9 * (1 + R["W"]):
                if vel_ok[tag]:
                    vel_det[tag] = {"link": name, "v_C": v, "fk_v_C": ref[name]["v_C"], "B_Omega": Om,
                                    "fk_B_Omega": ref[name]["B_Omega"], "err_v": ev, "err_Omega": eo}
                vel_ok[tag] = False
    if not (vel_ok["rdot"] or vel_ok["spatial"]):
        d = vel_det["spatial" if not ambiguous else "rdot"]
        ctx.violation("system_from_urdf", "link velocity differs from forward-kinematics velocity",
                      {**witness, **d, "floating_convention_ambiguous": ambiguous,
                       "other_convention": vel_det.get("spatial")})
    elif ambiguous:
        ctx.cls("floating.linear-velocity-reading:" + ("time-derivative" if vel_ok["rdot"] else "spatial"))
    Vmax = max(R["V"] for R in ref_a.values())
    Lmax = max(R["L"] for R in ref_a.values())

    # ---------------- joints: presence, count of constraints ----------------
    exp_nla = 0
    per_type = {"fixed": 6, "revolute": 5, "continuous": 5, "prismatic": 5, "planar": 3, "floating": 0}
    for j in tree["joints"]:
        if not massive[j["child"]]:
            continue  # dropped massless leaf
        exp_nla += per_type[j["type"]]
        if j["type"] == "floating":
            continue
        ctx.mon("joint.present")
        jc = cmap.get(j["name"])
        if jc is None:
            ctx.violation("system_from_urdf", "a joint of the URDF is missing in the returned system", {**witness, "joint": j["name"]})
            continue
        if j["type"] in ("revolute", "continuous"):
            if not isinstance(jc, Revolute):
                ctx.violation("system_from_urdf", "revolute joint is not represented by a Revolute constraint",
                              {**witness, "joint": j["name"], "type": type(jc).__name__})
                continue
            qj, uj = q0[jc.qDOF], u0[jc.uDOF]
            want_a = float(tree["config"].get(j["name"], 0.0))
            want_r = float(tree["vel"].get(j["name"], 0.0))
            got_a = float(jc.angle(t0, qj))
            ctx.mon("joint.angle")
            ctx.cls("angle:" + ("default" if j["name"] not in tree["config"] else ("|a|>pi" if abs(want_a) > np.pi else "|a|<=pi")))
            if abs(got_a - want_a) > 1e-9 * max(1.0, abs(want_a)):
                ctx.violation("Revolute.angle", "reported joint angle differs from the requested configuration",
                              {**witness, "joint": j["name"], "angle": got_a, "requested": want_a})
            got_r = float(jc.angle_dot(t0, qj, uj))
            ctx.mon("joint.angle_dot")
            if abs(got_r - want_r) > 1e-9 * (1 + Vmax + abs(want_r)):
                ctx.violation("Revolute.angle_dot", "reported joint rate differs from the requested velocity",
                              {**witness, "joint": j["name"], "angle_dot": got_r, "requested": want_r})
        elif j["type"] == "fixed" and not isinstance(jc, RigidConnection):
            ctx.violation("system_from_urdf", "fixed joint is not represented by a RigidConnection",
                          {**witness, "joint": j["name"], "type": type(jc).__name__})
        ctx.cls("checked:" + j["type"])
    for j in tree["joints"]:
        if j["type"] == "floating" and massive[j["child"]]:
            ctx.cls("checked:floating" + str(j["nconf"]))
    ctx.mon("dof.count")
    if system.nla_g != exp_nla or system.nq != 7 * nbodies or system.nu != 6 * nbodies:
        ctx.violation("system_from_urdf", "number of coordinates / bilateral constraints does not match the described robot",
                      {**witness, "nq": system.nq, "nu": system.nu, "nla_g": system.nla_g,
                       "expected": [7 * nbodies, 6 * nbodies, exp_nla]})

    # ---------------- constraints at the initial state ----------------
    if system.nla_g > 0:
        g = np.asarray(system.g(t0, q0), dtype=float)
        ctx.mon("constraint.g")
        if g.shape != (system.nla_g,) or not np.all(np.isfinite(g)) or _maxabs(g) > 1e-9 * (1 + Lmax):
            ctx.violation("System.g", "joint constraints are not satisfied by the initial configuration",
                          {**witness, "max_abs_g": _maxabs(g), "g": g})
        gd = np.asarray(system.g_dot(t0, q0, u0), dtype=float)
        ctx.mon("constraint.g_dot")
        if gd.shape != (system.nla_g,) or not np.all(np.isfinite(gd)) or _maxabs(gd) > 1e-9 * (1 + Vmax):
            ctx.violation("System.g_dot", "joint constraints are not satisfied by the initial velocity",
                          {**witness, "max_abs_g_dot": _maxabs(gd), "g_dot": gd})
    else:
        ctx.cls("no-bilateral-constraints")

    # ---------------- visuals (placement of the visual geometry) ----------------
    for name, l in links.items():
        V = l.get("visual")
        if V is None or name not in cmap or V["geom"] == "cylinder":
            continue
        body = cmap[name]
        if not hasattr(body, "B_r_CQi_T"):
            ctx.violation("process_visual", "link with sphere/box/mesh visual has no visual mesh", {**witness, "link": name})
            continue
        pv, Rv = _pose(V["origin"])
        S = ref_a[name]
        r_OV, A_IV = S["r_OR"] + S["A_IR"] @ pv, S["A_IR"] @ Rv
        if isinstance(body, RigidBody):
            q = q0[body.qDOF]
            W = (np.asarray(body.r_OP(t0, q))[:, None] + np.asarray(body.A_IB(t0, q)) @ body.B_r_CQi_T).T
        else:
            W = (np.asarray(body.r_OP(t0))[:, None] + np.asarray(body.A_IB(t0)) @ body.B_r_CQi_T).T
        loc = (W - r_OV) @ A_IV  # vertices in the FK visual frame
        ctx.mon("visual.placement")
        ctx.cls("visual:" + V["geom"])
        tol = 1e-9 * (1 + S["L"] + _maxabs(pv))
        if V["geom"] == "sphere":
            bad = _maxabs(np.linalg.norm(loc, axis=1) - V["radius"]) > tol
        elif V["geom"] == "box":
            h = np.array(V["size"]) / 2
            bad = _maxabs(np.abs(loc) - h) > tol or len({tuple(np.sign(x).astype(int)) for x in loc}) != 8
        else:
            P = np.array(V["vertices"])
            dist = np.linalg.norm(loc[:, None, :] - P[None, :, :], axis=2)
            bad = dist.min(axis=1).max() > tol or dist.min(axis=0).max() > tol
        if bad:
            ctx.violation("process_visual", "visual geometry is not placed at the forward-kinematics pose of the visual frame",
                          {**witness, "link": name, "geom": V["geom"], "vertices_in_fk_visual_frame_head": loc[:8]})

    if tree["root"]["gravity"] is not None:
        ctx.mon("gravity.forces")
        nforce = sum(1 for k in cmap if k.startswith("gravity_"))
        if nforce != nbodies:
            ctx.violation("system_from_urdf", "number of gravity forces differs from the number of rigid bodies",
                          {**witness, "forces": nforce, "bodies": nbodies})

    ctx.sig(sig, nontrivial=bool(tree["joints"]) and nonzero_request and compared >= 2)


def finalize(agg):
    reasons = []
    cl, mon = agg["classes"], agg["monitors"]
    for t in ("fixed", "revolute", "continuous", "floating6"):
        if cl.get("checked:" + t, 0) == 0:
            reasons.append(f"no imported tree with a {t} joint was compared with forward kinematics")
    masked = []
    for t, key in (("prismatic", K_PRISM), ("planar", K_PLANAR), ("floating7", K_FLOAT7)):
        if cl.get("gen:" + t, 0) == 0:
            reasons.append(f"no tree with a {t} joint was generated")
        elif cl.get("checked:" + t, 0) == 0:
            if cl.get("import:raised:" + key, 0) == 0:
                reasons.append(f"{t} joints were generated but neither checked nor seen to hit the recorded defect")
            else:
                masked.append(f"{t} (masked by {key})")
    if cl.get("axis:omitted", 0) == 0:
        reasons.append("no joint with omitted <axis> was generated")
    if cl.get("root:floating", 0) == 0 or cl.get("root:fixed", 0) == 0:
        reasons.append("floating and fixed roots were not both exercised")
    if mon.get("import.returned", 0) < 0.5 * mon.get("import.called", 1):
        reasons.append("fewer than half of the imports returned a system")
    agg["extra_out"] = {"masked_strata": masked}
    return reasons


META = {
    "level_text": "Exploration: seeded random URDF trees (XML text in a temporary directory) are imported with the real "
                  "system_from_urdf; the returned assembled system (q0, u0, g, g_dot, joint angle/rate, link poses and "
                  "velocities, constraint count, visual placement) is decided by an independent forward-kinematics model. "
                  "Held on the trees generated, not a proof.",
    "level_note": "Trees of at most about 14 links; planar joints only with axis (0,0,1); either reading of a floating joint's linear "
                  "velocity is accepted; strata whose import raises because of a recorded defect (prismatic, planar, "
                  "floating with quaternion configuration, omitted <axis>) are masked and listed as masked_strata.",
    "technique": "runtime reference-model monitor (independent forward kinematics) on the return value of the real importer",
}
