"""C29 VTK export writes what was simulated.

Small random systems are simulated with the real Moreau / Rattle solvers, the
solution is exported with the real ``System.export`` / ``Export.export_contr``
into a temporary directory, the ``.pvd`` files are read back with
``xml.dom.minidom`` and the ``.vtu`` files with ``vtkXMLUnstructuredGridReader``
and compared with the geometry the harness evaluates from the ORIGINAL
solution (``r_OP``, ``A_IB``, ``v_P`` ... of the contribution at
``sol.q[frame][contr.qDOF]``).
"""

import io
import os
import shutil
import hashlib
import tempfile
import traceback
import contextlib
from pathlib import Path
from xml.dom import minidom

import numpy as np

from vlib import env

ID = "C29"
LEVEL = "exploration"
RULE = ("each case is one seeded random system (kinds: free bodies incl. Box/Sphere/Cylinder/Meshed wrappers, point masses, "
        "moving frames, forces/moments, a FixedDistance pendulum; sphere-plane contacts; a small Cosserat rod cantilever) "
        "simulated with Moreau or Rattle for 5-60 steps and exported (System.export or Export.export_contr, single / list "
        "/ custom file name / repeated export, write_ascii both, overwrite both, str and Path) ; distinct = hash of the "
        "case parameters and of the final state; non-trivial = at least two exported frames whose states differ and every "
        "exported contribution was read back and compared")
ASSUMPTIONS = [
    "frame selection learnt from Export.__prepare_data: target = max(1, floor((t_end - t_0) * fps)), stride = max(1, "
    "floor(N / target)), exported frames = indices 0, stride, 2*stride, ... of solution.t; recomputed independently from "
    "solution.t; if (t_end - t_0) * fps is within 1e-9 of an integer both neighbouring targets are accepted",
    "the .pvd 'timestep' attribute is printed with 6 decimals: it must equal solution.t[frame] within 0.5e-6 (+1e-9 relative)",
    "VTK stores point coordinates as float32 (vtkPoints default): coordinates are compared with relative tolerance 2.4e-7 "
    "of (largest expected entry + max(1, |q|_inf, |u|_inf) of that frame); float64 data arrays with 1e-12 of the same scale; integer arrays exactly",
    "expected geometry is evaluated through the contribution's kinematic methods (r_OP, A_IB, v_P, B_Omega, frame "
    "functions) at the original solution's frame, never through contr.export(); exception: rod levels 'volume' (L2 Bezier "
    "fit) and 'NodalVolume' are compared with contr.export() evaluated by the harness on the original frame (checks frame "
    "selection and file writing, not the fit)",
    "Sphere2Plane: points = contact point on the sphere surface and its normal projection onto the plane; v_Ci = velocity "
    "of the body-fixed point at the contact point (sphere centre offset B_r_CP included) and of the coinciding plane point",
    "whether the file is ASCII or binary is recorded but not decided (not part of the property)",
]
REQUIRED_MONITORS = ["export.returned", "pvd.entries", "pvd.files_exist", "pvd.time_order", "frames.selection",
                     "vtu.points", "vtu.cell_data", "vtu.point_data", "vtu.cells"]
CASE_TIMEOUT = 180
WALL_BUDGET = {"quick": 600, "thorough": 3000}

K_V_CI = "Sphere2Plane.export/v_Ci-ignores-B_r_CP"
K_STRPATH = "Export.__create_vtk_folder/str-path-no-overwrite-TypeError"
K_RAGGED = "Export.__export_list/ragged-data-arrays-unreadable-file"

DIRECTED = ["contact-offset", "strpath-no-overwrite", "bodies-system", "rod-centerline", "frames-stride", "list-export", "list-ragged"]
KINDS = ["bodies", "contact", "bodies", "rod", "contact", "bodies", "pendulum", "rod"]


def cases(tier, seed):
    n = {"quick": 96, "thorough": 2400}[tier]
    out = [{"kind": "directed", "name": d} for d in DIRECTED]
    i = 0
    while len(out) < n:
        out.append({"kind": KINDS[i % len(KINDS)]})
        i += 1
    return out


# --------------------------------------------------------------------------
# small helpers (independent of cardillo)
# --------------------------------------------------------------------------
def _lu(rng, lo, hi):
    return float(np.exp(rng.uniform(np.log(lo), np.log(hi))))


def _quat(rng):
    p = rng.normal(size=4)
    return p / np.linalg.norm(p)


def _rot(rng):
    w, x, y, z = _quat(rng)
    return np.array([
        [1 - 2 * (y * y + z * z), 2 * (x * y - w * z), 2 * (x * z + w * y)],
        [2 * (x * y + w * z), 1 - 2 * (x * x + z * z), 2 * (y * z - w * x)],
        [2 * (x * z - w * y), 2 * (y * z + w * x), 1 - 2 * (x * x + y * y)],
    ])


def _axis_rot(n, th):
    n = np.asarray(n, dtype=float) / np.linalg.norm(n)
    K = np.array([[0, -n[2], n[1]], [n[2], 0, -n[0]], [-n[1], n[0], 0.0]])
    return np.cos(th) * np.eye(3) + np.sin(th) * K + (1 - np.cos(th)) * np.outer(n, n)


def _theta(rng):
    ev = np.array([_lu(rng, 0.05, 2) for _ in range(3)])
    ev[2] = min(max(ev[2], 1.1 * abs(ev[0] - ev[1]) + 1e-3), 0.9 * (ev[0] + ev[1]))
    Q = _rot(rng)
    return 0.5 * ((Q * ev) @ Q.T + ((Q * ev) @ Q.T).T)


class _Quiet:
    def __enter__(self):
        self.o, self.e = io.StringIO(), io.StringIO()
        self.cm = contextlib.ExitStack()
        self.cm.enter_context(contextlib.redirect_stdout(self.o))
        self.cm.enter_context(contextlib.redirect_stderr(self.e))
        return self

    def __exit__(self, *a):
        self.cm.close()
        return False


# --------------------------------------------------------------------------
# expected geometry (oracles): item = dict(contr, expect(t, q, u, frame_index, sol) -> dict, tag)
# expected dict: points (n,3), cells [(type, [ids])] or None, point_data {name: 2d}, cell_data {name: 2d}
# --------------------------------------------------------------------------
VTK_VERTEX, VTK_LINE, VTK_TRIANGLE = 1, 3, 5


def _cols(A):
    return dict(ex=[A[:, 0]], ey=[A[:, 1]], ez=[A[:, 2]])


def exp_rigid_base(body):
    def f(t, q, u, k, sol):
        qb, ub = q[body.qDOF], u[body.uDOF]
        A = np.asarray(body.A_IB(t, qb))
        return dict(points=[body.r_OP(t, qb)], cells=[(VTK_VERTEX, [0])], point_data={},
                    cell_data=dict(v=[body.v_P(t, qb, ub)], Omega=[A @ body.B_Omega(t, qb, ub)], **_cols(A)))
    return f


def exp_meshed(body, verts, faces):
    def f(t, q, u, k, sol):
        if hasattr(body, "qDOF") and getattr(body, "nq", 0) > 0:
            qb = q[body.qDOF]
            r, A = np.asarray(body.r_OP(t, qb)), np.asarray(body.A_IB(t, qb))
        else:
            r, A = np.asarray(body.r_OP(t)), np.asarray(body.A_IB(t))
        return dict(points=r[None, :] + verts @ A.T, cells=[(VTK_TRIANGLE, list(map(int, fc))) for fc in faces],
                    point_data={}, cell_data={})
    return f


def exp_pointmass(pm):
    def f(t, q, u, k, sol):
        return dict(points=[pm.r_OP(t, q[pm.qDOF])], cells=[(VTK_VERTEX, [0])], point_data={},
                    cell_data=dict(v=[pm.v_P(t, q[pm.qDOF], u[pm.uDOF])]))
    return f


def exp_frame(fr, r_fun=None, A_fun=None):
    """r_fun / A_fun: the harness' own definition of the frame motion (None: static, read from the frame)"""
    def f(t, q, u, k, sol):
        r = np.asarray(r_fun(t) if r_fun else fr.r_OP(t))
        A = np.asarray(A_fun(t) if A_fun else fr.A_IB(t))
        return dict(points=[r], cells=[(VTK_VERTEX, [0])], point_data={},
                    cell_data=dict(v=[fr.v_P(t)], Omega=[A @ fr.B_Omega(t)], **_cols(A)))
    return f


def _sub_state(sub, t, q, u):
    if getattr(sub, "nq", 0) > 0:
        return q[sub.qDOF], u[sub.uDOF]
    return None, None


def _sub_r(sub, t, qs, B_r):
    return np.asarray(sub.r_OP(t, qs, B_r_CP=B_r)) if qs is not None else np.asarray(sub.r_OP(t, B_r_CP=B_r))


def _sub_A(sub, t, qs):
    if not hasattr(sub, "A_IB"):
        return np.eye(3)
    return np.asarray(sub.A_IB(t, qs)) if qs is not None else np.asarray(sub.A_IB(t))


def exp_force(sub, B_r, fun, kind):
    """kind: 'F' inertial force, 'BF' body-fixed force, 'M' inertial moment, 'BM' body-fixed moment"""
    def f(t, q, u, k, sol):
        qs, _ = _sub_state(sub, t, q, u)
        A = _sub_A(sub, t, qs)
        val = np.asarray(fun(t), dtype=float)
        if kind in ("BF", "BM"):
            val = A @ val
        r = _sub_r(sub, t, qs, B_r if kind in ("F", "BF") else np.zeros(3))
        return dict(points=[r], cells=[(VTK_VERTEX, [0])], point_data={},
                    cell_data={("F" if kind in ("F", "BF") else "M"): [val]})
    return f


def exp_fixed_distance(s1, B1, s2, B2):
    def f(t, q, u, k, sol):
        q1, _ = _sub_state(s1, t, q, u)
        q2, _ = _sub_state(s2, t, q, u)
        return dict(points=[_sub_r(s1, t, q1, B1), _sub_r(s2, t, q2, B2)], cells=[(VTK_LINE, [0, 1])],
                    point_data={}, cell_data={})
    return f


def exp_contact(con, frame, sub, radius, B_r_CP, mu, aniso):
    """independent sphere-plane geometry from the subsystem's and the plane frame's kinematics"""
    def f(t, q, u, k, sol):
        qs, us = _sub_state(sub, t, q, u)
        A2 = np.asarray(frame.A_IB(t))
        n, t1, t2 = A2[:, 2], A2[:, 0], A2[:, 1]
        rQ = np.asarray(frame.r_OP(t))
        rP = _sub_r(sub, t, qs, B_r_CP)
        A1 = _sub_A(sub, t, qs)
        d = float(n @ (rP - rQ))
        gN = d - radius
        C1 = rP - radius * n            # lowest point of the sphere
        C2 = rP - d * n                 # its normal projection onto the plane
        if hasattr(sub, "B_Omega"):
            Om = A1 @ np.asarray(sub.B_Omega(t, qs, us))
        else:
            Om = np.zeros(3)
        vP = np.asarray(sub.v_P(t, qs, us, B_r_CP=B_r_CP))
        vC1 = vP + np.cross(Om, -radius * n)
        # plane point C2 (frame-fixed)
        vC2 = np.asarray(frame.v_P(t, B_r_CP=A2.T @ (C2 - rQ)))
        Om2 = A2 @ np.asarray(frame.B_Omega(t))
        vQ = np.asarray(frame.v_P(t))
        PN = np.atleast_1d(sol.P_N[k][con.la_NDOF])
        pd = dict(v_Ci=[vC1, vC2], Omega=[Om, Om2], n=[-n, n], t1=[-t1, t1], t2=[-t2, t2], P_N=[PN, PN])
        # g_N_dot for a plane moving rigidly with the frame: n.(vP - vQ) + n_dot.(rP - rQ)
        n_dot = np.cross(Om2, n)
        cd = dict(g_N=[[gN]], g_N_dot=[[float(n @ (vP - vQ) + n_dot @ (rP - rQ))]])
        if mu > 0:
            v_plane_at_C1 = vQ + np.cross(Om2, C1 - rQ)
            rel = vC1 - v_plane_at_C1
            cd["gamma_F"] = [np.array([aniso[0] * (t1 @ rel), aniso[1] * (t2 @ rel)])]
            PF = np.atleast_1d(sol.P_F[k][con.la_FDOF])
            pd["P_F"] = [PF, PF]
        return dict(points=[C1, C2], cells=[(VTK_LINE, [0, 1])], point_data=pd, cell_data=cd,
                    aux=dict(Om=Om, A1=A1, B_r_CP=np.asarray(B_r_CP, dtype=float), radius=radius, n=n))
    return f


def exp_rod_centerline(rod):
    def f(t, q, u, k, sol):
        ncells = rod.nelement
        p = rod.polynomial_degree_r
        num = p * ncells + 1
        qb = q[rod.qDOF]
        pts, d1, d2, d3 = [], [], [], []
        for xi in np.linspace(0, 1, num):
            qp = qb[rod.local_qDOF_P(xi)]
            pts.append(np.asarray(rod.r_OP(t, qp, xi)))
            A = np.asarray(rod.A_IB(t, qp, xi))
            d1.append(A[:, 0]); d2.append(A[:, 1]); d3.append(A[:, 2])
        return dict(points=pts, cells=None, point_data=dict(d1=d1, d2=d2, d3=d3), cell_data={}, ncells=ncells)
    return f


def exp_via_export(contr, kwargs=None):
    """fallback for rod 'volume' / 'NodalVolume': the contribution's own export evaluated by the harness on the
    ORIGINAL solution's frame (decides frame selection and file writing only)"""
    def f(t, q, u, k, sol):
        sol_k = None
        for i, s in enumerate(sol):
            if i == k:
                sol_k = s
                break
        pts, cells, pd, cd = contr.export(sol_k, **(kwargs or {}))
        return dict(points=pts, cells=[(int(c[0]), [int(x) for x in c[1]]) for c in cells], point_data=pd or {},
                    cell_data=cd or {})
    return f


def exp_list(fs):
    """list export: points / data concatenated in list order, connectivity shifted"""
    def f(t, q, u, k, sol):
        out = dict(points=[], cells=[], point_data={}, cell_data={})
        for g in fs:
            e = g(t, q, u, k, sol)
            off = len(out["points"])
            out["points"].extend([np.asarray(p, dtype=float) for p in e["points"]])
            out["cells"].extend([(c[0], [i + off for i in c[1]]) for c in e["cells"]])
            for tgt in ("point_data", "cell_data"):
                for name, val in e[tgt].items():
                    out[tgt].setdefault(name, []).extend([np.atleast_1d(np.asarray(v, dtype=float)) for v in val])
            if "aux" in e:
                out.setdefault("auxs", []).append((off, e["aux"]))
        return out
    return f


# --------------------------------------------------------------------------
# system builders
# --------------------------------------------------------------------------
def _free_body(rng, C, idx, allow_static=False):
    """one random moving body; returns (contr, item-dict, gravity-capable)"""
    import trimesh
    RigidBody, PointMass = C["RigidBody"], C["PointMass"]
    kind = ["rb", "box", "sphere", "cyl", "mesh", "pm", "rb", "box"][int(rng.integers(8))]
    q0 = np.r_[rng.normal(size=3) * _lu(rng, 0.1, 3), _quat(rng)]
    u0 = np.r_[rng.normal(size=3) * _lu(rng, 0.1, 3), rng.normal(size=3) * _lu(rng, 0.1, 5)]
    name = f"{kind}{idx}"
    r_ = rng.random()
    if r_ < 0.2:
        name = f"{kind}{idx}_m{round(float(rng.uniform(0.5, 9.5)), 1)}"      # parameter value in the name: contains a dot
    elif r_ < 0.3:
        name = f"{kind}-{idx} v2"                                             # dash and blank
    off = dict(B_r_CP=rng.normal(size=3) * 0.2, A_BM=_rot(rng)) if rng.random() < 0.5 else {}
    if kind == "rb":
        b = RigidBody(_lu(rng, 0.1, 10), _theta(rng), q0=q0, u0=u0, name=name)
        return b, dict(contr=b, name=name, tag="RigidBody", expect=exp_rigid_base(b), listable="RigidBody")
    if kind == "pm":
        b = PointMass(_lu(rng, 0.1, 10), q0=q0[:3], u0=u0[:3], name=name)
        return b, dict(contr=b, name=name, tag="PointMass", expect=exp_pointmass(b), listable="PointMass")
    if kind == "box":
        b = C["Box"](RigidBody)(dimensions=np.array([_lu(rng, 0.05, 1) for _ in range(3)]), density=_lu(rng, 1, 100),
                                q0=q0, u0=u0, name=name, **off)
    elif kind == "sphere":
        b = C["Sphere"](RigidBody)(radius=_lu(rng, 0.05, 0.5), subdivisions=int(rng.integers(0, 2)), density=_lu(rng, 1, 100),
                                   q0=q0, u0=u0, name=name, **off)
    elif kind == "cyl":
        b = C["Cylinder"](RigidBody)(radius=_lu(rng, 0.05, 0.5), height=_lu(rng, 0.05, 1), density=_lu(rng, 1, 100),
                                     q0=q0, u0=u0, name=name, **off)
    else:
        V = np.array([[0, 0, 0], [1, 0, 0], [0, 1, 0], [0, 0, 1.0]]) * _lu(rng, 0.1, 1) + rng.normal(size=3) * 0.1
        F = np.array([[0, 2, 1], [0, 1, 3], [1, 2, 3], [0, 3, 2]])
        b = C["Meshed"](RigidBody)(mesh_obj=trimesh.Trimesh(V, F, process=False), density=None, mass=_lu(rng, 0.1, 10),
                                   B_Theta_C=_theta(rng), scale=float(rng.choice([1.0, 0.5, 2.0])), q0=q0, u0=u0, name=name, **off)
    verts = np.array(b.B_visual_mesh.vertices, dtype=float)
    faces = np.array(b.B_visual_mesh.faces, dtype=int)
    return b, dict(contr=b, name=name, tag="Meshed:" + kind, expect=exp_meshed(b, verts, faces),
                   base_expect=exp_rigid_base(b), listable=None)


def _moving_frame(rng, C, idx):
    a, w, ph = rng.normal(size=3) * 0.5, _lu(rng, 0.5, 10), rng.uniform(0, 6)
    r0, v0 = rng.normal(size=3), rng.normal(size=3)
    ax, om = rng.normal(size=3), _lu(rng, 0.5, 5)
    A0 = _rot(rng)
    mode = int(rng.integers(3))
    name = f"frame{idx}"
    if mode == 0:  # static, non-callable
        fr = C["Frame"](r_OP=r0, A_IB=A0, name=name)
        return fr, dict(contr=fr, name=name, tag="Frame:static", expect=exp_frame(fr, lambda t: r0, lambda t: A0), listable="Frame")
    r_fun = lambda t: r0 + v0 * t + a * np.sin(w * t + ph)
    A_fun = lambda t: A0 @ _axis_rot(ax, om * t)
    if mode == 1:  # callables, numerical derivatives inside Frame
        fr = C["Frame"](r_OP=r_fun, A_IB=A_fun, name=name)
        tag = "Frame:moving"
    else:  # translation only with analytic velocity
        fr = C["Frame"](r_OP=r_fun, r_OP_t=lambda t: v0 + a * w * np.cos(w * t + ph), A_IB=A0, name=name)
        A_fun = lambda t: A0
        tag = "Frame:translating"
    return fr, dict(contr=fr, name=name, tag=tag, expect=exp_frame(fr, r_fun, A_fun), listable="Frame")


def _loads(rng, C, bodies, items, system_contrs, g=np.array([0, 0, -9.81])):
    """gravity on every body plus a few random loads with export"""
    for b in bodies:
        m = float(b.mass)
        B_r = np.zeros(3)
        name = "grav_" + b.name
        fun = (lambda mm: (lambda t: mm * g))(m)
        fz = C["Force"](fun(0.0) if rng.random() < 0.5 else fun, b, B_r_CP=B_r, name=name)
        system_contrs.append(fz)
        items.append(dict(contr=fz, name=name, tag="Force", expect=exp_force(b, B_r, fun, "F"), listable="Force"))
        if hasattr(b, "A_IB") and rng.random() < 0.5:
            kind = ["F", "BF", "M", "BM"][int(rng.integers(4))]
            # loads scaled with the body's inertia so that the short simulation stays moderate
            Imin = float(np.min(np.linalg.eigvalsh(np.asarray(b.B_Theta_C, dtype=float))))
            rgyr = np.sqrt(Imin / m)
            amp = rng.normal(size=3) * (5.0 * m if kind in ("F", "BF") else 5.0 * Imin)
            w = _lu(rng, 1, 20)
            fun2 = (lambda amp_, w_: (lambda t: amp_ * np.cos(w_ * t)))(amp, w)
            B_r2 = rng.normal(size=3) * rgyr
            name2 = f"load{kind}_{b.name}"
            if kind == "F":
                c = C["Force"](fun2, b, B_r_CP=B_r2, name=name2)
            elif kind == "BF":
                c = C["B_Force"](fun2, b, B_r_CP=B_r2, name=name2)
            elif kind == "M":
                c = C["Moment"](fun2, b, name=name2)
            else:
                c = C["B_Moment"](fun2, b, name=name2)
            system_contrs.append(c)
            items.append(dict(contr=c, name=name2, tag="Load:" + kind, expect=exp_force(b, B_r2, fun2, kind), listable=None))


def build_bodies(rng, C, t0, pendulum=False):
    system = C["System"](t0=t0)
    contrs, items, bodies = [], [], []
    items.append(dict(contr=system.origin, name="cardillo_origin", tag="Frame:origin", expect=exp_frame(system.origin), listable=None))
    nb = int(rng.integers(1, 5))
    for i in range(nb):
        b, it = _free_body(rng, C, i)
        contrs.append(b); items.append(it); bodies.append(b)
    for i in range(int(rng.integers(0, 3))):
        fr, it = _moving_frame(rng, C, i)
        contrs.append(fr); items.append(it)
    if pendulum:
        RigidBody, PointMass = C["RigidBody"], C["PointMass"]
        pm = PointMass(_lu(rng, 0.5, 5), q0=rng.normal(size=3) + np.array([1.5, 0, 0]), u0=np.zeros(3), name="pend_pm")
        rb = RigidBody(_lu(rng, 0.5, 5), _theta(rng), q0=np.r_[rng.normal(size=3) - np.array([2.0, 0, 0]), _quat(rng)], u0=np.zeros(6), name="pend_rb")
        B1, B2 = rng.normal(size=3) * 0.3, np.zeros(3)
        fd1 = C["FixedDistance"](system.origin, pm)
        fd2 = C["FixedDistance"](rb, pm, B1_r_P1J1=B1, B2_r_P2J2=B2)
        fd1.name, fd2.name = "rope_origin_pm", "rope_rb_pm"
        contrs += [pm, rb, fd1, fd2]
        bodies += [pm, rb]
        items.append(dict(contr=pm, name="pend_pm", tag="PointMass", expect=exp_pointmass(pm), listable="PointMass"))
        items.append(dict(contr=rb, name="pend_rb", tag="RigidBody", expect=exp_rigid_base(rb), listable="RigidBody"))
        items.append(dict(contr=fd1, name=fd1.name, tag="FixedDistance", expect=exp_fixed_distance(system.origin, np.zeros(3), pm, np.zeros(3)), listable="FixedDistance"))
        items.append(dict(contr=fd2, name=fd2.name, tag="FixedDistance", expect=exp_fixed_distance(rb, B1, pm, B2), listable="FixedDistance"))
    _loads(rng, C, bodies, items, contrs)
    system.add(*contrs)
    return system, items


def build_contact(rng, C, t0, force_offset=False, force_mixed=False):
    system = C["System"](t0=t0)
    contrs, items, bodies = [], [], []
    RigidBody, PointMass = C["RigidBody"], C["PointMass"]
    if rng.random() < 0.5:
        plane, pname = system.origin, "cardillo_origin"
        A_pl, r_pl = np.eye(3), np.zeros(3)
        items.append(dict(contr=plane, name=pname, tag="Frame:origin", expect=exp_frame(plane), listable=None))
    else:
        A_pl = _axis_rot(np.r_[rng.normal(size=2), 0.0], rng.uniform(-0.3, 0.3))
        r_pl = rng.normal(size=3) * 0.3
        plane = C["Frame"](r_OP=r_pl, A_IB=A_pl, name="plane")
        contrs.append(plane)
        items.append(dict(contr=system.origin, name="cardillo_origin", tag="Frame:origin", expect=exp_frame(system.origin), listable=None))
        items.append(dict(contr=plane, name="plane", tag="Frame:static", expect=exp_frame(plane, lambda t: r_pl, lambda t: A_pl), listable=None))
    n = A_pl[:, 2]
    ns = int(rng.integers(1, 4)) if not force_mixed else int(rng.integers(2, 4))
    for i in range(ns):
        radius = _lu(rng, 0.05, 0.4) if rng.random() < 0.85 else 0.0
        mu = 0.0 if rng.random() < 0.3 else float(rng.uniform(0.1, 0.8))
        if force_mixed and i < 2:
            mu = [0.4, 0.0][i]
        aniso = np.ones(2) if rng.random() < 0.7 else rng.uniform(0.5, 1.5, 2)
        gap = float(rng.choice([0.0, 1e-3, 0.02, 0.2]))
        kind = ["sphere", "rb", "pm"][int(rng.integers(3))]
        if force_offset and i == 0:
            kind, radius, mu = "rb", max(radius, 0.1), max(mu, 0.3)
        centre = r_pl + A_pl @ np.r_[rng.normal(size=2) + 3 * i, radius + gap]
        # a closed contact (gap 0) must not approach, otherwise System.assemble rejects the initial state
        vt = A_pl @ np.r_[rng.normal(size=2), (abs(rng.normal()) if gap == 0.0 else -abs(rng.normal())) * 0.5]
        B_off = np.zeros(3)
        if kind == "pm":
            b = PointMass(_lu(rng, 0.5, 5), q0=centre, u0=vt, name=f"ball{i}")
            items.append(dict(contr=b, name=b.name, tag="PointMass", expect=exp_pointmass(b), listable="PointMass"))
        else:
            p = _quat(rng)
            if (rng.random() < 0.5) or (force_offset and i == 0):
                B_off = rng.normal(size=3) * 0.15
            Ab = np.array(C["quat2A"](p))
            q0 = np.r_[centre - Ab @ B_off, p]
            om = rng.normal(size=3) * _lu(rng, 0.5, 5)
            u0 = np.r_[vt - Ab @ np.cross(om, B_off), om]
            if kind == "sphere" and radius > 0 and not np.any(B_off):
                b = C["Sphere"](RigidBody)(radius=radius, subdivisions=1, density=_lu(rng, 10, 100), q0=q0, u0=u0, name=f"ball{i}")
                verts = np.array(b.B_visual_mesh.vertices, dtype=float); faces = np.array(b.B_visual_mesh.faces, dtype=int)
                items.append(dict(contr=b, name=b.name, tag="Meshed:sphere", expect=exp_meshed(b, verts, faces),
                                  base_expect=exp_rigid_base(b), listable=None))
            else:
                b = RigidBody(_lu(rng, 0.5, 5), _theta(rng), q0=q0, u0=u0, name=f"ball{i}")
                items.append(dict(contr=b, name=b.name, tag="RigidBody", expect=exp_rigid_base(b), listable="RigidBody"))
        con = C["Sphere2Plane"](plane, b, mu=mu, r=radius, e_N=float(rng.choice([0.0, 0.5])), e_F=0.0 if mu > 0 else None,
                                B_r_CP=B_off, anisotropy=aniso, name=f"contact{i}")
        contrs += [b, con]; bodies.append(b)
        items.append(dict(contr=con, name=con.name, tag="Sphere2Plane" + (":offset" if np.any(B_off) else "") + (":mu>0" if mu > 0 else ":mu=0"),
                          expect=exp_contact(con, plane, b, radius, B_off, mu, aniso), listable="Sphere2Plane:mu>0" if mu > 0 else "Sphere2Plane:mu=0", contact=True))
    _loads(rng, C, bodies, items, contrs, g=-9.81 * n if rng.random() < 0.5 else np.array([0, 0, -9.81]))
    system.add(*contrs)
    return system, items


def build_rod(rng, C, t0, level=None):
    system = C["System"](t0=t0)
    mixed = bool(rng.random() < 0.5)
    p = int(rng.integers(1, 3))
    Rod = C["make_CosseratRod"](mixed=mixed, polynomial_degree=p)
    cs = C["RectangularCrossSection"](0.1, 0.15) if rng.random() < 0.5 else C["CircularCrossSection"](0.08, export_as_wedge=bool(rng.random() < 0.5))
    mat = C["Simo1986"](np.array([5, 1, 1.0]) * _lu(rng, 5, 20), np.array([0.5, 2, 2.0]) * _lu(rng, 0.5, 2))
    nel = int(rng.integers(1, 4))
    at_origin = bool(rng.random() < 0.4)
    A0 = np.eye(3) if at_origin else _rot(rng)
    r0 = np.zeros(3) if at_origin else rng.normal(size=3) * 0.5
    q0 = Rod.straight_configuration(nel, _lu(rng, 0.5, 2), r_OP0=r0, A_IB0=A0)
    rod = Rod(cs, mat, nel, Q=q0, q0=q0, name="rod")
    level = level or ["centerline + directors", "volume", "NodalVolume"][int(rng.integers(3))]
    rod._export_dict["level"] = level
    if level == "volume":
        rod._export_dict["volume_directors"] = bool(rng.random() < 0.5)
        rod._export_dict["stresses"] = bool(rng.random() < 0.5)
        if rng.random() < 0.3 and not rod._export_dict["stresses"]:
            rod._export_dict["ncells"] = int(rng.integers(1, 4))
        if cs.__class__.__name__ == "CircularCrossSection" and rng.random() < 0.5:
            rod._export_dict["surface_normals"] = True
            # at most as many cells as elements; with stresses the exporter insists on cell boundaries at the element boundaries
            # (it says so with an assertion), so the number of cells stays at its default there
            rod._export_dict["ncells"] = nel if rod._export_dict["stresses"] else int(rng.integers(1, nel + 1))
    clamp = C["RigidConnection"](system.origin if at_origin else C_frame(C, system, r0, A0), rod, xi2=0)
    Fv = rng.normal(size=3) * _lu(rng, 0.2, 2)
    tip = C["Force"](Fv, rod, 1.0, name="tipforce")
    system.add(rod, clamp, tip)
    items = [dict(contr=system.origin, name="cardillo_origin", tag="Frame:origin", expect=exp_frame(system.origin), listable=None)]
    if level == "centerline + directors":
        items.append(dict(contr=rod, name="rod", tag="Rod:centerline", expect=exp_rod_centerline(rod), listable=None))
    else:
        items.append(dict(contr=rod, name="rod", tag="Rod:" + level, expect=exp_via_export(rod), listable=None, via_export=True))

    def tip_expect(t, q, u, k, sol):
        qb = q[rod.qDOF]
        return dict(points=[np.asarray(rod.r_OP(t, qb[rod.local_qDOF_P(1.0)], 1.0))], cells=[(VTK_VERTEX, [0])], point_data={},
                    cell_data=dict(F=[Fv]))
    items.append(dict(contr=tip, name="tipforce", tag="Force:rod", expect=tip_expect, listable=None))
    for c in system.contributions:
        if c.name == "clamp_frame":
            items.append(dict(contr=c, name="clamp_frame", tag="Frame:static", expect=exp_frame(c, lambda t: r0, lambda t: A0), listable=None))
    return system, items


def _rod_placement_invariance(ctx, rng, C, system, sol, t0):
    """what a rod exports must not depend on WHERE its coordinates sit in the system: the same rod state, embedded in a system in
    which another body comes first (all rod degrees of freedom shifted), must export the same points and data"""
    import copy, types
    rod = [c for c in system.contributions if c.name == "rod"][0]
    if rod._export_dict.get("level") is None:
        return
    with _Quiet():
        S2 = C["System"](t0=t0)
        pm = C["PointMass"](1.0, q0=np.array([5.0, 5.0, 5.0]), u0=np.zeros(3), name="ahead_of_the_rod")
        rod2 = copy.deepcopy(rod)
        S2.add(pm, rod2)
        for c in system.contributions:
            if c.name in ("rod", "cardillo_origin") or c.__class__.__name__ in ("RigidConnection", "Force"):
                continue
        S2.assemble(options=C["SolverOptions"](compute_consistent_initial_conditions=False))
    ctx.mon("rod.placement_invariance")
    ctx.cls("rod:export_with_stresses" if rod._export_dict.get("stresses") else "rod:export_without_stresses")
    recs = list(sol)
    for k in sorted(set([0, len(recs) // 2, len(recs) - 1])):
        r1 = recs[k]
        q2 = np.concatenate([pm.q0, np.asarray(r1.q)[rod.qDOF]]); u2 = np.concatenate([pm.u0, np.asarray(r1.u)[rod.uDOF]])
        la_c2 = np.asarray(r1.la_c)[rod.la_cDOF] if (getattr(r1, "la_c", None) is not None and hasattr(rod, "la_cDOF")) else getattr(r1, "la_c", None)
        la_g2 = np.asarray(r1.la_g)[rod.la_gDOF] if (getattr(r1, "la_g", None) is not None and hasattr(rod, "la_gDOF")) else np.zeros(0)
        r2 = types.SimpleNamespace(t=r1.t, q=q2, u=u2, la_c=la_c2, la_g=la_g2)
        try:
            with _Quiet():
                e1 = rod.export(r1); e2 = rod2.export(r2)
        except Exception as e:
            ctx.violation("Rod.export", "exporting the rod raises", {"error": f"{type(e).__name__}: {e}"[:300], "frame": k, "export_options": {a: b for a, b in rod._export_dict.items() if isinstance(b, (bool, int, str))}})
            return
        p1, p2 = np.asarray(e1[0], dtype=float), np.asarray(e2[0], dtype=float)
        bad = None
        if p1.shape != p2.shape or np.abs(p1 - p2).max() > 1e-9 * (1 + np.abs(p1).max()):
            bad = "points"
        for d1, d2, what in ((e1[2] or {}, e2[2] or {}, "point_data"), (e1[3] or {}, e2[3] or {}, "cell_data")):
            for name in d1:
                a, b = np.asarray(d1[name], dtype=float), np.asarray(d2.get(name), dtype=float)
                if a.shape != b.shape or (a.size and np.abs(a - b).max() > 1e-7 * (1 + np.abs(a).max())):
                    bad = bad or f"{what}:{name}"
        if bad:
            ctx.violation("Rod.export", "the rod exports other data when another body precedes it in the system (same rod state)",
                          {"first_difference": bad, "frame": k, "export_options": {a: b for a, b in rod._export_dict.items() if isinstance(b, (bool, int, str))}})
            return


def C_frame(C, system, r0, A0):
    fr = C["Frame"](r_OP=r0, A_IB=A0, name="clamp_frame")
    system.add(fr)
    return fr


# --------------------------------------------------------------------------
# reading back
# --------------------------------------------------------------------------
def read_vtu(path):
    import vtk
    from vtk.util.numpy_support import vtk_to_numpy

    rd = vtk.vtkXMLUnstructuredGridReader()
    if not rd.CanReadFile(str(path)):
        return None
    rd.SetFileName(str(path))
    vtk.vtkObject.GlobalWarningDisplayOff()  # a rejected file is detected below, not through VTK's C++ log
    try:
        rd.Update()
    finally:
        vtk.vtkObject.GlobalWarningDisplayOn()
    ug = rd.GetOutput()
    npts = ug.GetNumberOfPoints()
    pts = vtk_to_numpy(ug.GetPoints().GetData()).copy() if npts else np.zeros((0, 3))

    def arrays(data):
        out = {}
        for i in range(data.GetNumberOfArrays()):
            a = data.GetAbstractArray(i)
            arr = vtk_to_numpy(a).copy()
            out[a.GetName()] = arr.reshape(arr.shape[0], -1)
        return out
    cells = []
    for i in range(ug.GetNumberOfCells()):
        c = ug.GetCell(i)
        cells.append((int(ug.GetCellType(i)), [int(c.GetPointId(k)) for k in range(c.GetNumberOfPoints())]))
    import re
    m = re.search(r'NumberOfPoints="(\d+)"', open(str(path), "rb").read(3000).decode("latin1"))
    return dict(points=pts, point_data=arrays(ug.GetPointData()), cell_data=arrays(ug.GetCellData()), cells=cells,
                declared_points=int(m.group(1)) if m else None)


def read_pvd(path):
    doc = minidom.parse(str(path))
    out = []
    for ds in doc.getElementsByTagName("DataSet"):
        out.append((ds.getAttribute("timestep"), ds.getAttribute("file")))
    root = doc.documentElement
    return root.tagName, root.getAttribute("type"), out


def expected_frames(t, fps):
    """candidate index lists (more than one only if (t_end-t_0)*fps is borderline)"""
    N = len(t)
    x = (float(t[-1]) - float(t[0])) * fps
    cands = {int(np.floor(x))}
    if abs(x - round(x)) < 1e-9 * max(1.0, abs(x)):
        cands |= {int(round(x)) - 1, int(round(x))}
    out = []
    for target in sorted(c for c in cands if c >= 0):
        target = max(1, target)
        stride = max(1, N // target)
        idx = list(range(0, N, stride))
        if idx not in out:
            out.append(idx)
    return out


def _cmp(ctx, site, what, got, exp, det, scale=1.0):
    """entrywise comparison with dtype-aware tolerance; returns (ok, diff info)"""
    exp = np.asarray(exp)
    if exp.ndim == 1:
        exp = exp.reshape(len(exp), -1)
    exp = exp.reshape(exp.shape[0], -1) if exp.size else exp.reshape(0, got.shape[1] if got.ndim == 2 else 0)
    if got.shape != exp.shape:
        return False, {"shape_file": list(got.shape), "shape_expected": list(exp.shape)}
    if got.size == 0:
        return True, None
    if np.issubdtype(got.dtype, np.integer) or got.dtype == np.uint8:
        bad = got.astype(np.int64) != np.rint(exp).astype(np.int64)
        if np.any(bad):
            i = np.argwhere(bad)[0]
            return False, {"index": i.tolist(), "file": int(got[tuple(i)]), "expected": float(exp[tuple(i)])}
        return True, None
    exp = exp.astype(float)
    if not np.all(np.isfinite(exp)):
        return None, {"reason": "expected geometry not finite"}
    rel = 2.4e-7 if got.dtype == np.float32 else 1e-12
    tol = rel * (np.max(np.abs(exp)) + scale)  # scale: magnitude of the state the quantity is computed from
    d = np.abs(got.astype(float) - exp)
    if not np.all(np.isfinite(d)) or d.max() > tol:
        i = np.unravel_index(np.nanargmax(np.where(np.isfinite(d), d, np.inf)), d.shape)
        return False, {"index": [int(a) for a in i], "file": float(got[i]), "expected": float(exp[i]),
                       "max_abs_diff": float(d[i]), "tol": float(tol), "dtype": str(got.dtype)}
    return True, None


def verify_collection(ctx, folder, fname, item, expect, sol, fps, rng, wit, frames_cache):
    """all clauses of the property for one written collection <fname>.pvd"""
    site = "Export.export_contr"
    pvd = Path(folder) / f"{fname}.pvd"
    seen = set()
    _viol = ctx.violation

    def violation(site_, what, detail=None, key=None):
        """one witness per (collection, what); repeats (other frames of the same file series) are only counted"""
        if what in seen:
            ctx.count("repeated_violation_other_frames")
            return
        seen.add(what)
        _viol(site_, what, detail, key=key)
    ctx.mon("pvd.exists")
    if not pvd.exists():
        violation(site, "collection file (.pvd) was not written", {**wit, "pvd": pvd.name, "present": sorted(os.listdir(folder))[:40]})
        return False
    try:
        tag, typ, entries = read_pvd(pvd)
    except Exception as e:
        violation(site, "collection file (.pvd) is not well-formed XML", {**wit, "pvd": pvd.name, "error": str(e)[:200]})
        return False
    ctx.mon("pvd.entries")
    t = np.asarray(sol.t, dtype=float)
    cands = expected_frames(t, fps)
    if len(cands) > 1:
        ctx.cls("fps:borderline")
    # ---- entries: one per exported frame ----
    ctx.mon("frames.selection")
    times = []
    for ts, _ in entries:
        try:
            times.append(float(ts))
        except ValueError:
            times.append(float("nan"))
    times = np.array(times)
    match = None
    for idx in cands:
        if len(idx) == len(entries) and np.all(np.abs(times - t[idx]) <= 0.5e-6 + 1e-9 * np.abs(t[idx])):
            match = idx
            break
    det = {**wit, "pvd": pvd.name, "fps": fps, "n_solution_frames": len(t), "t_first_last": [float(t[0]), float(t[-1])],
           "pvd_timesteps": times[:12], "expected_indices": cands[0][:12], "expected_times": t[cands[0]][:12],
           "n_entries": len(entries), "n_expected": len(cands[0])}
    if tag != "VTKFile" or typ != "Collection":
        violation(site, "collection file is not a VTKFile of type Collection", det)
    ctx.mon("pvd.time_order")
    if len(times) and (not np.all(np.isfinite(times)) or np.any(np.diff(times) <= 0)):
        violation(site, "collection entries are not in strictly increasing time order", det)
    if match is None:
        if len(entries) != len(cands[0]):
            violation(site, "number of collection entries differs from the number of exported frames", det)
        else:
            violation(site, "collection timesteps are not the times of the selected solution frames", det)
        # fall back: map entries to solution frames by time so that the contents can still be decided
        match = []
        for x in times:
            k = int(np.argmin(np.abs(t - x))) if np.isfinite(x) else -1
            match.append(k if k >= 0 and abs(t[k] - x) <= 0.5e-6 + 1e-9 * abs(t[k]) else None)
    # ---- files exist, names distinct ----
    ctx.mon("pvd.files_exist")
    files = [f for _, f in entries]
    missing = [f for f in files if not (Path(folder) / f).is_file()]
    if missing:
        violation(site, "collection lists a data file that does not exist", {**det, "missing": missing[:5]})
    if len(set(files)) != len(files):
        violation(site, "collection lists the same data file more than once", {**det, "files": files[:12]})
    frames_cache[fname] = set(files)
    # ---- contents ----
    order = list(range(len(entries)))
    if len(order) > 14:
        keep = {0, 1, len(order) - 1} | set(rng.choice(len(order), size=9, replace=False).tolist())
        order = sorted(keep)
    for i in order:
        k = match[i] if i < len(match) else None
        f = Path(folder) / files[i]
        if k is None or not f.is_file():
            continue
        got = read_vtu(f)
        ctx.mon("vtu.read")
        if got is None:
            violation(site, "data file cannot be read by vtkXMLUnstructuredGridReader", {**det, "file": files[i]})
            continue
        if len(got["points"]) == 0 and (got["declared_points"] or 0) > 0:
            # the XML declares points but VTK's reader rejects the piece (inconsistent array lengths)
            E = expect(float(t[k]), np.asarray(sol.q[k]), np.asarray(sol.u[k]), k, sol)
            npts, ncl = len(E["points"]), len(E["cells"] or [])
            ragged = (any(len(v) != npts for v in E["point_data"].values()) or any(len(v) != ncl for v in E["cell_data"].values()))
            key = K_RAGGED if (item["tag"].startswith("list:") and ragged and got["declared_points"] == npts) else None
            violation(site, "list export of contributions with different data arrays writes a file that VTK's reader rejects" if key
                          else "data file declares points but vtkXMLUnstructuredGridReader rejects it",
                          {**det, "file": files[i], "declared_points": got["declared_points"], "contribution": item["tag"],
                           "expected_points": npts, "expected_array_rows": {n: len(v) for n, v in {**E["point_data"], **E["cell_data"]}.items()}},
                          key=key)
            continue
        E = expect(float(t[k]), np.asarray(sol.q[k]), np.asarray(sol.u[k]), k, sol)
        d0 = {**wit, "pvd": pvd.name, "file": files[i], "entry": i, "solution_frame": k, "t": float(t[k]), "contribution": item["tag"]}
        sc = max(1.0, float(np.max(np.abs(sol.q[k]), initial=0.0)), float(np.max(np.abs(sol.u[k]), initial=0.0)))
        # points
        ctx.mon("vtu.points")
        ok, info = _cmp(ctx, site, "points", got["points"], np.asarray(E["points"], dtype=float).reshape(-1, 3), d0, sc)
        if ok is None:
            ctx.undecided("expected geometry not finite")
            continue
        if not ok:
            # which frame does the file content belong to, if any? (diagnosis for the witness)
            other = None
            for kk in range(len(t)):
                try:
                    Ek = expect(float(t[kk]), np.asarray(sol.q[kk]), np.asarray(sol.u[kk]), kk, sol)
                    if _cmp(ctx, site, "", got["points"], np.asarray(Ek["points"], dtype=float).reshape(-1, 3), d0, sc)[0]:
                        other = kk
                        break
                except Exception:
                    break
            violation(site, "point coordinates in the data file differ from the geometry at that frame",
                          {**d0, **info, "content_matches_solution_frame": other})
            continue
        # cells
        if E.get("cells") is not None:
            ctx.mon("vtu.cells")
            exp_cells = [(int(c[0]), [int(x) for x in c[1]]) for c in E["cells"]]
            if got["cells"] != exp_cells:
                violation(site, "cell types / connectivity in the data file differ from the contribution's cells",
                              {**d0, "file_cells": got["cells"][:4], "expected_cells": exp_cells[:4]})
        elif "ncells" in E:
            ctx.mon("vtu.cells")
            ids = sorted(i_ for c in got["cells"] for i_ in c[1])
            if len(got["cells"]) != E["ncells"] or set(ids) != set(range(len(got["points"]))):
                violation(site, "cells of the data file do not cover the exported points",
                              {**d0, "file_cells": got["cells"][:4], "expected_ncells": E["ncells"]})
        # data arrays
        for tgt, mon in (("point_data", "vtu.point_data"), ("cell_data", "vtu.cell_data")):
            exp_d = E[tgt]
            ctx.mon(mon)
            if set(exp_d) != set(got[tgt]):
                violation(site, f"{tgt} arrays in the data file differ from the contribution's arrays (names)",
                              {**d0, "file": sorted(got[tgt]), "expected": sorted(exp_d)})
            for name, val in exp_d.items():
                if name not in got[tgt]:
                    continue
                val = np.array([np.atleast_1d(np.asarray(v, dtype=float)) for v in val]) if len(val) else np.zeros((0, 0))
                ok, info = _cmp(ctx, site, name, got[tgt][name], val, d0, sc)
                ctx.mon("vtu.array")
                if ok is None:
                    ctx.undecided("expected data not finite")
                elif not ok:
                    key = None
                    if name == "v_Ci" and item.get("contact"):
                        key = _v_ci_defect(got[tgt][name], val, E, info)
                    violation(site, f"{tgt} array '{name}' differs from the quantity evaluated at that frame" if key is None
                                  else "Sphere2Plane export: v_Ci of the body-side contact point ignores the sphere-centre offset B_r_CP",
                                  {**d0, "array": name, **info}, key=key)
    return True


def _v_ci_defect(got, exp, E, info):
    """defect model: the body-side row equals v_P(B_r_CP = A^T r_PC1) = v_C + Omega x (-r n), i.e.
    observed - true = -Omega x (A_IB B_r_CP); the plane-side row is correct."""
    auxs = E.get("auxs") or ([(0, E["aux"])] if "aux" in E else [])
    if got.shape != exp.shape or not auxs:
        return None
    hit = False
    for off, a in auxs:
        if not np.any(a["B_r_CP"]):
            model = np.zeros(3)
        else:
            model = -np.cross(a["Om"], a["A1"] @ a["B_r_CP"])
        tol = 1e-10 * (1 + np.max(np.abs(exp)))
        if np.max(np.abs(got[off] - exp[off] - model)) > tol or np.max(np.abs(got[off + 1] - exp[off + 1])) > tol:
            return None
        hit |= bool(np.max(np.abs(model)) > tol)
    return K_V_CI if hit else None


# --------------------------------------------------------------------------
# the case
# --------------------------------------------------------------------------
def _imports():
    with contextlib.redirect_stdout(io.StringIO()):
        from cardillo import System
        from cardillo.discrete import RigidBody, PointMass, Frame, Box, Sphere, Cylinder, Meshed
        from cardillo.contacts import Sphere2Plane
        from cardillo.constraints import RigidConnection
        from cardillo.constraints.fixed_distance import FixedDistance
        from cardillo.forces import Force, B_Force, Moment, B_Moment
        from cardillo.solver import Moreau, Rattle, SolverOptions
        from cardillo.visualization import Export
        from cardillo.rods import CircularCrossSection, RectangularCrossSection, Simo1986
        from cardillo.rods.cosseratRod import make_CosseratRod

    def quat2A(p):
        w, x, y, z = np.asarray(p) / np.linalg.norm(p)
        return [[1 - 2 * (y * y + z * z), 2 * (x * y - w * z), 2 * (x * z + w * y)],
                [2 * (x * y + w * z), 1 - 2 * (x * x + z * z), 2 * (y * z - w * x)],
                [2 * (x * z - w * y), 2 * (y * z + w * x), 1 - 2 * (x * x + y * y)]]
    return dict(locals())


def _file_mode(path):
    head = open(path, "rb").read(4000).decode("latin1")
    if 'format="ascii"' in head:
        return "ascii"
    if 'format="binary"' in head or 'format="appended"' in head:
        return "binary"
    return "none"


def _hash_dir(d):
    h = hashlib.sha1()
    for f in sorted(os.listdir(d)):
        h.update(f.encode())
        h.update(open(os.path.join(d, f), "rb").read())
    return h.hexdigest()


def run_case(spec, ctx):
    env.import_cardillo()
    C = _imports()
    rng = ctx.rng
    kind = spec["kind"]
    name = spec.get("name")
    directed = kind == "directed"
    if directed:
        kind = {"contact-offset": "contact", "strpath-no-overwrite": "bodies", "bodies-system": "bodies",
                "rod-centerline": "rod", "frames-stride": "bodies", "list-export": "contact",
                "list-ragged": "contact"}[name]
    t0 = 0.0 if rng.random() < 0.6 else float(rng.choice([0.5, -0.3, 2.0, 25000.0, -4000.0]))
    with _Quiet():
        if kind in ("bodies", "pendulum"):
            system, items = build_bodies(rng, C, t0, pendulum=(kind == "pendulum"))
        elif kind == "contact":
            system, items = build_contact(rng, C, t0, force_offset=(name == "contact-offset"), force_mixed=(name == "list-ragged"))
        else:
            system, items = build_rod(rng, C, t0, level="centerline + directors" if name == "rod-centerline" else None)
        try:
            system.assemble()
        except AssertionError as e:  # the generated initial state was rejected: says nothing about the exporter
            ctx.undecided(f"System.assemble rejected the generated system: {str(e)[:100]}")
            ctx.cls(f"assemble-rejected:{kind}")
            return
    # ---------------- simulate ----------------
    nsteps = int(rng.integers(5, 61))
    dt = float(rng.choice([1e-3, 5e-3, 1e-2, 2e-2])) if kind != "rod" else float(rng.choice([2e-3, 5e-3]))
    if kind == "rod":
        nsteps = min(nsteps, 30)
    solver_name = "Moreau" if rng.random() < 0.5 else "Rattle"
    if name == "frames-stride":
        nsteps, dt = 60, 1e-2
    square = name not in ("frames-stride",) and kind != "rod" and rng.random() < 0.2 and 4 <= system.nq <= 61
    if square:
        # as many stored instants as the system has coordinates (or velocities): the stored fields are square
        nsteps = int(system.nq if rng.random() < 0.6 else max(system.nu, 4)) - 1
        ctx.cls("frames:as_many_as_coordinates")
    t1 = t0 + nsteps * dt
    try:
        with _Quiet():
            sol = C[solver_name](system, t1, dt, options=C["SolverOptions"]()).solve()
    except Exception as e:
        # a solver failure says nothing about the exporter
        ctx.undecided(f"{solver_name} failed on the generated system: {type(e).__name__}: {str(e)[:100]}")
        ctx.cls(f"solver-failed:{solver_name}:{kind}")
        return
    if not (np.all(np.isfinite(sol.q)) and np.all(np.isfinite(sol.u))):
        ctx.undecided("simulation produced non-finite states")
        return
    if kind == "rod":
        _rod_placement_invariance(ctx, rng, C, system, sol, t0)
    N = len(sol.t)
    T = float(sol.t[-1] - sol.t[0])
    # fps so that the stride covers 1..7 (and beyond)
    stride_goal = int(rng.choice([1, 1, 2, 3, 4, 5, 6, 7, 9]))
    fps = float(rng.choice([10, 24, 25, 30, 50, 60, 100, 200, 1000])) if rng.random() < 0.5 else max(1.0, N / stride_goal / max(T, 1e-9)) * float(rng.uniform(0.8, 1.2))
    if name == "frames-stride":
        fps = 20.0
    if square:
        fps = 1.5 / dt        # every stored instant is exported
    mode = ["system", "contr"][int(rng.integers(2))]
    use_str = bool(rng.random() < 0.35)
    pre = ["fresh", "exists-overwrite", "exists-keep"][int(rng.integers(3))]
    write_ascii = bool(rng.random() < 0.5)
    if name == "strpath-no-overwrite":
        mode, use_str, pre = "contr", True, "exists-keep"
    if name in ("bodies-system", "rod-centerline", "frames-stride"):
        mode, pre = "system", "fresh"
    if name in ("contact-offset", "list-export", "list-ragged"):
        mode = "contr"
    if use_str and pre == "exists-keep" and name != "strpath-no-overwrite" and rng.random() < 0.7:
        use_str = False  # keep most cases out of the recorded defect's stratum
    params = dict(kind=spec["kind"] + (":" + name if name else ""), solver=solver_name, dt=dt, nsteps=nsteps, t0=t0, fps=fps, mode=mode,
                  path_type="str" if use_str else "Path", pre=pre, write_ascii=write_ascii,
                  contributions=[it["tag"] for it in items])
    ctx.sample(params)
    for k_ in ("solver", "mode", "path_type", "pre"):
        ctx.cls(f"{k_}:{params[k_]}")
    ctx.cls(f"kind:{kind}")
    ctx.cls("t0:" + ("zero" if t0 == 0 else "nonzero"))
    strides = {(c[1] - c[0] if len(c) > 1 else N) for c in expected_frames(sol.t, fps)}
    for s in strides:
        ctx.cls(f"stride:{s if s <= 9 else '10+'}")
    wit = dict(params)

    tmp = tempfile.mkdtemp(prefix="verif-c29-")
    nverified = 0
    try:
        base = os.path.join(tmp, "out") if use_str else Path(tmp, "out")
        os.makedirs(str(base))
        folder_name = "vtk" if rng.random() < 0.7 else "sub/vtk_run"
        old_hash = None
        if pre != "fresh":
            # an earlier export into the same folder
            with _Quiet():
                e0 = C["Export"](Path(str(base)), folder_name, True, 10, sol)
                e0.export_contr(items[0]["contr"])
            open(os.path.join(str(e0.path), "stale_marker.vtu"), "w").write("stale")
            old_dir = str(e0.path)
            old_hash = _hash_dir(old_dir)
        overwrite = pre != "exists-keep"
        # ---------------- run the real export ----------------
        ctx.mon("export.called")
        plan = []  # (file name, item, expect)
        try:
            with _Quiet():
                if mode == "system":
                    e = system.export(base, folder_name, sol, overwrite=overwrite, fps=fps)
                    exportable = [c for c in system.contributions if hasattr(c, "export")]
                    by_contr = {id(it["contr"]): it for it in items}
                    for c in exportable:
                        it = by_contr.get(id(c))
                        if it is None:
                            it = dict(contr=c, name=c.name, tag="unmodelled:" + type(c).__name__ + ":" + c.name, expect=exp_via_export(c), via_export=True)
                        plan.append((c.name, it, it["expect"]))
                else:
                    e = C["Export"](base, folder_name, overwrite, fps, sol, write_ascii=write_ascii)
                    pool = list(items)
                    rng.shuffle(pool)
                    if name == "contact-offset":
                        pool = [it for it in items if it["tag"].startswith("Sphere2Plane:offset")] + pool[:2]
                    for it in pool[:6]:
                        r = rng.random()
                        if "base_expect" in it and r < 0.4:
                            e.export_contr(it["contr"], base_export=True, file_name=it["name"] + "_base")
                            plan.append((it["name"] + "_base", dict(it, tag=it["tag"] + ":base_export"), it["base_expect"]))
                        elif r < 0.6:
                            e.export_contr(it["contr"], file_name="custom_" + it["name"])
                            plan.append(("custom_" + it["name"], it, it["expect"]))
                        else:
                            e.export_contr(it["contr"])
                            plan.append((it["name"], it, it["expect"]))
                    # the same contribution once more: a second, differently named collection
                    again = pool[0]
                    if not any(p[0] == again["name"] for p in plan):
                        e.export_contr(again["contr"])
                        plan.append((again["name"], again, again["expect"]))
                    e.export_contr(again["contr"])
                    plan.append((again["name"] + "1", dict(again, tag=again["tag"] + ":repeated"), again["expect"]))
                    # lists of contributions of one type
                    groups = {}
                    for it in items:
                        if it.get("listable"):
                            groups.setdefault(it["listable"], []).append(it)
                    for gname, its in groups.items():
                        if len(its) >= 2 or (name == "list-export" and its):
                            its = list(its)
                            rng.shuffle(its)
                            fn = "list_" + gname
                            e.export_contr([i_["contr"] for i_ in its], file_name=fn)
                            plan.append((fn, dict(tag="list:" + gname, contact=any(i_.get("contact") for i_ in its)), exp_list([i_["expect"] for i_ in its])))
                            ctx.cls("list:" + gname)
                    # contacts with and without friction in one list (same class, different data arrays)
                    cons = [it for it in items if it.get("contact")]
                    if len({it["listable"] for it in cons}) == 2 and (name == "list-ragged" or rng.random() < 0.15):
                        e.export_contr([i_["contr"] for i_ in cons], file_name="list_contacts_mixed")
                        plan.append(("list_contacts_mixed", dict(tag="list:Sphere2Plane:mixed-friction", contact=True, islist=True),
                                     exp_list([i_["expect"] for i_ in cons])))
        except Exception as exc:
            tb = traceback.extract_tb(exc.__traceback__)
            frames = [f.name for f in tb]
            key = None
            if (isinstance(exc, TypeError) and "unsupported operand type(s) for /: 'str' and 'str'" in str(exc)
                    and frames[-1] == "__create_vtk_folder" and use_str and pre == "exists-keep"):
                key = K_STRPATH
            ctx.cls("export:raised:" + (key or "unclassified"))
            ctx.violation("Export.__init__" if "__init__" in frames else "Export.export_contr",
                          "Export with a str path, overwrite=False and an existing folder raises TypeError (str / str)" if key
                          else f"export raised {type(exc).__name__}",
                          {**wit, "exception": f"{type(exc).__name__}: {exc}"[:300], "raised_in": frames[-3:]}, key=key)
            ctx.sig([params, "raised"], nontrivial=False)
            return
        ctx.mon("export.returned")
        folder = str(e.path)
        wit["folder"] = os.path.relpath(folder, tmp)
        # ---------------- overwrite semantics that touch the property ----------------
        if pre == "exists-keep":
            ctx.mon("overwrite.keep")
            if os.path.abspath(folder) == os.path.abspath(old_dir):
                ctx.violation("Export.__create_vtk_folder", "overwrite=False wrote into the existing export folder", wit)
            elif _hash_dir(old_dir) != old_hash:
                ctx.violation("Export.__create_vtk_folder", "overwrite=False changed the files listed by an earlier collection", wit)
        elif pre == "exists-overwrite":
            ctx.mon("overwrite.replace")
            ctx.count("stale_file_survived_overwrite", int(os.path.exists(os.path.join(folder, "stale_marker.vtu"))))
        # ---------------- decide every written collection ----------------
        cache = {}
        for fname, it, expect in plan:
            ctx.cls("contr:" + it["tag"])
            if verify_collection(ctx, folder, fname, it, expect, sol, fps, rng, wit, cache):
                nverified += 1
        # nothing else was written / nothing listed twice across collections
        ctx.mon("folder.inventory")
        present = set(os.listdir(folder))
        pvds = {p for p in present if p.endswith(".pvd")}
        want = {f"{p[0]}.pvd" for p in plan}
        listed = set().union(*cache.values()) if cache else set()
        extra = {p for p in present if p.endswith(".vtu")} - listed - {"stale_marker.vtu"}
        if pvds != want:
            ctx.violation("Export.export_contr", "set of collection files differs from the exported contributions",
                          {**wit, "present": sorted(pvds), "expected": sorted(want)})
        if sum(len(v) for v in cache.values()) != len(listed):
            ctx.violation("Export.export_contr", "two collections list the same data file", {**wit, "collections": sorted(cache)})
        if extra:
            ctx.violation("Export.export_contr", "data files were written that no collection lists", {**wit, "files": sorted(extra)[:6]})
        # data mode (recorded, not decided)
        anyfile = next((f_ for f_ in sorted(listed) if os.path.isfile(os.path.join(folder, f_))), None)
        if anyfile:
            fm = _file_mode(os.path.join(folder, anyfile))
            req = "ascii" if (mode == "contr" and write_ascii) else "binary"
            ctx.cls(f"datamode:requested-{req}:file-{fm}")
            ctx.count("datamode_differs_from_request", int(fm != req and fm != "none"))
    finally:
        shutil.rmtree(tmp, ignore_errors=True)
    moved = bool(np.max(np.abs(np.asarray(sol.q[-1]) - np.asarray(sol.q[0]))) > 1e-6) if sol.q.shape[1] else False
    ctx.sig([params, hashlib.sha1(np.ascontiguousarray(sol.q[-1]).tobytes()).hexdigest()],
            nontrivial=moved and nverified == len(plan) and len(expected_frames(sol.t, fps)[0]) >= 2)


def finalize(agg):
    reasons = []
    cl = agg["classes"]
    need = ["contr:RigidBody", "contr:PointMass", "contr:Force", "kind:contact", "kind:rod", "kind:bodies",
            "solver:Moreau", "solver:Rattle", "mode:system", "mode:contr", "pre:fresh", "pre:exists-overwrite", "pre:exists-keep"]
    for n in need:
        if cl.get(n, 0) == 0:
            reasons.append(f"stratum '{n}' was never exercised")
    if not any(k.startswith("contr:Meshed") for k in cl):
        reasons.append("no Meshed/Box/Sphere/Cylinder wrapper was exported")
    if not any(k.startswith("contr:Sphere2Plane") for k in cl):
        reasons.append("no contact was exported")
    if not any(k.startswith("contr:Rod") for k in cl):
        reasons.append("no rod was exported")
    if not any(k.startswith("contr:Frame:moving") or k.startswith("contr:Frame:translating") for k in cl):
        reasons.append("no moving frame was exported")
    st = [k for k in cl if k.startswith("stride:")]
    if len(st) < 3:
        reasons.append("fewer than 3 different subsampling strides were exercised")
    return reasons


META = {
    "level_text": "Exploration: seeded random systems are simulated with the real Moreau/Rattle solvers and exported with the real "
                  "System.export / Export.export_contr into a temporary directory; every written .pvd is parsed with minidom and "
                  "every (sampled) .vtu is read with vtkXMLUnstructuredGridReader and compared with the geometry evaluated from the "
                  "original solution at the independently computed frame indices. Held on the exports generated, not a proof.",
    "level_note": "Point coordinates are float32 in the files (VTK default) and compared at float32 resolution; rod 'volume' and "
                  "'NodalVolume' levels are compared with contr.export() on the original frame (frame selection and writing only); "
                  "more than 14 frames per collection are sampled (first two, last, 9 random); binary/ASCII mode is recorded, not decided.",
    "technique": "runtime reference-model monitor on the files written by the real exporter (read back with VTK's own reader)",
}
