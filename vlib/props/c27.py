"""C27 Contact proximal maps are exact projections."""

import numpy as np
from vlib import env
from vlib.oracles import fd_jac, compare, loguniform, dense

ID = "C27"
LEVEL = "exploration"
RULE = ("each case is a seeded batch of inputs for one monitor kind (orthant / ball projection properties, "
        "ball residual Jacobian vs finite differences, active-set residual vs implicit function, prox-parameter "
        "estimate vs dense reference); distinct = distinct batch content hash; non-trivial = batch contains inputs "
        "on both sides of the set boundary (projection kinds) or decided comparisons (others)")
ASSUMPTIONS = ["float64; projection identities checked with relative tolerance 1e-12*(|x|+radius)",
               "Jacobian compared only at relative distance >= 1e-3 from the active-set boundary",
               "M random SPD with cond <= 1e8, W full column rank (smallest singular value >= 1e-3 * largest)"]
REQUIRED_MONITORS = ["orthant.projection", "ball.projection", "ball.degenerate", "ball.jacobian", "residual", "prox_parameter", "purity", "representation", "retention"]

KINDS = ["orthant", "ball", "ball_jac", "residual", "proxpar", "purity"]


def _sphere(rng, r, ctx=None):
    """Sphere with friction coefficient r; in a third of the cases the object is created with another coefficient (a friction
    sweep re-using one law object, a law switched on later, a copy that is changed) and r is assigned afterwards"""
    from cardillo.math.prox import Sphere
    import copy
    c = int(rng.integers(6))
    if c == 0:
        S = Sphere(float(rng.uniform(0, 2) * (r + 0.3))); S.r = r
    elif c == 1:
        S = copy.deepcopy(Sphere(0.0 if rng.random() < 0.5 else r * 3 + 1.0)); S.r = r
    else:
        return Sphere(r)
    if ctx is not None:
        ctx.cls("ball:coefficient_assigned_after_construction")
    return S


def cases(tier, seed):
    n = {"quick": 400, "thorough": 12000}[tier]
    return [{"kind": KINDS[i % len(KINDS)], "batch": 25} for i in range(n)]


def _vec(rng, n):
    mag = loguniform(rng, 1e-12, 1e12) if rng.random() < 0.7 else loguniform(rng, 0.1, 10)
    x = rng.normal(size=n) * mag
    if rng.random() < 0.1:
        x[rng.integers(n)] = 0.0
    if rng.random() < 0.15:  # wide dynamic range between components
        x *= loguniform(rng, 1e-6, 1e6, size=n)
    return x


def _z(rng):
    r = rng.random()
    if r < 0.12:
        return 0.0
    s = -1.0 if r < 0.35 else 1.0
    return s * loguniform(rng, 1e-6, 1e6)


def run_case(spec, ctx):
    env.import_cardillo()
    from cardillo.math.prox import NegativeOrthant, Sphere, estimate_prox_parameter

    rng = ctx.rng
    kind = spec["kind"]
    sig = []
    both_sides = [False, False]
    if kind == "purity":
        # the proximal maps are pure functions of their arguments (Sphere keeps only the friction coefficient)
        from vlib.oracles import purity_check
        thunks = []
        ball = Sphere(float(loguniform(rng, 1e-2, 1e2)))
        for b in range(spec["batch"]):
            n = int(rng.integers(1, 5))
            x, z = _vec(rng, n), _z(rng)
            sig.append([x.tolist(), z])
            thunks.append(("NegativeOrthant.prox", {"x": x}, (lambda a=x: NegativeOrthant.prox(a.copy()))))
            thunks.append(("Sphere.prox", {"x": x, "z": z, "r": ball.r}, (lambda a=x, c=z: ball.prox(a.copy(), c))))
            thunks.append(("Sphere.prox", {"x": x, "z": z, "r": ball.r, "instance": "fresh"}, (lambda a=x, c=z: Sphere(ball.r).prox(a.copy(), c))))
        # residual and Jacobian of the shared instance at unrelated points, in seeded random order (Newton evaluates the residual at
        # one iterate and the Jacobian at another)
        for b in range(spec["batch"]):
            n3 = int(rng.integers(1, 4))
            x3, y3, z3, rho3 = _vec(rng, n3), rng.normal(size=n3) * loguniform(rng, 1e-3, 1e3), np.array([_z(rng)]), float(loguniform(rng, 1e-2, 1e2))
            for act in (True, False):
                thunks.append(("Sphere.residual", {"x": x3, "y": y3, "z": z3, "rho": rho3, "active_set": act},
                               (lambda a=x3, b_=y3, c=z3, r_=rho3, act=act: ball.residual(a.copy(), b_.copy(), c.copy(), r_, act))))
                thunks.append(("Sphere.Jacobian", {"x": x3, "y": y3, "z": z3, "rho": rho3, "active_set": act},
                               (lambda a=x3, b_=y3, c=z3, r_=rho3, act=act: ball.Jacobian(a.copy(), b_.copy(), c.copy(), r_, act))))
        purity_check(ctx, rng, thunks, mon="purity", scribble=True)
        from vlib.oracles import retention_check
        retention_check(ctx, thunks, mon="retention")
        from vlib.oracles import representation_check
        calls = []
        for name, d, _ in thunks[:60]:
            if name == "NegativeOrthant.prox":
                calls.append((name, NegativeOrthant.prox, (np.array(d["x"], copy=True),), {}))
            elif "instance" not in d:
                calls.append((name, ball.prox, (np.array(d["x"], copy=True), d["z"]), {}))
                if d["x"].size:
                    rho_ = float(loguniform(rng, 1e-2, 1e2)); y_ = rng.normal(size=d["x"].size)
                    zz_ = np.array([d["z"]], dtype=float)
                    for act_ in (False, True):
                        calls.append(("Sphere.residual", ball.residual, (np.array(d["x"], copy=True), y_, zz_, rho_, act_), {}))
                        calls.append(("Sphere.Jacobian", ball.Jacobian, (np.array(d["x"], copy=True), y_, zz_, rho_, act_), {}))
        representation_check(ctx, calls, mon="representation")
        # work arrays: a Newton / fixed-point loop keeps ONE x and ONE y array and updates their contents in place between
        # calls; what the ball answers must depend on the contents, not on the identity of the arrays
        for _ in range(4):
            n = int(rng.integers(1, 5))
            xw, yw = np.zeros(n), np.zeros(n)
            rho = float(loguniform(rng, 1e-3, 1e3))                 # one prox parameter for the whole loop, as in a solver
            act = bool(rng.random() < 0.3)                          # both branches of the implicit residual, whatever the true active set is
            z = _z(rng)
            for it in range(4):
                xw[:] = _vec(rng, n); yw[:] = _vec(rng, n)
                if rng.random() < 0.3:
                    z = _z(rng)
                ctx.mon("purity")
                zz = np.array([z])
                try:
                    got = [np.array(ball.prox(xw, z)), np.array(ball.residual(xw, yw, zz, rho, act)), *[np.array(J) for J in ball.Jacobian(xw, yw, zz, rho, act)]]
                    fresh = Sphere(ball.r)
                    ref = [np.array(fresh.prox(xw.copy(), z)), np.array(fresh.residual(xw.copy(), yw.copy(), zz.copy(), rho, act)),
                           *[np.array(J) for J in fresh.Jacobian(xw.copy(), yw.copy(), zz.copy(), rho, act)]]
                except Exception as e:
                    ctx.count(f"workarray_exception:{type(e).__name__}")
                    break
                if any(a.shape != b.shape or not np.array_equal(a, b, equal_nan=True) for a, b in zip(got, ref)):
                    ctx.violation("Sphere.residual/Jacobian", "result for work arrays updated in place differs from the result for fresh copies of the same values (depends on the call history)",
                                  {"x": xw.copy(), "y": yw.copy(), "z": z, "rho": rho, "r": ball.r, "iteration": it})
                    break
        ctx.cls("kind:purity")
        ctx.sig([kind, sig[:3]], nontrivial=True)
        ctx.sample({"kind": kind, "calls": len(thunks)})
        return
    for b in range(spec["batch"]):
        if kind == "orthant":
            n = int(rng.integers(1, 5))
            x, y = _vec(rng, n), _vec(rng, n)
            if rng.random() < 0.3:
                y = x + rng.normal(size=n) * 1e-3 * np.abs(x).max()
            x0 = x.copy()
            p, py = NegativeOrthant.prox(x), NegativeOrthant.prox(y)
            ctx.mon("orthant.projection")
            sig.append(x.tolist())
            both_sides[0] |= bool(np.any(x > 0)); both_sides[1] |= bool(np.any(x < 0))
            det = {"x": x, "prox": p}
            if not np.array_equal(x, x0):
                ctx.violation("NegativeOrthant.prox", "input mutated", det)
            if p.shape != x.shape or not np.array_equal(p, np.where(x < 0, x, 0.0)):
                ctx.violation("NegativeOrthant.prox", "not the closed-form projection min(x,0)", det)
            if np.any(p > 0):
                ctx.violation("NegativeOrthant.prox", "infeasible output", det)
            if not np.array_equal(NegativeOrthant.prox(p), p):
                ctx.violation("NegativeOrthant.prox", "not idempotent", det)
            if np.linalg.norm(p - py) > np.linalg.norm(x - y) * (1 + 1e-12):
                ctx.violation("NegativeOrthant.prox", "expansive", {**det, "y": y, "prox_y": py})
            yf = -np.abs(_vec(rng, n))  # feasible point
            if (x - p) @ (yf - p) > 1e-12 * (np.linalg.norm(x) + 1e-300) * (np.linalg.norm(yf) + np.linalg.norm(p)):
                ctx.violation("NegativeOrthant.prox", "projection inequality violated", {**det, "feasible_y": yf})
        elif kind == "ball":
            n = int(rng.integers(1, 5))
            r = float(rng.uniform(0, 1)) if rng.random() < 0.8 else float(loguniform(rng, 1e-3, 1e3))
            z = _z(rng)
            x = _vec(rng, n)
            radius = max(0.0, r * z)
            u = rng.random()
            if radius > 0 and u < 0.5:  # place x relative to the boundary
                d = rng.normal(size=n); d /= np.linalg.norm(d)
                fac = [0.5, 1 - 1e-12, 1.0, 1 + 1e-12, 2.0, 1e6][int(rng.integers(6))]
                x = d * radius * fac
            zz = np.array([z]) if rng.random() < 0.5 else z
            S = _sphere(rng, r, ctx)
            x0 = x.copy()
            p = np.asarray(S.prox(x, zz), dtype=float)
            y = _vec(rng, n) if rng.random() < 0.5 else x + rng.normal(size=n) * 1e-3 * (np.abs(x).max() + 1e-300)
            py = np.asarray(S.prox(y, zz), dtype=float)
            nx = np.linalg.norm(x)
            expect = x if nx <= radius else (radius * x / nx if nx > 0 else x)
            # the projection of an outside point has the magnitude of the radius, however large the argument is: its accuracy
            # is judged on that scale (a point 1e12 radii away must still land ON the sphere, not merely near it relative to |x|)
            tol = 1e-12 * (nx if nx <= radius else radius) + 1e-300
            det = {"x": x, "r": r, "z": z, "radius": radius, "prox": p, "expected": expect}
            sig.append([x.tolist(), r, z])
            both_sides[0] |= nx <= radius; both_sides[1] |= nx > radius
            if radius == 0.0:
                ctx.mon("ball.degenerate")
                if np.any(p != 0):
                    ctx.violation("Sphere.prox", "ball with r*z <= 0 must be {0}", det)
            ctx.mon("ball.projection")
            if not np.array_equal(x, x0):
                ctx.violation("Sphere.prox", "input mutated", det)
            if p.shape != x.shape or np.max(np.abs(p - expect)) > tol:
                ctx.violation("Sphere.prox", "not the closed-form projection onto the ball", det)
                continue
            if np.linalg.norm(p) > radius * (1 + 1e-12) + 1e-300:
                ctx.violation("Sphere.prox", "infeasible output", det)
            pp = np.asarray(S.prox(p, zz), dtype=float)
            if np.max(np.abs(pp - p)) > tol:
                ctx.violation("Sphere.prox", "not idempotent", det)
            if np.linalg.norm(p - py) > np.linalg.norm(x - y) * (1 + 1e-9) + 1e-300:
                ctx.violation("Sphere.prox", "expansive", {**det, "y": y, "prox_y": py})
            yf = rng.normal(size=n); yf *= radius * rng.random() / (np.linalg.norm(yf) + 1e-300)
            if (x - p) @ (yf - p) > 1e-9 * (nx + 1e-300) * (radius + 1e-300):
                ctx.violation("Sphere.prox", "projection inequality violated", {**det, "feasible_y": yf})
        elif kind == "ball_jac":
            n = int(rng.integers(1, 5))
            r = float(rng.uniform(0.05, 1))
            z = float(loguniform(rng, 1e-2, 1e2)) * (1 if rng.random() < 0.7 else -1)
            rho = float(loguniform(rng, 1e-2, 1e2))
            radius = max(0.0, r * z)
            y = rng.normal(size=n) * loguniform(rng, 1e-2, 1e2)
            d = rng.normal(size=n); d /= np.linalg.norm(d)
            if radius > 0:
                fac = [0.3, 0.9, 1.1, 3.0, 30.0][int(rng.integers(5))]
            else:
                fac = None
            arg = d * (radius * fac if radius > 0 else loguniform(rng, 1e-2, 1e2))
            x = (arg + y) / rho
            S = _sphere(rng, r, ctx)
            zz = np.array([z])
            act = S.active_set(x, y, zz, rho)
            # distance from the boundary (relative)
            na = np.linalg.norm(rho * x - y)
            if radius > 0 and abs(na - radius) < 1e-3 * max(na, radius):
                continue
            Jx, Jy, Jz = S.Jacobian(x, y, zz, rho, act)
            sig.append([x.tolist(), y.tolist(), z, rho, r])
            both_sides[0] |= bool(act); both_sides[1] |= not act
            # positive homogeneity: scaling x, y and z by s > 0 scales the projection and the residual by s and leaves the
            # Jacobian unchanged - percussions of order 1e-12 (tiny steps) or forces of order 1e9 are the same problem
            s_ = float(10.0 ** rng.uniform(-14, -8)) if rng.random() < 0.6 else float(10.0 ** rng.uniform(5, 11))
            try:
                res1 = np.asarray(S.residual(x, y, zz, rho, act), dtype=float)
                res2 = np.asarray(S.residual(s_ * x, s_ * y, s_ * zz, rho, act), dtype=float)
                J2 = S.Jacobian(s_ * x, s_ * y, s_ * zz, rho, act)
            except Exception as e_:
                ctx.violation("Sphere.residual", "raises for a rescaled argument", {"x": x, "y": y, "z": z, "rho": rho, "r": r, "scale": s_, "error": f"{type(e_).__name__}: {e_}"[:200]})
            else:
                ctx.mon("ball.homogeneity")
                ctx.cls("scale:tiny" if s_ < 1 else "scale:huge")
                if np.max(np.abs(res2 - s_ * res1)) > 1e-9 * s_ * (np.max(np.abs(res1)) + np.max(np.abs(x)) + np.max(np.abs(y))):
                    ctx.violation("Sphere.residual", "residual is not positively homogeneous (scaled arguments do not give the scaled residual)",
                                  {"x": x, "y": y, "z": z, "rho": rho, "r": r, "scale": s_, "residual": res1, "residual_scaled_arguments": res2})
                for nm_, Ja, Jb in zip(("Jx", "Jy", "Jz"), (Jx, Jy, Jz), J2):
                    Ja, Jb = np.asarray(dense(Ja), dtype=float), np.asarray(dense(Jb), dtype=float)
                    if Ja.shape != Jb.shape or np.max(np.abs(Ja - Jb)) > 1e-8 * (1 + np.max(np.abs(Ja))):
                        ctx.violation(f"Sphere.Jacobian.{nm_}", "reported Jacobian changes when all arguments are scaled by a positive factor",
                                      {"x": x, "y": y, "z": z, "rho": rho, "r": r, "scale": s_, "J": Ja, "J_scaled_arguments": Jb})
                        break
            hrel = 1e-5
            for name, J, f, v in (
                ("Jx", Jx, lambda v_: S.residual(v_, y, zz, rho, act), x),
                ("Jy", Jy, lambda v_: S.residual(x, v_, zz, rho, act), y),
                ("Jz", Jz, lambda v_: S.residual(x, y, v_, rho, act), zz),
            ):
                D, err = fd_jac(f, v, hrel)
                c = compare(J, D, err, floor=1e-6)
                ctx.mon("ball.jacobian")
                ctx.cls(f"jac:{'active' if act else 'inactive'}:{'z>0' if z > 0 else 'z<0'}")
                if not c.ok:
                    ctx.violation(f"Sphere.Jacobian.{name}", "reported Jacobian differs from derivative of residual",
                                  {**c.detail(), "x": x, "y": y, "z": z, "rho": rho, "r": r, "active": bool(act)})
                elif c.undecided:
                    ctx.undecided("ball jacobian oracle noisy")
        elif kind == "residual":
            n = int(rng.integers(1, 5))
            rho = float(loguniform(rng, 1e-3, 1e3))
            x, y = _vec(rng, n), _vec(rng, n)
            if rng.random() < 0.5:
                y = rho * x + rng.normal(size=n) * np.abs(rho * x).max() * [1e-9, 1e-3, 1.0][int(rng.integers(3))]
            sig.append([x.tolist(), y.tolist(), rho])
            # orthant: f(x,y) = y + prox(rho x - y); zero set equals that of where(active, x, y)
            act = NegativeOrthant.active_set(x, y, rho)
            res = NegativeOrthant.residual(x, y, act)
            full = y + NegativeOrthant.prox(rho * x - y)
            expect = np.where(act, full / rho, full)
            ctx.mon("residual")
            both_sides[0] |= bool(np.any(act)); both_sides[1] |= bool(np.any(~act))
            if np.max(np.abs(res - expect)) > 1e-12 * (np.abs(x).max() + np.abs(y).max() / rho + np.abs(y).max()):
                ctx.violation("NegativeOrthant.residual", "active-set residual is not the (row-scaled) implicit function y+prox(rho*x-y)",
                              {"x": x, "y": y, "rho": rho, "residual": res, "expected": expect})
            Jg, Jh = NegativeOrthant.Jacobian(act)
            if not (np.array_equal(dense(Jg), np.diag(act.astype(float))) and np.array_equal(dense(Jh), np.diag((~act).astype(float)))):
                ctx.violation("NegativeOrthant.Jacobian", "not the derivative of the active-set residual", {"active": act})
            # ball
            r = float(rng.uniform(0, 1)); z = _z(rng)
            S = _sphere(rng, r, ctx)
            zz = np.array([z])
            a2 = S.active_set(x, y, zz, rho)
            res2 = np.asarray(S.residual(x, y, zz, rho, a2), dtype=float)
            full2 = y + np.asarray(S.prox(rho * x - y, zz), dtype=float)
            expect2 = full2 / rho if a2 else full2
            ctx.mon("residual")
            if np.max(np.abs(res2 - expect2)) > 1e-9 * (np.abs(x).max() + np.abs(y).max() * (1 + 1 / rho) + max(0, r * z)):
                ctx.violation("Sphere.residual", "active-set residual is not the (scaled) implicit function y+prox(rho*x-y)",
                              {"x": x, "y": y, "rho": rho, "r": r, "z": z, "active": bool(a2), "residual": res2, "expected": expect2})
        elif kind == "proxpar":
            from scipy.sparse import csc_array, coo_array
            nu = int(rng.integers(1, 9))
            cols = int(rng.integers(0, min(nu, 6) + 1))
            if rng.random() < 0.15:
                # many bodies with many active contacts: dozens of force directions
                nu = int(rng.integers(30, 90))
                cols = int(rng.integers(20, nu + 1))
            Q, _ = np.linalg.qr(rng.normal(size=(nu, nu)))
            cond = loguniform(rng, 1, 1e8)
            ev = np.exp(rng.uniform(0, np.log(cond), size=nu)) * loguniform(rng, 1e-3, 1e3)
            M = (Q * ev) @ Q.T
            M = 0.5 * (M + M.T)
            if cols:
                U, _ = np.linalg.qr(rng.normal(size=(nu, cols)))
                V, _ = np.linalg.qr(rng.normal(size=(cols, cols)))
                sv = np.exp(rng.uniform(np.log(1e-3), 0, size=cols)) * loguniform(rng, 1e-3, 1e3)
                W = (U * sv) @ V.T
                if rng.random() < 0.3:
                    W[np.abs(W) < 0.2 * np.abs(W).max()] = 0.0
                    if np.linalg.matrix_rank(W) < cols:
                        W = (U * sv) @ V.T
            else:
                W = np.zeros((nu, 0))
            alpha = float(rng.uniform(0.05, 1.95))
            fmt = int(rng.integers(3))
            Wa = [W, csc_array(W), coo_array(W)][fmt]
            Ma = [M, csc_array(M), coo_array(M)][int(rng.integers(3))]
            sig.append([nu, cols, alpha, float(cond)])
            import warnings
            with warnings.catch_warnings():
                warnings.simplefilter("ignore")
                est = np.asarray(estimate_prox_parameter(alpha, Wa, Ma), dtype=float)
            ctx.mon("prox_parameter")
            ctx.cls(f"proxpar:cols={cols}")
            det = {"nu": nu, "cols": cols, "alpha": alpha, "cond_M": float(cond), "estimate": est}
            if est.shape != (cols,) or not np.all(np.isfinite(est)) or np.any(est <= 0):
                ctx.violation("estimate_prox_parameter", "estimate not positive finite with one entry per column", det)
                continue
            if cols:
                ref = alpha / np.einsum("ij,ij->j", W, np.linalg.solve(M, W))
                if np.max(np.abs(est - ref) / ref) > 1e-6 * max(1.0, cond * 1e-8):
                    ctx.violation("estimate_prox_parameter", "differs from alpha/diag(W^T M^-1 W)", {**det, "reference": ref})
            both_sides = [True, True]
    ctx.sig([kind, sig], nontrivial=all(both_sides) and len(sig) > 0)
    ctx.cls(f"kind:{kind}")
    ctx.sample({"kind": kind, "first_input": sig[0] if sig else None, "batch": len(sig)})

META = {
    "level_text": "Exploration: the real prox functions are run on seeded hostile inputs (dimension 1-4, magnitudes 1e-12..1e12, z of both signs and 0) and every return value is decided by the closed-form projection, the variational inequality and finite differences of the residual; held on the inputs generated, not a proof.",
    "level_note": "float64 inputs only; Jacobian compared away from the active-set boundary (relative distance 1e-3); reference = closed-form projection and dense numpy solve.",
    "technique": "runtime return-value monitors with closed-form reference model and finite-difference oracle + representation twins",
}
