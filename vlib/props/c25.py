"""C25 Revolute joint angle tracks the accumulated relative rotation.

A real assembled ``cardillo.System`` with one ``Revolute`` joint is driven
through a *history* of relative rotations about the joint axis by constructing
the generalized coordinates directly (independent forward kinematics in this
module: rotation matrices -> quaternions).  After every increment the real
``Revolute.l`` / ``Revolute.angle`` is queried and compared with a one-float
accumulator ``angle0 + sum(delta)``; ``l_dot`` / ``angle_dot`` is compared with
``(Omega2 - Omega1) . e_axis`` computed from the harness' own kinematics.
"""

import io
import contextlib

import numpy as np

from vlib import env
from vlib.gen import quiet as gen_quiet

ID = "C25"
LEVEL = "exploration"
RULE = ("one case = one history (10..400 increments, each in (-pi/2, pi/2)) of relative rotations about the axis of a "
        "Revolute joint in a freshly assembled cardillo.System (origin-body, fixed frame-body, moving frame-body or "
        "body-body; random axis index, joint orientation, joint point, angle0, body poses, non-unit quaternions); "
        "distinct = distinct (spec, first increments, angle0) hash; non-trivial = the accumulated rotation changes "
        "quadrant at least once along the history")
ASSUMPTIONS = [
    "oracle: float64 accumulator phi += delta; the configuration is built from phi itself (no composition of "
    "increments), so the effective increment differs from delta by at most ulp(phi) ~ 1e-13",
    "increments keep a margin >= 1e-11 from +-pi/2 (above the rounding of the constructed configuration, ~1e-15, and "
    "of the accumulator); |angle0| <= 100, |phi| <= ~650, tolerance on angles 1e-9 absolute",
    "angle rate tolerance 1e-9 * max(1, |Omega1| + |Omega2|)",
    "reset is checked by replaying a history from the initial configuration after reset() (the tracking state after "
    "assembly is the reference meaning of 'initial tracking state')",
    "moving-frame systems are assembled with compute_consistent_initial_conditions=False (frame velocity is not zero "
    "at t0); all others with the default assemble()",
]
REQUIRED_MONITORS = ["angle", "angle_dot", "repeat", "reset_replay"]
CASE_TIMEOUT = 120
WALL_BUDGET = {"quick": 300, "thorough": 1500}

TOL = 1e-9
HALF = 0.5 * np.pi
MARGIN_MIN = 1e-11

KINDS = ["random", "mono+", "mono-", "zigzag", "near_quarter", "repeated", "resets", "landing", "tiny", "mixed", "exact_quarters"]
TOPOS = ["origin-body", "frame-body", "body-body", "movingframe-body"]


# ---------------------------------------------------------------------------
# case list
# ---------------------------------------------------------------------------
def cases(tier, seed):
    n = {"quick": 400, "thorough": 20000}[tier]
    out = []
    # directed cases: one per (kind, topo-class, axis) corner first
    for k, kind in enumerate(KINDS):
        for axis in range(3):
            out.append({"kind": kind, "topo": TOPOS[(k + axis) % len(TOPOS)], "axis": axis, "directed": True})
    i = 0
    while len(out) < n:
        out.append({"kind": KINDS[i % len(KINDS)], "topo": TOPOS[(i // len(KINDS) + i) % len(TOPOS)],
                    "axis": (i // 7) % 3, "directed": False})
        i += 1
    return out[:n]


# ---------------------------------------------------------------------------
# independent kinematics
# ---------------------------------------------------------------------------
def _skew(a):
    return np.array([[0, -a[2], a[1]], [a[2], 0, -a[0]], [-a[1], a[0], 0.0]])


def _rot(e, phi):
    """rotation about the unit vector e by phi (Rodrigues, exact sin/cos of phi)"""
    K = _skew(e)
    return np.eye(3) + np.sin(phi) * K + (1.0 - np.cos(phi)) * (K @ K)


def _rand_rot(rng):
    P = rng.normal(size=4)
    P /= np.linalg.norm(P)
    return _quat2mat(P)


def _quat2mat(P):
    w, x, y, z = P / np.linalg.norm(P)
    return np.array([
        [1 - 2 * (y * y + z * z), 2 * (x * y - w * z), 2 * (x * z + w * y)],
        [2 * (x * y + w * z), 1 - 2 * (x * x + z * z), 2 * (y * z - w * x)],
        [2 * (x * z - w * y), 2 * (y * z + w * x), 1 - 2 * (x * x + y * y)],
    ])


def _mat2quat(R):
    """Shepperd's method, unit quaternion (w, x, y, z)"""
    t = np.trace(R)
    d = [t, R[0, 0], R[1, 1], R[2, 2]]
    k = int(np.argmax(d))
    if k == 0:
        w = 0.5 * np.sqrt(max(1 + t, 0.0))
        P = np.array([w, (R[2, 1] - R[1, 2]) / (4 * w), (R[0, 2] - R[2, 0]) / (4 * w), (R[1, 0] - R[0, 1]) / (4 * w)])
    else:
        i = k - 1
        j, l = (i + 1) % 3, (i + 2) % 3
        s = 0.5 * np.sqrt(max(1 + R[i, i] - R[j, j] - R[l, l], 0.0))
        v = np.zeros(3)
        v[i] = s
        v[j] = (R[j, i] + R[i, j]) / (4 * s)
        v[l] = (R[l, i] + R[i, l]) / (4 * s)
        w = (R[l, j] - R[j, l]) / (4 * s)
        P = np.array([w, *v])
    return P / np.linalg.norm(P)


def _orthonormalize(R):
    U, _, Vt = np.linalg.svd(R)
    return U @ Vt


def _quadrant(phi):
    return int(np.floor(phi / HALF)) % 4


# ---------------------------------------------------------------------------
# history generators: list of increments, each strictly inside (-pi/2, pi/2)
# ---------------------------------------------------------------------------
def _loguniform(rng, lo, hi):
    return float(np.exp(rng.uniform(np.log(lo), np.log(hi))))


def _clip(d):
    lim = HALF - MARGIN_MIN
    return float(min(max(d, -lim), lim))


def _goto(phi, target):
    """increments that bring phi to target with steps < quarter turn"""
    out = []
    while abs(target - phi) > 1.4:
        s = 1.3 * np.sign(target - phi)
        out.append(float(s))
        phi = phi + s
    out.append(_clip(target - phi))
    return out


def _history(kind, rng, n):
    if kind == "exact_quarters":
        # eighth turns forwards and backwards: every second configuration is an EXACT multiple of a quarter turn (built from a
        # whole-number quaternion about a coordinate axis of a coordinate-aligned joint, see _config)
        out, sgn = [], (1.0 if rng.random() < 0.5 else -1.0)
        while len(out) < min(n, 160):
            run = int(rng.integers(3, 30))
            out += [sgn * 0.25 * np.pi] * run
            sgn = -sgn if rng.random() < 0.6 else sgn
        return out
    if kind == "random":
        return [_clip(rng.uniform(-HALF, HALF)) for _ in range(n)]
    if kind in ("mono+", "mono-"):
        sgn = 1.0 if kind == "mono+" else -1.0
        out = []
        big = rng.random() < 0.5
        while len(out) < n or abs(sum(out)) < 2 * np.pi * 5.2:
            d = rng.uniform(0.6, HALF) if big else rng.uniform(1e-3, HALF)
            out.append(_clip(sgn * d))
            if len(out) >= 400:
                big = True
            if len(out) > 440:
                break
        return out
    if kind == "zigzag":
        out, phi = [], 0.0
        while len(out) < n:
            k = int(rng.integers(-24, 25))
            b = k * HALF
            for d in _goto(phi, b + rng.uniform(-0.3, 0.3)):
                out.append(d); phi += d
            amp = _loguniform(rng, 1e-13, 0.7)
            # hop to one side of the boundary, then back and forth over it
            d = _clip((b + amp * 0.5) - phi)
            out.append(d); phi += d
            for _ in range(int(rng.integers(3, 12))):
                side = -1.0 if phi > b else 1.0
                target = b + side * amp * rng.uniform(0.2, 1.0)
                d = _clip(target - phi)
                out.append(d); phi += d
        return out[: max(n, 10)]
    if kind == "near_quarter":
        out = []
        s = 1.0 if rng.random() < 0.5 else -1.0
        mode = int(rng.integers(3))
        for i in range(n):
            m = _loguniform(rng, MARGIN_MIN, 1e-3)
            if mode == 0:      # alternating
                s = -s
            elif mode == 1:    # runs of the same sign
                if rng.random() < 0.15:
                    s = -s
            else:              # random sign
                s = 1.0 if rng.random() < 0.5 else -1.0
            out.append(s * (HALF - m))
        return out
    if kind == "landing":
        # land (up to rounding) exactly on multiples of pi/2, then move by tiny / quarter-ish steps
        out, phi = [], 0.0
        while len(out) < n:
            k = int(rng.integers(-30, 31))
            for d in _goto(phi, k * HALF):
                out.append(d); phi += d
            r = rng.random()
            if r < 0.3:
                d = _loguniform(rng, 1e-16, 1e-6) * (1 if rng.random() < 0.5 else -1)
            elif r < 0.6:
                d = (HALF - _loguniform(rng, MARGIN_MIN, 1e-6)) * (1 if rng.random() < 0.5 else -1)
            elif r < 0.8:
                d = 0.0
            else:
                d = _clip(rng.uniform(-HALF, HALF))
            out.append(d); phi += d
        return out[: max(n, 10)]
    if kind == "tiny":
        out, phi = [], 0.0
        if rng.random() < 0.7:
            for d in _goto(0.0, int(rng.integers(-12, 13)) * HALF):
                out.append(d); phi += d
        while len(out) < n:
            r = rng.random()
            if r < 0.2:
                out.append(0.0)
            else:
                out.append(_loguniform(rng, 1e-17, 1e-3) * (1 if rng.random() < 0.5 else -1))
        return out
    # repeated / resets / mixed use a blend
    out = []
    while len(out) < n:
        sub = ["random", "mono+", "mono-", "near_quarter", "tiny"][int(rng.integers(5))]
        m = int(rng.integers(3, 40))
        out.extend(_history(sub, rng, m)[:m])
    return out[:n]


# ---------------------------------------------------------------------------
# the system under observation + harness model of it
# ---------------------------------------------------------------------------
class _Rig:
    pass


def _pose_q(r, R, scale=1.0, flip=False):
    P = _mat2quat(R) * scale
    if flip:
        P = -P
    return np.concatenate([r, P])


def _build(spec, rng, ctx):
    from cardillo import System
    from cardillo.constraints import Revolute
    from cardillo.discrete import RigidBody, Frame
    from cardillo.solver import SolverOptions

    topo, axis = spec["topo"], spec["axis"]
    exact = spec["kind"] == "exact_quarters"
    if exact:
        topo = "origin-body"
    rig = _Rig()
    rig.exact = exact
    rig.topo, rig.axis = topo, axis
    mag = _loguniform(rng, 1e-2, 1e2)
    system = System()
    theta = np.diag(rng.uniform(0.5, 2.0, size=3))

    rig.t = 0.0
    rig.frame_w = None
    if topo == "origin-body":
        sub1 = system.origin
        rig.R1_0, rig.r1_0 = np.eye(3), np.zeros(3)
        body1 = None
    elif topo == "frame-body":
        rig.R1_0, rig.r1_0 = _rand_rot(rng), rng.normal(size=3) * mag
        sub1 = Frame(r_OP=rig.r1_0.copy(), A_IB=rig.R1_0.copy(), name="frame1")
        body1 = None
    elif topo == "movingframe-body":
        R0, r0 = _rand_rot(rng), rng.normal(size=3) * mag
        nvec = rng.normal(size=3); nvec /= np.linalg.norm(nvec)
        w = float(rng.uniform(-3, 3))
        v = rng.normal(size=3)
        rig.frame = (R0, r0, nvec, w, v)
        rig.frame_w = R0 @ (w * nvec)
        sub1 = Frame(
            r_OP=lambda t, r0=r0, v=v: r0 + v * t,
            r_OP_t=lambda t, v=v: v.copy(),
            r_OP_tt=lambda t: np.zeros(3),
            A_IB=lambda t, R0=R0, nvec=nvec, w=w: R0 @ _rot(nvec, w * t),
            A_IB_t=lambda t, R0=R0, nvec=nvec, w=w: R0 @ _rot(nvec, w * t) @ _skew(w * nvec),
            A_IB_tt=lambda t, R0=R0, nvec=nvec, w=w: R0 @ _rot(nvec, w * t) @ _skew(w * nvec) @ _skew(w * nvec),
            name="frame1",
        )
        rig.R1_0, rig.r1_0 = R0, r0
        body1 = None
    else:
        rig.R1_0, rig.r1_0 = _rand_rot(rng), rng.normal(size=3) * mag
        body1 = RigidBody(float(rng.uniform(0.5, 2)), theta, _pose_q(rig.r1_0, rig.R1_0, flip=rng.random() < 0.5),
                          name="body1")
        sub1 = body1
    rig.R2_0, rig.r2_0 = _rand_rot(rng), rng.normal(size=3) * mag
    if rng.random() < 0.15 or exact:
        rig.R2_0 = rig.R1_0.copy()  # aligned bodies
    body2 = RigidBody(float(rng.uniform(0.5, 2)), theta, _pose_q(rig.r2_0, rig.R2_0, flip=rng.random() < 0.5),
                      name="body2")

    # joint definition
    r = rng.random()
    if exact:
        r = 0.35 * rng.random() + 0.05      # default (the origin's basis) or identity: a coordinate-aligned joint
    if r < 0.3:
        A_IJ0, rig.cls_A = None, "A_IJ0:default(subsystem1)"
        A_eff = rig.R1_0
    elif r < 0.4:
        A_IJ0, rig.cls_A = np.eye(3), "A_IJ0:identity"
        A_eff = A_IJ0
    else:
        A_IJ0, rig.cls_A = _rand_rot(rng), "A_IJ0:random"
        A_eff = A_IJ0
    if rng.random() < 0.3:
        r_OJ0, rig.cls_r = None, "r_OJ0:default"
        r_eff = rig.r1_0
    else:
        r_OJ0, rig.cls_r = rng.normal(size=3) * mag, "r_OJ0:random"
        r_eff = r_OJ0
    a = rng.random()
    if a < 0.2:
        angle0 = 0.0
    elif a < 0.3:
        angle0 = float(int(rng.integers(-20, 21)) * HALF)
    else:
        angle0 = float(rng.uniform(-100, 100)) if rng.random() < 0.4 else float(rng.uniform(-np.pi, np.pi))
    rig.angle0 = angle0
    rig.default_angle0 = False
    if angle0 == 0.0 and rng.random() < 0.5:
        joint = Revolute(sub1, body2, axis, r_OJ0=None if r_OJ0 is None else r_OJ0.copy(),
                         A_IJ0=None if A_IJ0 is None else A_IJ0.copy())
        rig.default_angle0 = True
    else:
        # the initial angle as a user may hand it over: Python float, numpy scalar, 0-d array (np.asarray(x)), result of a
        # numpy expression
        rep = int(rng.integers(4))
        rig.angle0_arg = [angle0, np.float64(angle0), np.array(angle0), np.asarray(angle0) * 1.0][rep]
        ctx.cls("angle0_repr:" + ["float", "np.float64", "0-d array", "np.float64 (expression)"][rep])
        joint = Revolute(sub1, body2, axis, angle0=rig.angle0_arg, r_OJ0=None if r_OJ0 is None else r_OJ0.copy(),
                         A_IJ0=None if A_IJ0 is None else A_IJ0.copy())

    # harness model of the body-fixed joint frames
    rig.K1_r = rig.R1_0.T @ (r_eff - rig.r1_0)
    rig.K1_A = rig.R1_0.T @ A_eff
    rig.K2_r = rig.R2_0.T @ (r_eff - rig.r2_0)
    rig.K2_A = rig.R2_0.T @ A_eff
    # for a consistent initial configuration body 2 may sit anywhere (joint frames are defined from q0)

    contribs = [c for c in (sub1 if topo in ("frame-body", "movingframe-body") else None, body1, body2, joint) if c is not None]
    # random order of bodies in the system (joint last or first)
    if rng.random() < 0.3:
        contribs = contribs[::-1]
    system.add(*contribs)
    if topo == "movingframe-body":
        system.assemble(options=SolverOptions(compute_consistent_initial_conditions=False))
    else:
        system.assemble()
    rig.system, rig.joint, rig.body1, rig.body2 = system, joint, body1, body2
    rig.e_axis_local = np.eye(3)[axis]
    return rig


def _config(rig, rng, phi, move1):
    """global q (and the world-frame joint axis) for relative joint rotation phi; optionally moves subsystem 1"""
    system = rig.system
    q = np.array(system.q0, dtype=float).copy()
    if rig.topo == "body-body":
        if move1 == "jump":
            R1, r1 = _rand_rot(rng), rng.normal(size=3) * _loguniform(rng, 1e-2, 1e2)
        elif move1 == "walk":
            R1 = rig.R1_cur @ _rot(_unit(rng), rng.normal() * 0.2)
            R1 = _orthonormalize(R1)
            r1 = rig.r1_cur + rng.normal(size=3) * 0.1
        else:
            R1, r1 = rig.R1_cur, rig.r1_cur
        rig.R1_cur, rig.r1_cur = R1, r1
        sc = _loguniform(rng, 0.3, 3.0) if rig.nonunit else 1.0
        q[rig.body1.qDOF] = _pose_q(r1, R1, sc, flip=rng.random() < 0.5)
    elif rig.topo == "movingframe-body":
        R0, r0, nvec, w, v = rig.frame
        if move1 != "fixed":
            rig.t = float(rig.t + rng.uniform(0.0, 0.5)) if move1 == "walk" else float(rng.uniform(0, 20))
        R1, r1 = R0 @ _rot(nvec, w * rig.t), r0 + v * rig.t
    else:
        R1, r1 = rig.R1_0, rig.r1_0
    A_IJ1 = R1 @ rig.K1_A
    r_J = r1 + R1 @ rig.K1_r
    A_IJ2 = A_IJ1 @ _rot(rig.e_axis_local, phi)
    R2 = A_IJ2 @ rig.K2_A.T
    r2 = r_J - R2 @ rig.K2_r
    sc = _loguniform(rng, 0.3, 3.0) if rig.nonunit else 1.0
    q[rig.body2.qDOF] = _pose_q(r2, R2, sc, flip=rng.random() < 0.5)
    if getattr(rig, "exact", False):
        k8 = int(round(phi / (0.25 * np.pi)))
        if k8 % 2 == 0 and abs(phi - k8 * 0.25 * np.pi) < 1e-9:
            # whole-number quaternion of the exact quarter / half / three-quarter turn about the joint axis (its rotation matrix
            # has exact 0 / +-1 entries)
            p0, s_ = [(1, 0), (1, 1), (0, 1), (-1, 1)][(k8 // 2) % 4]
            P = np.zeros(4); P[0] = p0; P[1 + rig.axis] = s_
            P *= float(int(rng.integers(1, 4))) * (1.0 if rng.random() < 0.5 else -1.0)
            q[rig.body2.qDOF[3:]] = P
    rig.R1_now, rig.R2_now = R1, R2
    return q, A_IJ1[:, rig.axis]


def _unit(rng):
    v = rng.normal(size=3)
    return v / np.linalg.norm(v)


# ---------------------------------------------------------------------------
def run_case(spec, ctx):
    env.import_cardillo()
    sink = io.StringIO()
    with contextlib.redirect_stdout(sink):
        _run(spec, ctx)


def _run(spec, ctx):
    rng = ctx.rng
    kind = spec["kind"]
    n = int(rng.integers(10, 401)) if not spec.get("directed") else int(rng.integers(60, 200))
    if kind in ("near_quarter", "tiny") and n > 200 and rng.random() < 0.5:
        n = int(rng.integers(10, 200))
    deltas = _history(kind, rng, n)
    for d in deltas:  # harness self-check: the generator must respect the quantifier of the property
        if not (abs(d) < HALF - 0.5 * MARGIN_MIN):
            raise AssertionError(f"generator produced increment {d!r} outside (-pi/2, pi/2)")

    try:
        rig = _build(spec, rng, ctx)
    except Exception as e:  # assembling a plain revolute system must work
        ctx.mon("assemble")
        ctx.violation("System.assemble/Revolute", "assembling a consistent revolute system raised",
                      {"spec": spec, "error": f"{type(e).__name__}: {e}"[:400]})
        ctx.sig([spec, "assemble-failed"], nontrivial=False)
        return
    rig.nonunit = rng.random() < 0.3
    rig.R1_cur, rig.r1_cur = rig.R1_0, rig.r1_0
    joint, system = rig.joint, rig.system
    move_mode = ["fixed", "walk", "jump"][int(rng.integers(3))] if rig.topo in ("body-body", "movingframe-body") else "fixed"

    # where do resets go?
    reset_at = set()
    replay = False
    if kind == "resets":
        replay = True
    elif kind == "mixed":
        k = int(rng.integers(1, 5))
        reset_at = set(int(i) for i in rng.integers(1, len(deltas), size=k))
    rep_prob = {"repeated": 1.0, "mixed": 0.3}.get(kind, 0.1)
    rate_prob = 0.25

    ctx.cls(f"topo:{rig.topo}"); ctx.cls(f"axis:{rig.axis}"); ctx.cls(f"kind:{kind}")
    ctx.cls(rig.cls_A); ctx.cls(rig.cls_r); ctx.cls(f"move1:{move_mode}")
    ctx.cls("quaternions:non-unit" if rig.nonunit else "quaternions:unit")
    ctx.cls("angle0:default" if rig.default_angle0 else ("angle0:zero" if rig.angle0 == 0 else "angle0:nonzero"))

    state = {"quad_changes": 0, "up": 0, "down": 0, "max_turns": 0.0, "bad": False}

    def plan_stats(dl, resets=()):
        # input-class statistics of the PLANNED history (independent of how far the run gets)
        phi, prev_quad = 0.0, 0
        for i, d in enumerate(dl):
            if i in resets:
                phi, prev_quad = 0.0, 0
            phi = phi + d
            qd = _quadrant(phi)
            if qd != prev_quad:
                state["quad_changes"] += 1
                if prev_quad == 3 and qd == 0:
                    state["up"] += 1
                if prev_quad == 0 and qd == 3:
                    state["down"] += 1
            prev_quad = qd
            state["max_turns"] = max(state["max_turns"], abs(phi) / (2 * np.pi))

    def query(q, t, which):
        f = joint.l if which == 0 else joint.angle
        return float(f(t, q[joint.qDOF]))

    def fail(site, what, det):
        base = {"topo": rig.topo, "axis": rig.axis, "kind": kind, "angle0": rig.angle0, "A_IJ0": rig.cls_A,
                "move1": move_mode, "nonunit_quaternions": rig.nonunit}
        base.update(det)
        ctx.violation(site, what, base)
        state["bad"] = True

    def drive(dl, record=None, compare_to=None, resets=(), after_reset=False):
        """runs one pass of increments from the initial configuration (phi = 0)"""
        phi = 0.0
        since_reset = 0 if after_reset else None
        for i, d in enumerate(dl):
            if since_reset is not None:
                since_reset += 1
            if i in resets:
                since_reset = 1
                try:
                    joint.reset()
                except Exception as e:
                    fail("Revolute.reset", "reset raised", {"error": f"{type(e).__name__}: {e}"[:300]})
                    return
                ctx.mon("reset_interleaved")
                # the history restarts from the initial configuration
                phi = 0.0
                rig.R1_cur, rig.r1_cur = rig.R1_0, rig.r1_0
            phi = phi + d
            qd = _quadrant(phi)
            mv = move_mode if record is None and compare_to is None else "fixed"
            q, e_axis = _config(rig, rng, phi, mv)
            t = rig.t
            expected = rig.angle0 + phi
            try:
                got = query(q, t, i % 2)
            except Exception as e:
                fail("Revolute.l", "angle query raised", {"step": i, "phi": phi, "delta": d,
                                                         "error": f"{type(e).__name__}: {e}"[:300]})
                return
            ctx.mon("angle")
            if not np.isfinite(got) or abs(got - expected) > TOL:
                det = {"step": i, "delta": d, "previous_deltas": dl[max(0, i - 5):i], "phi": phi,
                       "expected": expected, "observed": got, "diff": got - expected,
                       "diff_in_turns": (got - expected) / (2 * np.pi), "quadrant_of_phi": qd + 1,
                       "steps_since_reset": since_reset}
                if since_reset is not None:
                    fail("Revolute.reset", "after reset() a history replayed from the initial configuration does not "
                         "give angle0 + accumulated rotation", det)
                else:
                    fail("Revolute.l", "reported angle differs from angle0 + accumulated rotation", det)
                return
            if record is not None:
                record.append(got)
            if compare_to is not None:
                ctx.mon("reset_replay")
                if abs(got - compare_to[i]) > TOL:
                    fail("Revolute.reset", "replaying the history after reset() gives a different angle",
                         {"step": i, "first_pass": compare_to[i], "after_reset": got, "expected": expected})
                    return
            # repeated queries at the same configuration
            if rng.random() < rep_prob:
                for r in range(int(rng.integers(1, 4))):
                    try:
                        again = query(q if r % 2 == 0 else q.copy(), t, (i + r) % 2)
                    except Exception as e:
                        fail("Revolute.l", "repeated angle query raised", {"step": i, "error": f"{type(e).__name__}: {e}"[:300]})
                        return
                    ctx.mon("repeat")
                    if abs(again - got) > TOL or abs(again - expected) > TOL:
                        fail("Revolute.l", "repeated query at the same configuration changed the angle",
                             {"step": i, "phi": phi, "first": got, "repeat_no": r + 1, "repeated": again, "expected": expected})
                        return
            # angle rate
            if rng.random() < rate_prob:
                u = np.zeros(system.nu)
                um = _loguniform(rng, 1e-3, 1e3)
                consistent = rng.random() < 0.4
                Om1 = np.zeros(3)
                if rig.topo == "body-body":
                    u[rig.body1.uDOF] = rng.normal(size=6) * um
                    Om1 = rig.R1_now @ u[rig.body1.uDOF][3:]
                elif rig.topo == "movingframe-body":
                    Om1 = rig.frame_w
                u2 = rng.normal(size=6) * um
                if consistent:
                    wrel = float(rng.normal() * um)
                    u2[3:] = rig.R2_now.T @ (Om1 + wrel * e_axis)
                u[rig.body2.uDOF] = u2
                Om2 = rig.R2_now @ u2[3:]
                exp_rate = float((Om2 - Om1) @ e_axis)
                try:
                    f = joint.l_dot if i % 2 == 0 else joint.angle_dot
                    rate = float(f(t, q[joint.qDOF], u[joint.uDOF]))
                except Exception as e:
                    fail("Revolute.l_dot", "angle rate query raised", {"step": i, "error": f"{type(e).__name__}: {e}"[:300]})
                    return
                ctx.mon("angle_dot")
                if not np.isfinite(rate) or abs(rate - exp_rate) > TOL * max(1.0, np.linalg.norm(Om1) + np.linalg.norm(Om2)):
                    fail("Revolute.l_dot", "reported angle rate differs from (Omega2 - Omega1) . e_axis",
                         {"step": i, "phi": phi, "expected": exp_rate, "observed": rate, "Omega1": Om1, "Omega2": Om2,
                          "e_axis": e_axis, "consistent_velocity": consistent})
                    return
                # the rate query must not disturb the tracked angle either
                try:
                    again = query(q, t, 0)
                except Exception as e:
                    fail("Revolute.l", "repeated angle query raised", {"step": i, "error": f"{type(e).__name__}: {e}"[:300]})
                    return
                ctx.mon("repeat")
                if abs(again - expected) > TOL:
                    fail("Revolute.l", "repeated query at the same configuration changed the angle",
                         {"step": i, "phi": phi, "first": got, "repeated": again, "expected": expected, "after": "l_dot"})
                    return

    if replay:
        # pass 1, reset, pass 2 (same history, same configurations) [, reset, a different history]
        m = max(5, len(deltas) // 2)
        h1 = deltas[:m]
        plan_stats(h1); plan_stats(deltas[m:])
        first = []
        drive(h1, record=first)
        if not state["bad"]:
            try:
                joint.reset()
            except Exception as e:
                fail("Revolute.reset", "reset raised", {"error": f"{type(e).__name__}: {e}"[:300]})
            if not state["bad"]:
                rig.R1_cur, rig.r1_cur = rig.R1_0, rig.r1_0
                drive(h1, compare_to=first, after_reset=True)
        if not state["bad"]:
            if rng.random() < 0.5:
                # the system is assembled again in between (e.g. after adding a force element): tracked turns survive that by
                # design, and a reset() afterwards must still restore the INITIAL tracking state
                from cardillo.solver import SolverOptions as _SO
                with gen_quiet():
                    system.assemble(options=_SO(compute_consistent_initial_conditions=False))
                ctx.cls("reset:after_reassembly")
            joint.reset()
            rig.R1_cur, rig.r1_cur = rig.R1_0, rig.r1_0
            ctx.mon("reset_interleaved")
            drive(deltas[m:], after_reset=True)
    else:
        plan_stats(deltas, reset_at)
        drive(deltas, resets=reset_at)

    if not state["bad"] and rig.topo != "movingframe-body" and rng.random() < 0.35:
        # a deep copy of the system has its own joint: winding the ORIGINAL afterwards must not change what the copy reports
        # (through l and through the post-processing alias angle), and querying the copy must not disturb the original
        try:
            joint.reset()
            rig.R1_cur, rig.r1_cur = rig.R1_0, rig.r1_0
            phi_c = float(rng.uniform(-1.2, 1.2))
            q_c, _ = _config(rig, rng, phi_c, "fixed")
            v0 = float(joint.l(rig.t, q_c[joint.qDOF]))
            twin = system.deepcopy()
            jt = [c for c in twin.contributions if getattr(c, "name", None) == joint.name and c.__class__ is joint.__class__][0]
            turns = (1.0 if rng.random() < 0.5 else -1.0) * float(rng.uniform(1.2, 3.3))
            phi_o = phi_c
            for _ in range(int(abs(turns) * 2 * np.pi / 1.2) + 1):
                phi_o += np.sign(turns) * 1.2
                q_o, _ = _config(rig, rng, phi_o, "fixed")
                v_o = float(joint.l(rig.t, q_o[joint.qDOF]))
            v_copy_l = float(jt.l(rig.t, q_c[jt.qDOF])); v_copy_a = float(jt.angle(rig.t, q_c[jt.qDOF]))
            v_o2 = float(joint.angle(rig.t, q_o[joint.qDOF]))
        except Exception as e:
            fail("Revolute.l", "angle query on a deep copy raised", {"error": f"{type(e).__name__}: {e}"[:300]})
        else:
            ctx.mon("repeat"); ctx.cls("deepcopy:original_wound_afterwards")
            if abs(v0 - (rig.angle0 + phi_c)) > TOL or abs(v_copy_l - v0) > TOL or abs(v_copy_a - v0) > TOL:
                fail("Revolute.angle", "a deep copy of the system reports another angle after the ORIGINAL joint was wound further",
                     {"angle_at_copy_time": v0, "copy.l": v_copy_l, "copy.angle": v_copy_a, "turns_of_original_afterwards": turns})
            elif abs(v_o - (rig.angle0 + phi_o)) > TOL or abs(v_o2 - v_o) > TOL:
                fail("Revolute.angle", "querying a deep copy disturbed the angle tracked by the original joint",
                     {"expected": rig.angle0 + phi_o, "before_copy_query": v_o, "after_copy_query": v_o2})
    if state["up"]:
        ctx.cls("crossing:Q4->Q1 (turn completed forwards)", state["up"])
    if state["down"]:
        ctx.cls("crossing:Q1->Q4 (turn completed backwards)", state["down"])
    if state["max_turns"] >= 5:
        ctx.cls("history:>=5 full turns")
    ctx.count("quadrant_changes", state["quad_changes"])
    ctx.count("increments", len(deltas))
    near = sum(1 for d in deltas if HALF - abs(d) < 1e-6)
    if near:
        ctx.cls("increments within 1e-6 of +-pi/2", near)
    ctx.sig([spec, rig.angle0, deltas[:8], len(deltas)], nontrivial=state["quad_changes"] >= 1)
    ctx.sample({"kind": kind, "topo": rig.topo, "axis": rig.axis, "angle0": rig.angle0, "A_IJ0": rig.cls_A,
                "increments": len(deltas), "first_increments": deltas[:5], "max_turns": round(state["max_turns"], 2),
                "quadrant_changes": state["quad_changes"]})


def finalize(agg):
    reasons = []
    cl = agg["classes"]
    need = [f"axis:{a}" for a in range(3)] + [f"topo:{t}" for t in TOPOS] + [f"kind:{k}" for k in KINDS] + [
        "crossing:Q4->Q1 (turn completed forwards)", "crossing:Q1->Q4 (turn completed backwards)",
        "history:>=5 full turns", "A_IJ0:default(subsystem1)", "A_IJ0:random",
        "increments within 1e-6 of +-pi/2"]
    for k in need:
        if cl.get(k, 0) == 0:
            reasons.append(f"input class '{k}' never reached")
    if agg["monitors"].get("angle", 0) < 1000:
        reasons.append("fewer than 1000 angle comparisons")
    return reasons


META = {
    "level_text": "Exploration: a real assembled cardillo.System with a Revolute joint (origin/frame/moving frame/body as "
                  "first subsystem) is driven through seeded histories of relative rotations (random, monotone through "
                  ">= 5 turns in both directions, zig-zag over every quadrant boundary, increments within 1e-11 of a "
                  "quarter turn, landings on multiples of pi/2, repeated queries, interleaved resets and replay after "
                  "reset); every reported angle / angle rate is decided by a one-float accumulator and independent "
                  "kinematics. Held on the histories generated, not a proof.",
    "level_note": "histories up to ~440 increments, |angle0| <= 100; increments keep a margin >= 1e-11 from +-pi/2; "
                  "rigid bodies and frames only (no rods) as subsystems; tolerance 1e-9.",
    "technique": "runtime return-value monitor with reference model (accumulator + independent forward kinematics) on a stateful object",
}
