"""C26 Memoised kinematic evaluations are transparent.

Deciding monitor: vlib/cachetwin.py — every cachetools-memoised method of cardillo is replaced (from the
harness, nothing in the repository is edited) by a twin that performs the real memoised call, evaluates the
undecorated function on the same arguments at the same object state and compares the two results.  The
workload are random operation sequences over SMALL argument pools, so that hits, misses, evictions and
entries that outlive a state change all occur, interleaved with the state-changing operations the property
names (step callbacks, reference-strain updates, re-assembly / re-initialisation), plus short real
simulations with the twin riding along."""

import warnings
import numpy as np
from vlib import env, gen
from vlib.oracles import loguniform, random_unit, quat_to_mat, dense

ID = "C26"
LEVEL = "exploration"
RULE = ("each case = one object family (RigidBody in a System; Cosserat rod of one of the three interpolations, displacement-based or "
        "mixed; Sphere2Sphere contact between RigidBody / PointMass / moving Frame carriers; Mesh1D; a short real simulation) and one "
        "seeded sequence of 20..300 operations drawn from small pools (3 times, 3 configurations incl. non-unit quaternions, -0.0 and "
        "complex-dtype copies of the same values, 2 velocities, 3-7 cross-section parameters incl. nodes / element boundaries / quadrature "
        "points, 2-3 offsets, element index given or omitted) interleaved with state-changing operations (step_callback of the object and "
        "of the System, set_reference_strains, System.assemble again, System.set_new_initial_state). Every call of a memoised method that "
        "the sequence causes, directly or through the composite kinematic / force functions, is compared with the undecorated function. "
        "distinct = family parameters + operation sequence; non-trivial = at least one cache hit AND one state-changing operation occurred")
ASSUMPTIONS = [
    "'same values' = equal up to 1e-11 relative to (1 + max|reference|): the undecorated function is the same code, differences below that come "
    "only from the dtype path of a key hit (float entry served to a complex query) or 1-ulp differences of basis values that are not part of the key",
    "the un-memoised evaluation is cachetools' __wrapped__ function called on the same object immediately after the memoised call (same object state); "
    "inner memoised calls of that function run through their own twins",
    "callers that modify a returned array in place are outside the property unless the caller is cardillo itself (then the next hit differs from the twin and is reported)",
    "rod classes are created at run time by make_CosseratRod; the factory is wrapped so that every class it returns is instrumented (counted per case, zero => inconclusive)",
]
REQUIRED_MONITORS = ["TWIN:RigidBody", "TWIN:Rod._eval", "TWIN:Rod._deval", "TWIN:Sphere2Sphere", "TWIN:Mesh1D.eval_basis", "TWIN:hit", "TWIN:eviction",
                     "STATE:step_callback", "STATE:reassemble", "STATE:set_reference_strains"]
META = {
    "level_text": "Exploration: random operation histories over small argument pools on real RigidBody, rod, Sphere2Sphere and Mesh1D objects and short real simulations; every memoised call is shadowed by the un-memoised function (differential twin, same process, same object state). Held on the histories generated.",
    "level_note": "sampled histories only; equality up to 1e-11 relative; hits / misses / evictions / state changes actually observed are counted in the evidence.",
    "technique": "runtime shadow-state monitor: un-memoised twin of every cachetools.cachedmethod, installed from the harness, over random operation histories",
}
CASE_TIMEOUT = 600
WALL_BUDGET = {"quick": 900, "thorough": 5400}

KF_STALE = "CosseratRod.set_reference_strains/precomputed-matrices-stale"
ROD_KINDS = [("Quaternion", 1), ("Quaternion", 2), ("SE3", 1), ("R12", 1), ("R12", 2)]
S2S_PAIRS = [("rigid_body", "rigid_body"), ("rigid_body", "point_mass"), ("moving_frame", "rigid_body"), ("point_mass", "point_mass"),
             ("rotating_frame", "rigid_body")]


def cases(tier, seed):
    n = {"quick": 420, "thorough": 9000}[tier]
    rng = np.random.default_rng([seed, 26])
    out = []
    # directed: re-initialisation of a Sphere2Sphere system at a state whose tangents were memoised before
    for pair in S2S_PAIRS[:3]:
        out.append({"family": "s2s", "pair": list(pair), "nops": 60, "directed": "reassemble_after_steps"})
    # directed: the reference contact basis is moved along different paths that end with the same contact normal, while the
    # tangents are only ever queried at one other state (so that a remembered entry survives)
    for pair in (S2S_PAIRS[0], S2S_PAIRS[1]):
        for rep in range(2):
            out.append({"family": "s2s", "pair": list(pair), "nops": 40, "directed": "basis_path"})
    i = 0
    while len(out) < n:
        r = i % 24
        i += 1
        nops = int(rng.integers(20, 301))
        if r < 5:
            out.append({"family": "rigid_body", "nops": nops})
        elif r < 10:
            k = ROD_KINDS[int(rng.integers(len(ROD_KINDS)))]
            out.append({"family": "rod", "interp": k[0], "p": k[1], "mixed": bool(rng.random() < 0.4),
                        # (now and then a finer mesh: element boundaries i/nel that are not dyadic fractions)
                        "nel": int(rng.integers(1, 4)) if rng.random() < 0.8 else int(rng.choice([6, 7, 10])),
                        "nops": int(rng.integers(15, 70))})
        elif r < 15:
            out.append({"family": "s2s", "pair": list(S2S_PAIRS[int(rng.integers(len(S2S_PAIRS)))]), "nops": nops})
        elif r < 18:
            out.append({"family": "mesh", "degree": int(rng.integers(1, 4)), "nel": int(rng.choice([1, 2, 3, 4, 5, 6, 7, 9, 10, 12, 16, 25])),
                        "basis": ["Lagrange", "Lagrange_Disc"][int(rng.integers(2))], "nops": nops})
        elif r < 22:
            out.append({"family": "system"})
        else:
            out.append({"family": "sim", "scene": ["two_balls", "chain", "rod", "contact_scene", "contact_scene"][int(rng.integers(5))]})
    return out


# ---------------------------------------------------------------------------------------------
class Log:
    """operation log shared with the twin (witnesses quote the last operations)"""

    def __init__(self):
        self.ops = []
        self.state_ops = 0

    def add(self, name, **kw):
        self.ops.append(name if not kw else f"{name}{kw}")


def _pick(rng, pool):
    k = int(rng.integers(len(pool)))
    return k, pool[k]


def _variant(rng, a):
    """the same values under another representation: complex dtype, or -0.0 where a component is 0"""
    c = int(rng.integers(4))
    if c == 0:
        return a.astype(complex), "complex"
    if c == 1 and np.any(a == 0):
        b = a.copy()
        b[a == 0] = -0.0
        return b, "negzero"
    return a, "float"


def _report(ctx, ct, before, log, label):
    """turn the twin's counters (delta since 'before') into monitor counts and mismatches into violations"""
    after = ct.snapshot()
    hits = ev = 0
    for name, st in after.items():
        b = before.get(name, {})
        d = {k: st[k] - b.get(k, 0) for k in st}
        if d["twin_evals"] == 0:
            continue
        cls_name, meth = name.split(".", 1)
        if cls_name == "RigidBody":
            ctx.mon("TWIN:RigidBody", d["twin_evals"])
        elif cls_name == "Sphere2Sphere":
            ctx.mon("TWIN:Sphere2Sphere", d["twin_evals"])
        elif cls_name == "Mesh1D":
            ctx.mon("TWIN:Mesh1D.eval_basis", d["twin_evals"])
        elif cls_name.startswith("CosseratRod"):
            ctx.mon(f"TWIN:Rod.{meth}", d["twin_evals"])
        else:
            ctx.mon(f"TWIN:{name}", d["twin_evals"])
        ctx.count(f"calls:{cls_name.split('_')[0] if cls_name.startswith('CosseratRod') else cls_name}.{meth}", d["calls"])
        hits += d["hits"]
        ev += d["evictions"]
        ctx.count("cache_hits", d["hits"])
        ctx.count("cache_misses", d["misses"])
        ctx.count("cache_evictions", d["evictions"])
    if hits:
        ctx.mon("TWIN:hit", hits)
    if ev:
        ctx.mon("TWIN:eviction", ev)
    for m in ct.STATE["mismatch"]:
        ctx.violation(m["method"], "memoised evaluation differs from the un-memoised function on the same arguments", {**m, "workload": label})
    ct.STATE["mismatch"].clear()
    return hits


# ---------------------------------------------------------------------------------------------
def run_rigid_body(spec, ctx, ct, log):
    from cardillo import System
    from cardillo.discrete import RigidBody
    rng = ctx.rng
    q0, u0, _, _ = gen.rigid_body_state(rng, unit=True)
    q0[int(rng.integers(3))] = 0.0          # a zero component, so that the -0.0 representation exists
    body = RigidBody(float(loguniform(rng, 0.1, 10)), gen.random_spd(rng), q0=q0.copy(), u0=u0.copy(), name="body")
    S = System()
    S.add(body)
    with gen.quiet():
        S.assemble(options=gen.no_cic_options())
    ts = [0.0, float(rng.uniform(0.1, 2)), float(rng.normal())]
    qn, _, _, _ = gen.rigid_body_state(rng, unit=False)
    qs = [q0.copy(), qn, gen.rigid_body_state(rng, unit=True)[0]]
    us = [u0.copy(), rng.normal(size=6)]
    Bs = [None, np.zeros(3), rng.normal(size=3), rng.normal(size=3)]
    xis = ["omit", None, 0.3]
    OPS = ["A_IB", "A_IB_q", "r_OP", "r_OP_q", "v_P", "v_P_q", "a_P", "a_P_q", "a_P_u", "J_P", "J_P_q", "kappa_P", "kappa_P_q", "kappa_P_u"]
    STATE_OPS = ["step_callback", "reassemble", "set_new_initial_state", "inplace_update", "inplace_update"]
    MEMOISED = ("A_IB", "A_IB_q", "r_OP", "v_P", "J_P")
    for _ in range(spec["nops"]):
        if rng.random() < 0.08:
            op = STATE_OPS[int(rng.integers(len(STATE_OPS)))]
            kq, q = _pick(rng, qs)
            ku, u = _pick(rng, us)
            log.add(op, q=kq)
            log.state_ops += 1
            with gen.quiet():
                if op == "step_callback":
                    q2, u2 = body.step_callback(ts[0], q.copy(), u.copy())
                    qs[int(rng.integers(len(qs)))] = np.asarray(q2, dtype=float)
                    ctx.mon("STATE:step_callback")
                elif op == "reassemble":
                    S.assemble(options=gen.no_cic_options())
                    ctx.mon("STATE:reassemble")
                elif op == "inplace_update":
                    # a long-lived state array gets new contents (q[:] = ...): the SAME array object, other coordinates
                    # the memos are filled at the old contents first; after the update ANOTHER array holding the old values is queried (an
                    # entry whose stored key or value is a view of the caller's array now answers for the wrong state)
                    probes = []
                    for name in MEMOISED:
                        kb_, B_ = _pick(rng, Bs)
                        kwp = {} if (B_ is None or name in ("A_IB", "A_IB_q")) else {"B_r_CP": B_}
                        getattr(body, name)(*((ts[0], q, u) if name == "v_P" else (ts[0], q)), **kwp)
                        probes.append((name, kwp))
                    q_old, u_old = q.copy(), u.copy()
                    q[:] = gen.rigid_body_state(rng, unit=bool(rng.random() < 0.5))[0]
                    u[:] = rng.normal(size=6)
                    for name, kwp in probes:
                        getattr(body, name)(*((ts[0], q_old, u_old) if name == "v_P" else (ts[0], q_old)), **kwp)
                    ctx.mon("STATE:inplace_update")
                else:
                    qq = q.copy()
                    qq[3:] /= np.linalg.norm(qq[3:])
                    S.set_new_initial_state(qq, u.copy(), t0=float(rng.uniform(0, 1)), options=gen.no_cic_options())
                    ctx.mon("STATE:reassemble")
            continue
        if rng.random() < 0.04:
            # whole-number probe: two consecutive calls of one memoised method whose arguments differ in ONE slot only, by
            # -1.0 against -2.0 (whole-number coordinates / offsets / times are what hand-written set-ups contain)
            op = MEMOISED[int(rng.integers(len(MEMOISED)))]
            qa = rng.integers(-2, 3, size=7).astype(float)
            if not np.any(qa[3:]):
                qa[3] = 1.0
            ua = rng.integers(-2, 3, size=6).astype(float)
            Ba = rng.integers(-2, 3, size=3).astype(float)
            ta = float(rng.integers(-2, 3))
            slot = ["q", "B", "t", "u"][int(rng.integers(4))] if op in ("v_P",) else ["q", "B", "t"][int(rng.integers(3))]
            if op in ("A_IB", "A_IB_q") and slot == "B":
                slot = "q"
            qb, ub, Bb, tb = qa.copy(), ua.copy(), Ba.copy(), ta
            if slot == "q":
                k_ = int(rng.integers(7)); qa[k_], qb[k_] = -1.0, -2.0
            elif slot == "u":
                k_ = int(rng.integers(6)); ua[k_], ub[k_] = -1.0, -2.0
            elif slot == "B":
                k_ = int(rng.integers(3)); Ba[k_], Bb[k_] = -1.0, -2.0
            else:
                ta, tb = -1.0, -2.0
            if rng.random() < 0.5:
                qa, qb, ua, ub, Ba, Bb, ta, tb = qb, qa, ub, ua, Bb, Ba, tb, ta
            log.add(op, probe="whole_number_pair", slot=slot)
            ctx.cls("probe:whole_number_pair")
            f = getattr(body, op)
            for t_, q_, u_, B_ in ((ta, qa, ua, Ba), (tb, qb, ub, Bb)):
                if op in ("A_IB", "A_IB_q"):
                    f(t_, q_)
                elif op == "v_P":
                    f(t_, q_, u_, B_r_CP=B_)
                else:
                    f(t_, q_, B_r_CP=B_)
            continue
        op = OPS[int(rng.integers(len(OPS)))]
        kt, t = _pick(rng, ts)
        kq, q = _pick(rng, qs)
        ku, u = _pick(rng, us)
        kb, B = _pick(rng, Bs)
        kx, xi = _pick(rng, xis)
        q, rep = _variant(rng, q)
        ctx.cls(f"repr:{rep}")
        kw = {}
        if B is not None:
            kw["B_r_CP"] = B
        if not isinstance(xi, str):
            kw["xi"] = xi
        if rep == "complex" and op not in MEMOISED:
            # a float entry served to a complex query (or vice versa) has the same VALUES, which is all the property asks for; the
            # composite functions allocate their result with the dtype of q, so the harness does not mix dtypes through them
            q, rep = q.real.copy(), "float"
        log.add(op, t=kt, q=kq, u=ku, B=kb, xi=kx, rep=rep)
        f = getattr(body, op)
        if op in ("A_IB", "A_IB_q"):
            kw.pop("B_r_CP", None)
            f(t, q, **kw)
        elif op in ("r_OP", "r_OP_q", "J_P", "J_P_q"):
            f(t, q, **kw)
        elif op in ("v_P", "v_P_q", "kappa_P", "kappa_P_q", "kappa_P_u"):
            f(t, q, u, **kw)
        else:
            f(t, q, u, rng.normal(size=6), **kw)
        if rep == "complex":
            # evict the (single-entry) caches again so that no composite function meets an entry of the other dtype
            qo = rng.normal(size=7)
            body.A_IB(t, qo); body.A_IB_q(t, qo); body.r_OP(t, qo, **{k: v for k, v in kw.items() if k != "xi"})
            body.v_P(t, qo, u, **{k: v for k, v in kw.items() if k != "xi"}); body.J_P(t, qo, **{k: v for k, v in kw.items() if k != "xi"})
    return {"family": "rigid_body"}


def run_rod(spec, ctx, ct, log):
    from cardillo import System
    from vlib.rodlite import simple_rod
    rng = ctx.rng
    with gen.quiet(), warnings.catch_warnings():
        warnings.simplefilter("ignore")
        rod, _, info = simple_rod(rng, nel=spec["nel"], kind=(spec["interp"], spec["p"]), mixed=spec["mixed"])
        n_inst = len(ct.instrumented_methods(type(rod)))
        S = System()
        S.add(rod)
        S.assemble(options=gen.no_cic_options())
    ctx.count("rod_classes_instrumented", 1 if n_inst >= 2 else 0)
    if n_inst < 2:
        ctx.undecided("rod class not instrumented")
        return {"family": "rod", "instrumented": n_inst}
    ctx.cls(f"rod:{spec['interp']}{spec['p']}:{'mixed' if spec['mixed'] else 'displacement'}")
    nel = spec["nel"]
    Q0 = np.asarray(rod.q0, dtype=float).copy()
    qs = [Q0.copy(), Q0 + 0.05 * rng.normal(size=rod.nq), Q0 + 0.02 * rng.normal(size=rod.nq)]
    us = [rng.normal(size=rod.nu), np.zeros(rod.nu)]
    xis = [0.0, 1.0, float(rng.uniform(0.05, 0.95)), float(rng.uniform(0.05, 0.95)), float(rod.qp[int(rng.integers(nel)), 0])]
    if nel > 1:
        xis.append(int(rng.integers(1, nel)) / nel)          # element boundary
    if spec["p"] > 1:
        xis.append(0.5 / (nel * spec["p"]) * 2 * int(rng.integers(1, nel * spec["p"])))   # a node
    Bs = [None, rng.normal(size=3) * 0.1]
    ts = [0.0, 0.7]
    la_c = rng.normal(size=getattr(rod, "nla_c", 0))
    la_g = np.zeros(getattr(rod, "nla_g", 0))
    LOCAL = ["r_OP", "r_OP_q", "A_IB", "A_IB_q", "v_P", "v_P_q", "J_P", "J_P_q", "a_P", "B_Omega", "B_J_R"]
    GLOBAL = ["h", "E_pot", "eval_strains", "eval_stresses"] + (["c", "W_c", "la_c"] if spec["mixed"] else []) + ["h_q"]
    STATE_OPS = ["step_callback", "set_reference_strains", "reassemble", "system_step_callback"]
    for _ in range(spec["nops"]):
        r = rng.random()
        kt, t = _pick(rng, ts)
        kq, q = _pick(rng, qs)
        ku, u = _pick(rng, us)
        if r < 0.12:
            op = STATE_OPS[int(rng.integers(len(STATE_OPS)))]
            log.add(op, q=kq)
            log.state_ops += 1
            with gen.quiet(), warnings.catch_warnings():
                warnings.simplefilter("ignore")
                if op == "step_callback":
                    q2, _ = rod.step_callback(t, q.copy(), u.copy())
                    qs[int(rng.integers(len(qs)))] = np.asarray(q2, dtype=float)
                    ctx.mon("STATE:step_callback")
                elif op == "system_step_callback":
                    q2, _ = S.step_callback(t, q.copy(), u.copy())
                    qs[int(rng.integers(len(qs)))] = np.asarray(q2, dtype=float)
                    ctx.mon("STATE:step_callback")
                elif op == "set_reference_strains":
                    rod.set_reference_strains(q.copy())
                    ctx.mon("STATE:set_reference_strains")
                    # the matrices a rod keeps from its last assembly (mass, compliance) belong to the stored evaluations as well:
                    # compared with the same rod after its assembly callback was run again (= evaluation without the stored copy)
                    import copy as _copy
                    fresh = _copy.deepcopy(rod); fresh.assembler_callback()
                    for nm_, args_ in (("M", (t, q)),) + ((("c_la_c", ()),) if spec["mixed"] else ()):
                        try:
                            a_, b_ = dense(getattr(rod, nm_)(*args_)), dense(getattr(fresh, nm_)(*args_))
                        except Exception:
                            continue
                        ctx.mon("STATE:stored_matrices")
                        if a_.shape != b_.shape or np.abs(a_ - b_).max() > 1e-11 * (1 + np.abs(b_).max()):
                            ctx.violation(f"rod.{nm_}", "matrix kept from the last assembly differs from its re-evaluation after a reference-strain update",
                                          {"formulation": f"{spec.get('interp')}{spec.get('p')}/{'mixed' if spec['mixed'] else 'disp'}", "max_abs_difference": float(np.abs(a_ - b_).max()), "max_entry": float(np.abs(b_).max())},
                                          key=KF_STALE)
                            break
                else:
                    S.assemble(options=gen.no_cic_options())
                    ctx.mon("STATE:reassemble")
            continue
        if r < 0.75:
            op = LOCAL[int(rng.integers(len(LOCAL)))]
            kx, xi = _pick(rng, xis)
            kb, B = _pick(rng, Bs)
            qe = q[np.asarray(rod.local_qDOF_P(xi))]
            ue = u[np.asarray(rod.local_uDOF_P(xi))]
            kw = {} if B is None else {"B_r_CP": B}
            log.add(op, t=kt, q=kq, u=ku, xi=kx, B=kb)
            f = getattr(rod, op)
            if op in ("A_IB", "A_IB_q", "B_J_R"):
                f(t, qe, xi)
            elif op == "B_Omega":
                f(t, qe, ue, xi)
            elif op in ("r_OP", "r_OP_q", "J_P", "J_P_q"):
                f(t, qe, xi, **kw)
            elif op in ("v_P", "v_P_q"):
                f(t, qe, ue, xi, **kw)
            else:
                f(t, qe, ue, rng.normal(size=len(ue)), xi, **kw)
        else:
            op = GLOBAL[int(rng.integers(len(GLOBAL) - (0 if rng.random() < 0.3 else 1)))]
            log.add(op, t=kt, q=kq, u=ku)
            if op in ("h", "h_q"):
                if hasattr(rod, op):
                    getattr(rod, op)(t, q, u)
            elif op == "E_pot":
                rod.E_pot(t, q)
            elif op in ("eval_strains", "eval_stresses"):
                kx, xi = _pick(rng, xis)
                el_true = int(rod.element_number(xi))
                choice = int(rng.integers(3))
                el = None if choice == 0 else el_true
                if choice == 2 and nel > 1 and abs(xi * nel - round(xi * nel)) < 1e-12 and 0 < xi < 1:
                    el = int(round(xi * nel)) - (1 if el_true == int(round(xi * nel)) else 0)     # the other neighbour of the boundary
                log.add(f"{op}.args", xi=kx, el=el)
                getattr(rod, op)(t, q, la_c, la_g, xi, el)
            elif op == "c":
                rod.c(t, q, u, la_c)
            elif op == "W_c":
                rod.W_c(t, q)
            elif op == "la_c":
                if hasattr(rod, "la_c"):
                    rod.la_c(t, q, u)
    return {"family": "rod", **info}


def _build_s2s(rng, pair):
    from cardillo import System
    from cardillo.contacts import Sphere2Sphere
    S = System(t0=float(rng.uniform(0, 0.5)) if rng.random() < 0.5 else 0.0)
    subs = []
    for k, kind in enumerate(pair):
        s, _, _, m = gen.make_subsystem(rng, kind, f"ball{k + 1}")
        subs.append((s, m))
    r1, r2 = float(rng.uniform(0.05, 1.0)), float(rng.uniform(0.05, 1.0))
    t0 = S.t0

    def centre(s, m):
        return m.r(t0) if m is not None else np.asarray(s.q0[:3], dtype=float)

    c1, c2 = centre(*subs[0]), centre(*subs[1])
    d = c2 - c1
    dist = float(np.linalg.norm(d))
    dirn = d / dist if dist > 1e-9 else np.array([1.0, 0.0, 0.0])
    want = r1 + r2 + float(rng.uniform(0.05, 0.5))
    mover, sgn = (subs[1][0], 1.0) if subs[1][1] is None else (subs[0][0], -1.0)
    mover.q0[:3] = mover.q0[:3] + sgn * (want - dist) * dirn
    con = Sphere2Sphere(subs[0][0], subs[1][0], r1, r2, float(rng.uniform(0.1, 0.9)), e_N=0.0, e_F=0.0, name="contact")
    S.add(subs[0][0], subs[1][0], con)
    with gen.quiet():
        S.assemble(options=gen.no_cic_options())
    return S, con


def run_s2s(spec, ctx, ct, log):
    rng = ctx.rng
    S, con = _build_s2s(rng, spec["pair"])
    ctx.cls("s2s:" + "/".join(spec["pair"]))
    q0 = np.asarray(S.q0, dtype=float).copy()

    def unitise(q):
        q = q.copy()
        for c in S.contributions:
            if getattr(c, "nq", 0) == 7:
                d = c.my_qDOF[3:]
                q[d] = q[d] / np.linalg.norm(q[d])
        return q

    qs = [q0.copy(), q0 + 0.03 * rng.normal(size=S.nq), q0 + 0.03 * rng.normal(size=S.nq)]
    us = [np.asarray(S.u0, dtype=float).copy(), rng.normal(size=S.nu)]
    ts = [float(S.t0), float(S.t0) + 0.3, float(S.t0) + 1.1]
    L0 = ["n", "n_q1_q2", "t1t2", "t1t2_q1_q2", "g_N", "g_N_q", "W_N", "W_F", "gamma_F_u"]
    L1 = ["g_N_dot", "g_N_dot_q", "gamma_F", "gamma_F_q", "n_dot", "t1t2_dot"]
    L2 = ["g_N_ddot", "gamma_F_dot"]
    SYS = ["S.g_N", "S.W_F", "S.gamma_F", "S.W_N"]
    STATE_OPS = ["step_callback", "system_step_callback", "reassemble", "set_new_initial_state"]
    directed = spec.get("directed")
    nops = spec["nops"]
    twin_box = {}
    for k in range(nops):
        kt, t = _pick(rng, ts)
        kq, q = _pick(rng, qs)
        ku, u = _pick(rng, us)
        state_op = rng.random() < 0.1
        op = None
        if directed == "basis_path":
            if k == 0:
                # five well separated contact directions: x (queried) and a, b, c, d (visited by step callbacks)
                for _ in range(2):
                    qs.append(q0 + 0.0 * q0)
                for j in range(1, 5):
                    qj = q0.copy()
                    mover = [c_ for c_ in S.contributions if getattr(c_, "nq", 0)][-1]
                    qj[mover.my_qDOF[:3]] += rng.normal(size=3) * 1.5
                    qs[j] = qj
                perm = [1 + int(i_) for i_ in rng.permutation(3)]
                spec["_plan"] = (["step@1", "t1t2@0", "t1t2_q1_q2@0"] + [f"step@{perm[0] + 1 if perm[0] < 4 else 4}", f"step@{perm[1] + 1 if perm[1] < 4 else 4}"]
                                 + ["step@1", "t1t2@0", "t1t2_q1_q2@0", "W_F@0", "step@4", "step@2", "step@3", "step@1", "t1t2@0", "gamma_F@0", "step@3", "step@4", "step@2", "step@1", "t1t2@0", "t1t2_q1_q2@0"])
            plan = spec["_plan"]
            if k < len(plan):
                name, _, idx = plan[k].partition("@")
                kt, t = 0, ts[0]
                kq = int(idx)
                q = qs[kq]
                if name == "step":
                    state_op, op = True, "step_callback"
                else:
                    state_op, op = False, name
        if directed == "reassemble_after_steps":
            # query tangents at (t0, q0); move the reference basis by step callbacks at other states; query again (memoised with the
            # moved basis); re-assemble (basis recomputed from q0); query again at the same (t0, q0)
            plan = ["t1t2@0", "step@1", "step@2", "t1t2@0", "t1t2_q1_q2@0", "reassemble", "t1t2@0", "t1t2_q1_q2@0", "W_F@0", "step@1",
                    "t1t2@0", "set_new_initial_state@0", "t1t2@0", "W_F@0"]
            if k < len(plan):
                name, _, idx = plan[k].partition("@")
                kt, t = 0, ts[0]
                kq = int(idx) if idx else 0
                q = qs[kq]
                if name in ("step", "reassemble", "set_new_initial_state"):
                    state_op, op = True, {"step": "step_callback"}.get(name, name)
                else:
                    state_op, op = False, name
        ql, ul = q[con.qDOF], u[con.uDOF]
        if state_op:
            op = op or STATE_OPS[int(rng.integers(len(STATE_OPS)))]
            log.add(op, t=kt, q=kq)
            log.state_ops += 1
            with gen.quiet():
                if op == "step_callback":
                    con.step_callback(t, ql.copy(), ul.copy())
                    ctx.mon("STATE:step_callback")
                elif op == "system_step_callback":
                    q2, _ = S.step_callback(t, q.copy(), u.copy())
                    qs[int(rng.integers(len(qs)))] = np.asarray(q2, dtype=float)
                    ctx.mon("STATE:step_callback")
                elif op == "reassemble":
                    S.assemble(options=gen.no_cic_options())
                    ctx.mon("STATE:reassemble")
                else:
                    S.set_new_initial_state(unitise(q), u.copy(), t0=t, options=gen.no_cic_options())
                    ctx.mon("STATE:reassemble")
            continue
        if op is None and not directed and rng.random() < 0.06:
            # a second contact object of the same class with OTHER hidden state (a deep copy of the system whose reference basis
            # was moved on by step callbacks) is evaluated at the same (t, q) right after this one
            if "twin" not in twin_box:
                S2 = S.deepcopy()
                twin_box["twin"] = (S2, [c_ for c_ in S2.contributions if c_.__class__ is con.__class__][0])
            S2, con2 = twin_box["twin"]
            qj = qs[int(rng.integers(len(qs)))]
            with gen.quiet():
                con2.step_callback(t, qj[con2.qDOF].copy(), u[con2.uDOF].copy())
            log.add("twin_probe", t=kt, q=kq)
            ctx.cls("s2s:twin_contact_alternating")
            for name in ("n", "t1t2", "t1t2_q1_q2", "n_q1_q2"):
                getattr(con, name)(t, ql)
                getattr(con2, name)(t, q[con2.qDOF])
            S.gamma_F(t, q, u); S2.gamma_F(t, q, u); S.W_F(t, q); S2.W_F(t, q)
            continue
        if op is None:
            pool = [L0, L0, L1, L2, SYS][int(rng.integers(5))]
            op = pool[int(rng.integers(len(pool)))]
        log.add(op, t=kt, q=kq, u=ku)
        try:
            if op.startswith("S."):
                f = getattr(S, op[2:])
                f(t, q, u) if op == "S.gamma_F" else f(t, q)
            elif op in L0:
                getattr(con, op)(t, ql)
            elif op in L1:
                getattr(con, op)(t, ql, ul)
            else:
                getattr(con, op)(t, ql, ul, rng.normal(size=len(ul)))
        except NotImplementedError:
            ctx.count("not_implemented_ops")
    return {"family": "s2s", "pair": spec["pair"]}


def run_mesh(spec, ctx, ct, log):
    from cardillo.rods.discretization.lagrange import LagrangeKnotVector
    from cardillo.rods.discretization.mesh1D import Mesh1D
    rng = ctx.rng
    deg, nel = spec["degree"], spec["nel"]
    kv = LagrangeKnotVector(deg, nel)
    with gen.quiet():
        mesh = Mesh1D(kv, int(rng.integers(2, 5)), dim_q=3, derivative_order=int(rng.integers(0, 2)),
                      basis=spec["basis"], quadrature=["Gauss", "Lobatto"][int(rng.integers(2))])
    ctx.cls(f"mesh:{spec['basis']}:p{deg}")
    xis = [0.0, 1.0, float(rng.uniform(0, 1)), float(rng.uniform(0, 1)), 0, 1]
    if nel > 1:
        xis += [int(rng.integers(1, nel)) / nel for _ in range(2 if nel < 5 else 5)]
    reassembled = False
    for _ in range(spec["nops"]):
        kx, xi = _pick(rng, xis)
        el_true = int(kv.element_number(xi)[0])
        c = int(rng.integers(4))
        if c == 0:
            log.add("eval_basis", xi=kx)
            mesh.eval_basis(xi)
        elif c == 1:
            log.add("eval_basis", xi=kx, el=None)
            mesh.eval_basis(xi, None)
        else:
            el = el_true
            x = xi * nel
            if c == 3 and nel > 1 and abs(x - round(x)) < 1e-12 and 0 < xi < 1:
                el = int(round(x)) - 1 if el_true == int(round(x)) else int(round(x))     # the other element adjacent to the boundary
                ctx.cls("mesh:boundary_other_neighbour")
            log.add("eval_basis", xi=kx, el=el)
            mesh.eval_basis(xi, el=el) if rng.random() < 0.5 else mesh.eval_basis(xi, el)
        if rng.random() < 0.03 and not reassembled:
            # the only state the basis depends on: the interval bookkeeping of the shared LagrangeBasis object
            log.add("basis1D")
            mesh.basis1D(np.array([0.3, 0.9]), int(rng.integers(nel)))
    return {"family": "mesh", "degree": deg, "nel": nel, "basis": spec["basis"]}


def run_sim(spec, ctx, ct, log):
    from cardillo.solver import Moreau, Rattle, BackwardEuler, SolverOptions
    rng = ctx.rng
    scene = spec["scene"]
    ctx.cls(f"sim:{scene}")
    with gen.quiet(), warnings.catch_warnings():
        warnings.simplefilter("ignore")
        if scene == "two_balls":
            from cardillo import System
            from cardillo.discrete import RigidBody
            from cardillo.contacts import Sphere2Sphere
            S = System()
            r = 0.1
            bodies = []
            for k, x in enumerate((-0.15, 0.15)):
                q0 = np.array([x, 0.02 * k, 0.0, 1.0, 0.0, 0.0, 0.0])
                u0 = np.array([-x * float(rng.uniform(4, 8)), float(rng.normal()) * 0.3, 0.0, *rng.normal(size=3)])
                bodies.append(RigidBody(1.0, 0.4 * r * r * np.eye(3), q0=q0, u0=u0, name=f"ball{k}"))
            con = Sphere2Sphere(bodies[0], bodies[1], r, r, float(rng.uniform(0.1, 0.6)), e_N=float(rng.uniform(0, 0.8)), e_F=0.0, name="contact")
            S.add(*bodies, con)
            S.assemble()
            solver = [Moreau, Rattle][int(rng.integers(2))]
            ctx.cls(f"sim:solver:{solver.__name__}")
            log.add(f"solve:{solver.__name__}")
            solver(S, 0.06, 2e-3, options=SolverOptions()).solve()
            log.state_ops += 1
            ctx.mon("STATE:step_callback")
        elif scene == "contact_scene":
            # the scenes of the Signorini-Coulomb check (1-3 spheres, 1-2 planes incl. a moving ground, sphere-sphere pairs)
            from vlib.props import c18
            from cardillo.solver import DualStormerVerlet
            S, info = c18._scene(rng, {"forcefree": False, "frictionless": bool(rng.random() < 0.3)})
            S.assemble()
            solver = [Moreau, Rattle, BackwardEuler, DualStormerVerlet][int(rng.integers(4))]
            ctx.cls(f"sim:solver:{solver.__name__}")
            log.add(f"solve:{solver.__name__}")
            opts = SolverOptions(fixed_point_max_iter=5000)
            (solver(S, 0.1, 5e-3, options=opts, linear_solver="LU") if solver is DualStormerVerlet else solver(S, 0.1, 5e-3, options=opts)).solve()
            log.state_ops += 1
            ctx.mon("STATE:step_callback")
        elif scene == "chain":
            from vlib.chaingen import build_chain
            S, bodies, joints, info = build_chain(rng, nbodies=int(rng.integers(2, 4)), joint_kinds=["Spherical", "Revolute"])
            S.assemble()
            solver = [Rattle, Moreau, BackwardEuler][int(rng.integers(3))]
            ctx.cls(f"sim:solver:{solver.__name__}")
            log.add(f"solve:{solver.__name__}")
            solver(S, 0.05, 5e-3, options=SolverOptions()).solve()
            log.state_ops += 1
            ctx.mon("STATE:step_callback")
        else:
            from cardillo import System
            from cardillo.constraints import RigidConnection
            from cardillo.forces import Force
            from cardillo.solver import Newton
            from vlib.rodlite import simple_rod
            k = ROD_KINDS[int(rng.integers(len(ROD_KINDS)))]
            rod, _, info = simple_rod(rng, nel=int(rng.integers(1, 3)), kind=k, mixed=bool(rng.random() < 0.5))
            S = System()
            clamp = RigidConnection(S.origin, rod, xi2=0.0, name="clamp")
            F = rng.normal(size=3) * 0.05
            S.add(rod, clamp, Force(lambda t: t * F, rod, xi=1.0, name="tip"))
            S.assemble(options=gen.no_cic_options())
            log.add("solve:Newton")
            Newton(S, n_load_steps=2, options=SolverOptions()).solve()
            log.state_ops += 1
            ctx.mon("STATE:step_callback")
    return {"family": "sim", "scene": scene}


def worker_init(tier, seed):
    # import (vtk, trimesh: seconds under load) outside the per-case timer
    env.import_cardillo()
    from vlib import cachetwin as ct
    ct.install()


def run_system(spec, ctx, ct, log):
    """random real systems of all contribution kinds (joints, force laws, actuators, contacts, rods with joints and loads on
    rigid bodies): every system-level quantity is evaluated, then evaluated again at the SAME state in another order. Whatever
    a contribution does with the arrays it receives from a memoised method (e.g. updating them in place) shows up as a
    difference between the memoised value and the un-memoised twin at the next hit."""
    from vlib.props import c14
    rng = ctx.rng
    with gen.quiet(), warnings.catch_warnings():
        warnings.simplefilter("ignore")
        system, comp = c14._build_random_system(rng, ctx)
        try:
            system.assemble(options=gen.no_cic_options())
        except Exception as e:
            ctx.undecided(f"assemble: {type(e).__name__}")      # C14's subject
            return {"family": "system", "composition": comp}
        names = list(c14.VEC) + list(c14.MAT)
        for k in range(2):
            t = system.t0 + float(rng.normal())
            q, u, ud, _ = gen.random_system_state(rng, system, perturb=0.3)
            lam = {"la_g": rng.normal(size=system.nla_g), "la_c": rng.normal(size=system.nla_c), "la_N": rng.normal(size=system.nla_N), "la_F": rng.normal(size=system.nla_F)}
            for rep in range(3):
                order = names if rep == 0 else [names[int(i)] for i in rng.permutation(len(names))]
                for name in order:
                    spec_ = c14.VEC.get(name) or c14.MAT[name]
                    try:
                        getattr(system, name)(*c14._args(spec_[0], None, t, q, u, ud, lam, True))
                    except NotImplementedError:
                        pass
                    except Exception as e:
                        ctx.count(f"system_evaluation_raised:{type(e).__name__}")
                log.add(f"evaluate_all(state {k}, pass {rep})")
            if k == 0 and rng.random() < 0.5:
                log.add("system_step_callback"); log.state_ops += 1
                system.step_callback(t, q.copy(), u.copy())
                ctx.mon("STATE:step_callback")
        if rng.random() < 0.5:
            log.add("reassemble"); log.state_ops += 1
            system.assemble(options=gen.no_cic_options())
            ctx.mon("STATE:reassemble")
            getattr(system, "M")(t, q); system.h(t, q, u)
    for c in comp:
        ctx.cls("system_contr:" + c.split(":")[0])
    log.state_ops += 1      # evaluation histories at an unchanged state are the point of this family
    return {"family": "system", "composition": comp}


RUNNERS = {"system": run_system, "rigid_body": run_rigid_body, "rod": run_rod, "s2s": run_s2s, "mesh": run_mesh, "sim": run_sim}


def run_case(spec, ctx):
    env.import_cardillo()
    from vlib import cachetwin as ct
    ct.install()
    log = Log()
    ct.STATE["oplog"] = log.ops
    before = ct.snapshot()
    ctx.cls(f"family:{spec['family']}")
    info = None
    try:
        info = RUNNERS[spec["family"]](spec, ctx, ct, log)
    except (RuntimeError, AssertionError) as e:
        if spec["family"] != "sim":
            raise
        # a solver announcing non-convergence is C21's subject; the twin events recorded so far still count
        ctx.count("sim_solver_raised")
    hits = _report(ctx, ct, before, log, spec["family"])
    ctx.count("operations", len(log.ops))
    ctx.count("state_changing_operations", log.state_ops)
    ctx.sig([spec, log.ops[:400]], nontrivial=hits > 0 and log.state_ops > 0)
    ctx.sample({**(info or {}), "operations": len(log.ops), "state_ops": log.state_ops, "hits": hits, "head": log.ops[:6]})


def finalize(agg):
    reasons = []
    c = agg["classes"]
    for f in RUNNERS:
        if c.get(f"family:{f}", 0) == 0:
            reasons.append(f"family {f} never run")
    for k in ("repr:complex", "repr:negzero", "mesh:boundary_other_neighbour"):
        if c.get(k, 0) == 0:
            reasons.append(f"input class {k} never reached")
    ex = agg["extra"]
    if ex.get("rod_classes_instrumented", 0) == 0:
        reasons.append("no rod class was instrumented")
    return reasons
