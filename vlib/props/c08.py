"""C08 Force-element and actuator Jacobians are exact."""

import numpy as np
from vlib import env, gen, forcegen
from vlib import sysoracles as so
from vlib.oracles import dense, loguniform

ID = "C08"
LEVEL = "exploration"
RULE = ("each case builds one real System with one element: Spring / KelvinVoigtElement (both forms) / MaxwellElement on "
        "TwoPointInteraction (8 pairings) or Revolute (4 pairings); Force, B_Force, Moment, B_Moment on RigidBody / PointMass / "
        "rod cross-section; Motor, PDcontroller, PIDcontroller on Revolute; 3 random states each (off the joint manifold, "
        "non-unit quaternions, t != t0). D-oracle on System.h_q, h_u, c_q, c_u, c_la_c, Wla_c_q, Wla_tau_q, Wla_tau_u, "
        "q_dot_q, q_dot_u. distinct = element + pairing + parameters; non-trivial = element has a state-dependent force")
ASSUMPTIONS = ["D-oracle: Richardson central differences, violation iff error > 1e-6*max(1,|D|) + 20*uncertainty; noisy => undecided",
               "the revolute angle is a tracked (stateful) quantity: System.reset() is called before each state and the base point is evaluated first, so finite differences stay on one branch"]
REQUIRED_MONITORS = ["D:h_q", "D:h_u", "D:c_q", "D:c_u", "D:c_la_c", "D:Wla_c_q", "D:Wla_tau_q", "D:Wla_tau_u", "D:q_dot_q", "D:q_dot_u"]
FORMAT_TWIN = True          # ambient monitor: every System matrix is also requested in the other documented formats (vlib/formattwin.py)
META = {
    "level_text": "Exploration: finite-difference D-oracle on the system-level Jacobians of generated systems covering every force law, interaction, external force/moment and actuator on its supported subsystems, at random states. Held on the systems and states generated.",
    "level_note": "float64; finite-difference oracle with measured uncertainty.",
    "technique": "runtime return-value monitors on System methods with finite-difference D-oracle + ambient format-twin monitor (every System matrix also requested as coo/csr/csc/array)",
}
CASE_TIMEOUT = 180
KINDS = ([f"tpi:{l}" for l in forcegen.LAWS] + [f"rev:{l}" for l in forcegen.LAWS]
         + ["ext:Force", "ext:B_Force", "ext:Moment", "ext:B_Moment", "act:Motor", "act:PD", "act:PID", "ext:Force", "act:PID"]
         # the same laws on a device of micrometre size: lengths ~1e-7..1e-4, forces ~1e-11..1e-5 (nothing is of order one)
         + [f"micro:{l}" for l in forcegen.LAWS if not l.startswith("Maxwell")])


def cases(tier, seed):
    n = {"quick": 228, "thorough": 6000}[tier]
    return [{"kind": KINDS[i % len(KINDS)], "variant": i // len(KINDS)} for i in range(n)]


def _key(site, J, D, err, det):
    return None


def run_micro(spec, ctx):
    """two point masses a few micrometres apart, joined by a soft spring / spring-damper: every length, velocity and force is
    many orders below one, the derivatives (stiffness, damping, force / length) are not"""
    env.import_cardillo()
    from cardillo import System
    from cardillo.discrete import PointMass
    from cardillo.interactions import TwoPointInteraction
    from cardillo.force_laws import Spring, KelvinVoigtElement
    rng = ctx.rng
    law = spec["kind"].partition(":")[2]
    name, _, form = law.partition(":")
    sc = float(loguniform(rng, 1e-7, 1e-4))
    k = float(loguniform(rng, 1e-4, 1e-1)); d = float(loguniform(rng, 1e-4, 1e-1))
    with gen.quiet():
        S = System()
        a = PointMass(float(loguniform(rng, 1e-9, 1e-3)), q0=sc * rng.normal(size=3), name="a")
        dirn = rng.normal(size=3); dirn /= np.linalg.norm(dirn)
        l0 = sc * float(rng.uniform(1.0, 3.0))
        b = PointMass(float(loguniform(rng, 1e-9, 1e-3)), q0=a.q0 + l0 * dirn, name="b")
        tpi = TwoPointInteraction(a, b)
        l_ref = None if rng.random() < 0.3 else l0 * float(rng.uniform(0.5, 1.5))
        kw = dict(l_ref=l_ref, compliance_form=(form == "compliance"))
        elem = Spring(tpi, k, **kw) if name == "Spring" else KelvinVoigtElement(tpi, k, d, **kw)
        S.add(a, b, tpi, elem)
        det = {"kind": spec["kind"], "length_scale": sc, "k": k, "d": d, "l0": l0, "l_ref": l_ref}
        try:
            S.assemble(options=gen.no_cic_options())
        except Exception as e:
            ctx.mon("D:h_q")
            ctx.violation(f"{spec['kind']}.assemble", "system with this element fails to assemble", {**det, "error": f"{type(e).__name__}: {e}"[:300]})
            ctx.sig([det, "assemble-failed"], nontrivial=True)
            return
        ctx.cls(f"element:{spec['kind']}")
        label = spec["kind"]
        hrel = 1e-4 * sc
        for k_ in range(3):
            t = float(rng.normal())
            q = np.asarray(S.q0, dtype=float) + 0.2 * sc * rng.normal(size=S.nq)
            u = sc * rng.normal(size=S.nu) * float(loguniform(rng, 1e-2, 1e2))
            la_c = rng.normal(size=S.nla_c) * k * sc
            ex = {**det, "t": t, "q": q, "u": u}
            ctx.cls("state:micro")
            so.jac(ctx, f"{label}.h_q", S.h_q(t, q, u), lambda x: S.h(t, x, u), q, ex, _key, mon="D:h_q", hrel=hrel)
            so.jac(ctx, f"{label}.h_u", S.h_u(t, q, u), lambda x: S.h(t, q, x), u, ex, _key, mon="D:h_u", hrel=hrel)
            if S.nla_c:
                so.jac(ctx, f"{label}.c_q", S.c_q(t, q, u, la_c), lambda x: S.c(t, x, u, la_c), q, ex, _key, mon="D:c_q", hrel=hrel)
                so.jac(ctx, f"{label}.c_u", S.c_u(t, q, u, la_c), lambda x: S.c(t, q, x, la_c), u, ex, _key, mon="D:c_u", hrel=hrel)
                so.jac(ctx, f"{label}.Wla_c_q", S.Wla_c_q(t, q, la_c), lambda x: dense(S.W_c(t, x)) @ la_c, q, ex, _key, mon="D:Wla_c_q", hrel=hrel)
    ctx.sig([det], nontrivial=True)
    ctx.sample(det)


def run_case(spec, ctx):
    if spec["kind"].startswith("micro:"):
        return run_micro(spec, ctx)
    env.import_cardillo()
    from cardillo import System
    import cardillo.forces as F
    from cardillo.actuators import Motor, PDcontroller, PIDcontroller
    rng = ctx.rng
    kind, _, law = spec["kind"].partition(":")
    t0 = float(rng.normal()) if rng.random() < 0.5 else 0.0
    det = {"kind": spec["kind"], "t0": t0}
    with gen.quiet():
        system = System(t0=t0)
        if kind in ("tpi", "rev"):
            if kind == "tpi":
                pair = forcegen.TPI_PAIRS[spec["variant"] % len(forcegen.TPI_PAIRS)]
                subs, mots, inter, info = forcegen.build_tpi(rng, pair)
            else:
                pair = forcegen.REV_PAIRS[spec["variant"] % len(forcegen.REV_PAIRS)]
                subs, mots, inter, info = forcegen.build_revolute(rng, pair)
            elem, linfo = forcegen.make_law(rng, law, inter)
            det.update(info); det.update(linfo)
            system.add(*subs)
            if kind == "rev" or rng.random() < 0.5:
                system.add(inter)
            system.add(elem)
        elif kind == "ext":
            c = spec["variant"] % 3
            if c == 2 or (law in ("Force",) and c == 1 and rng.random() < 0.5):
                from vlib import rodlite
                body, xi, rinfo = rodlite.simple_rod(rng, name="rod")
                det.update(rinfo)
            elif c == 1 and law in ("Force",):
                body, _, _, _ = gen.make_subsystem(rng, "point_mass", "body"); xi = np.zeros(3)
            else:
                body, _, _, _ = gen.make_subsystem(rng, "rigid_body", "body"); xi = np.zeros(3)
            v0 = rng.normal(size=3) * loguniform(rng, 1e-2, 1e2)
            w = rng.uniform(0.5, 3)
            fun = (lambda t: v0 * np.cos(w * t)) if rng.random() < 0.5 else v0
            B = rng.normal(size=3) * float(rng.random() < 0.7)
            if rng.random() < 0.3:
                B = gen.on_axis_or_plane(rng, B)          # point of attack on a body axis / in a coordinate plane
            if law in ("Force", "B_Force"):
                elem = getattr(F, law)(fun, body, xi=xi, B_r_CP=B)
                det["B_r_CP"] = B
            else:
                elem = getattr(F, law)(fun, body, xi=xi)
            det["carrier"] = body.__class__.__name__
            system.add(body, elem)
        else:
            pair = forcegen.REV_PAIRS[spec["variant"] % len(forcegen.REV_PAIRS)]
            subs, mots, inter, info = forcegen.build_revolute(rng, pair)
            det.update(info)
            a, b, w = rng.normal(size=3)
            # 'hold' controllers: the set-point is the joint's own initial angle and rate (filled in after assembly), so the
            # control force is exactly zero in the initial state - the Jacobians must be right there too
            hold = law in ("PD", "PID") and rng.random() < 0.5
            setp = [0.0, 0.0]
            tau = (lambda t: np.array(setp)) if hold else (lambda t: np.array([a * np.sin(w * t), a * w * np.cos(w * t)]))
            det["setpoint"] = "hold_initial_state" if hold else "trajectory"
            if law == "Motor":
                elem = Motor(inter, (lambda t: a * np.sin(w * t)) if rng.random() < 0.5 else (float(a) if rng.random() < 0.7 else 0.0))
            elif law == "PD":
                elem = PDcontroller(inter, float(loguniform(rng, 1e-2, 1e2)), float(loguniform(rng, 1e-2, 1e2)), tau)
            else:
                elem = PIDcontroller(inter, float(loguniform(rng, 1e-2, 1e2)), float(loguniform(rng, 1e-2, 1e2)), float(loguniform(rng, 1e-2, 1e2)), tau)
            system.add(*subs)
            system.add(inter, elem)
        try:
            system.assemble(options=gen.no_cic_options())
        except Exception as e:
            for m in ("D:h_q",):
                ctx.mon(m)
            ctx.violation(f"{spec['kind']}.assemble", "system with this element fails to assemble", {**det, "error": f"{type(e).__name__}: {e}"[:300]})
            ctx.sig([det, "assemble-failed"], nontrivial=True)
            return
        ctx.cls(f"element:{spec['kind']}")
        label = spec["kind"]
        S = system
        if kind == "act" and det.get("setpoint") == "hold_initial_state":
            S.reset()
            q0_, u0_ = np.asarray(S.q0, dtype=float), np.zeros(S.nu)
            setp[0] = float(inter.l(t0, q0_[inter.qDOF]))
            setp[1] = float(inter.l_dot(t0, q0_[inter.qDOF], u0_[inter.uDOF]))
        for k in range(4):
            S.reset()
            if k == 3:
                # the rest state: initial configuration, zero velocities, initial time (elements referred to the initial
                # configuration exert exactly zero force here)
                t, q, u, qc = t0, np.asarray(S.q0, dtype=float).copy(), np.zeros(S.nu), ["unit"]
                ctx.cls("state:rest_at_initial_configuration")
                if S.nla_tau and not np.any(S.la_tau(t, q, u)):
                    ctx.cls("state:actuator_force_exactly_zero")
            else:
                t = t0 + float(rng.normal())
                q, u, _, qc = gen.random_system_state(rng, S, perturb=0.3)
            if kind == "tpi" and inter.l(t, q[inter.qDOF]) < 0.05:
                continue
            ctx.cls(f"state:{'nonunit' if 'nonunit' in qc else 'unit'}")
            ex = {**det, "t": t, "q": q, "u": u}
            la_c = rng.normal(size=S.nla_c)
            # base point first (stateful revolute angle), then the oracles
            ok0, _ = so.guarded(ctx, f"{label}.h", lambda: S.h(t, q, u), extra=ex)
            if not ok0:
                continue
            hq = so.quat_steps(S, q)       # (short non-unit quaternions are stepped relative to their own length)
            so.jac_call(ctx, f"{label}.h_q", lambda: S.h_q(t, q, u), lambda x: S.h(t, x, u), q, ex, _key, mon="D:h_q", hrel=hq)
            so.jac_call(ctx, f"{label}.h_u", lambda: S.h_u(t, q, u), lambda x: S.h(t, q, x), u, ex, _key, mon="D:h_u")
            so.jac_call(ctx, f"{label}.q_dot_q", lambda: S.q_dot_q(t, q, u), lambda x: S.q_dot(t, x, u), q, ex, _key, mon="D:q_dot_q", hrel=hq)
            so.jac_call(ctx, f"{label}.q_dot_u", lambda: S.q_dot_u(t, q), lambda x: S.q_dot(t, q, x), u, ex, _key, mon="D:q_dot_u")
            if S.nla_c:
                so.jac_call(ctx, f"{label}.c_q", lambda: S.c_q(t, q, u, la_c), lambda x: S.c(t, x, u, la_c), q, ex, _key, mon="D:c_q", hrel=hq)
                so.jac_call(ctx, f"{label}.c_u", lambda: S.c_u(t, q, u, la_c), lambda x: S.c(t, q, x, la_c), u, ex, _key, mon="D:c_u")
                so.jac_call(ctx, f"{label}.c_la_c", lambda: S.c_la_c(), lambda x: S.c(t, q, u, x), la_c, ex, _key, mon="D:c_la_c")
                so.jac_call(ctx, f"{label}.Wla_c_q", lambda: S.Wla_c_q(t, q, la_c), lambda x: dense(S.W_c(t, x)) @ la_c, q, ex, _key, mon="D:Wla_c_q", hrel=hq)
            else:
                for m in ("D:c_q", "D:c_u", "D:c_la_c", "D:Wla_c_q"):
                    pass
            if S.nla_tau:
                f_tau = lambda tt, qq, uu: dense(S.W_tau(tt, qq)) @ S.la_tau(tt, qq, uu)
                so.jac_call(ctx, f"{label}.Wla_tau_q", lambda: S.Wla_tau_q(t, q, u), lambda x: f_tau(t, x, u), q, ex, _key, mon="D:Wla_tau_q", hrel=hq)
                so.jac_call(ctx, f"{label}.Wla_tau_u", lambda: S.Wla_tau_u(t, q, u), lambda x: f_tau(t, q, x), u, ex, _key, mon="D:Wla_tau_u")
            # ---- the same state again, in another order: Jacobians must not depend on what was evaluated before
            calls = [("h_q", lambda: S.h_q(t, q, u)), ("h_u", lambda: S.h_u(t, q, u)), ("h", lambda: S.h(t, q, u)), ("q_dot_q", lambda: S.q_dot_q(t, q, u))]
            if S.nla_c:
                calls += [("c_q", lambda: S.c_q(t, q, u, la_c)), ("c_u", lambda: S.c_u(t, q, u, la_c)), ("Wla_c_q", lambda: S.Wla_c_q(t, q, la_c)), ("c", lambda: S.c(t, q, u, la_c))]
            if S.nla_tau:
                calls += [("Wla_tau_q", lambda: S.Wla_tau_q(t, q, u)), ("Wla_tau_u", lambda: S.Wla_tau_u(t, q, u)), ("la_tau", lambda: S.la_tau(t, q, u))]
            so.repeat_consistency(ctx, label, calls, extra=ex)
    ctx.sig([det], nontrivial=True)
    ctx.sample(det)


def finalize(agg):
    reasons = []
    for k in ("state:rest_at_initial_configuration", "state:actuator_force_exactly_zero"):
        if agg["classes"].get(k, 0) == 0:
            reasons.append(f"input class {k} never reached")
    return reasons
