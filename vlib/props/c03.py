"""C03 SO(3)/SE(3) derivative routines are the derivatives of their maps.

Oracle: derivative (8th-order central differences in 50-digit arithmetic, so
the tiny-angle regime is exact) of the 50-digit MODEL of each map, compared
with the float output of the real DERIVATIVE ROUTINE; in addition a
finite-difference D-oracle on the real map for |psi| >= 1e-3 ties the model
to the code.
"""

import numpy as np
from vlib import env
from vlib.oracles import loguniform, random_unit, fd_jac, compare

ID = "C03"
LEVEL = "exploration"
RULE = ("each case is a seeded batch of points for one derivative routine (Exp_SO3_psi, T_SO3_psi, T_SO3_dot, T_SO3_inv_psi, "
        "Log_SO3_A, Exp_SE3_h, Log_SE3_H, T_SO3_quat_P, T_SO3_inv_quat_P); |psi| log-uniform in [1e-9, pi-1e-3] with half of "
        "the mass below 1e-4, plus exact 0 and axis-aligned directions; distinct = hash of first point; non-trivial = nonzero angle")
ASSUMPTIONS = ["absolute tolerance 1e-6 (scaled by max(1,|r|) for SE(3) blocks that multiply r, by max(1,|psi_dot|) for T_SO3_dot and by max(1,|D|_inf) for Log_SO3_A whose entries grow like 1/(pi-angle)^2)",
               "reference derivative: 8th-order central differences with step 1e-5 in 50-digit arithmetic on the mpmath models of vlib/mpref.py (truncation error < 1e-30)",
               "away from half-turns Log_SO3_A is the partial derivative of the formula extended to R^{3x3} (trace and skew part); the model differentiates the same extension",
               "the logarithm derivatives are judged on tangent directions of SO(3) / SE(3) for |psi| <= pi - 1e-9 (Log is not differentiable at half turns); the entrywise R^{3x3}-extension of Log_SO3_A only where the routine uses the trace / skew-part formula (cos(angle) >= -0.98)"]
REQUIRED_MONITORS = ["Exp_SO3_psi", "T_SO3_psi", "T_SO3_dot", "T_SO3_inv_psi", "Log_SO3_A", "Exp_SE3_h", "Log_SE3_H", "T_SO3_quat_P", "T_SO3_inv_quat_P", "fd_tie", "purity", "representation", "retention", "inplace_arguments"]
META = {
    "level_text": "Exploration: every SO(3)/SE(3) derivative routine is evaluated on seeded points (log-uniform angles down to 1e-9 and exact zero) and compared with the derivative of an independent 50-digit model of the map; held on the points generated.",
    "level_note": "absolute tolerance 1e-6; reference = mpmath model differentiated by high-order differences in 50-digit arithmetic; finite-difference tie between model and real map only for |psi| >= 1e-3.",
    "technique": "runtime return-value monitors with mpmath reference-model derivative + representation twins; logarithm derivatives on tangent directions up to pi - 1e-9",
}
KINDS = ["Exp_SO3_psi", "T_SO3_psi", "T_SO3_dot", "T_SO3_inv_psi", "Log_SO3_A", "Exp_SE3_h", "Log_SE3_H", "quatT", "purity"]
TOL = 1e-6


def cases(tier, seed):
    n = {"quick": 320, "thorough": 6400}[tier]
    return [{"kind": KINDS[i % len(KINDS)], "batch": 3} for i in range(n)]


def _psi(rng, near_pi=False):
    c = int(rng.integers(9))
    if c == 0:
        a = 0.0
    elif c == 8:
        a = loguniform(rng, 1e-14, 1e-9)  # below the stated sampling range but inside the map's domain
    elif c <= 3:
        a = loguniform(rng, 1e-9, 1e-4)
    elif c <= 5:
        a = loguniform(rng, 1e-4, np.pi - 1e-3)
    elif c == 6:
        a = rng.uniform(0, np.pi - 1e-3)
    else:
        a = np.pi - loguniform(rng, 1e-9 if near_pi else 1e-3, 1e-1)
    n = random_unit(rng)
    if rng.random() < 0.2:
        n = np.eye(3)[int(rng.integers(3))] * (1 if rng.random() < 0.5 else -1)
    elif rng.random() < 0.15:
        # axes in coordinate planes and along face / space diagonals: exact zero components, components of equal magnitude
        while True:
            n = rng.integers(-1, 2, size=3).astype(float)
            if np.any(n):
                break
        n = n / np.linalg.norm(n)
    cls = "zero" if a == 0 else ("<1e-9" if a < 1e-9 else "<1e-6" if a < 1e-6 else ("<1e-4" if a < 1e-4 else ("<1e-1" if a < 0.1 else "large")))
    return a * n, cls


def _mp_partial(f, x, shape):
    """d f / d x_k for all k by mpref.mdiff; f: list of mpf -> mp.matrix or list. returns float array shape+ (len(x),)"""
    from vlib import mpref
    import mpmath as mp
    out = np.zeros(tuple(shape) + (len(x),))
    xm = [mp.mpf(float(v)) for v in x]
    for k in range(len(x)):
        g = lambda s: f([xm[i] + (s if i == k else 0) for i in range(len(x))])
        d = mpref.mdiff(g, 0)
        out[..., k] = np.array(mpref.tolist(d)).reshape(shape)
    return out


def _report(ctx, site, psi_like, J, D, scale=1.0, extra=None, key=None):
    ctx.mon(site)
    J = np.asarray(J, dtype=float)
    if J.shape != D.shape:
        ctx.violation(site, "derivative routine returned an array of unexpected shape", {"shape": list(J.shape), "expected": list(D.shape)})
        return
    e = np.abs(J - D)
    i = np.unravel_index(np.argmax(e), e.shape)
    if not e[i] <= TOL * scale:
        d = {"point": psi_like, "max_abs_err": float(e[i]), "index": [int(k) for k in i], "claimed": float(J[i]), "reference": float(D[i]), "tol": TOL * scale}
        if extra:
            d.update(extra)
        ctx.violation(site, "derivative routine differs from the derivative of the map (50-digit reference)", d, key=key)


def _run_case(spec, ctx):
    env.import_cardillo()
    import cardillo.math.rotations as R
    from vlib import mpref
    import mpmath as mp
    mpref.selfcheck()
    rng = ctx.rng
    kind = spec["kind"]
    first = None
    nontrivial = False
    if kind == "purity":
        from vlib.oracles import purity_check
        thunks = []
        for b in range(spec["batch"]):
            psi, cls = _psi(rng)
            psi_dot = rng.normal(size=3)
            r = rng.normal(size=3)
            h = np.concatenate([r, psi])
            A = np.array(mpref.tolist(mpref.exp_so3(psi.tolist())), dtype=float)
            H = np.eye(4); H[:3, :3] = A; H[:3, 3] = r
            P = rng.normal(size=4)
            Pu = P / np.linalg.norm(P)
            first = first or psi.tolist()
            for name, args in (("Exp_SO3_psi", (psi,)), ("T_SO3_psi", (psi,)), ("T_SO3_inv_psi", (psi,)), ("T_SO3_dot", (psi, psi_dot)),
                               ("Log_SO3_A", (A,)), ("Exp_SE3_h", (h,)), ("Log_SE3_H", (H,))):
                thunks.append((name, {"function": name, "arguments": list(args)}, (lambda f=getattr(R, name), a=args: f(*[x.copy() for x in a]))))
            for name in ("T_SO3_quat_P", "T_SO3_inv_quat_P"):
                for q_, nz in ((P, True), (Pu, False), (Pu, True)):
                    thunks.append((name, {"function": name, "P": q_, "normalize": nz}, (lambda f=getattr(R, name), a=q_, z=nz: f(a.copy(), normalize=z))))
        purity_check(ctx, rng, thunks, mon="purity", scribble=True)
        from vlib.oracles import retention_check, inplace_check
        retention_check(ctx, thunks, mon="retention")
        byname = {}
        for name, d, _ in thunks:
            if "arguments" in d:
                byname.setdefault(name, []).append(tuple(np.array(x, copy=True) for x in d["arguments"]))
            else:
                byname.setdefault((name, d["normalize"]), []).append((np.array(d["P"], copy=True),))
        ip = []
        for key, sets in byname.items():
            if len(sets) < 2:
                continue
            if isinstance(key, tuple):
                ip.append((key[0], getattr(R, key[0]), sets[:6], {"normalize": key[1]}))
            else:
                ip.append((key, getattr(R, key), sets[:6], {}))
        inplace_check(ctx, ip, mon="inplace_arguments")
        from vlib.oracles import representation_check
        calls = []
        for name, d, _ in thunks[:90]:
            if "arguments" in d:
                calls.append((name, getattr(R, name), tuple(np.array(x, copy=True) for x in d["arguments"]), {}))
            else:
                calls.append((name, getattr(R, name), (np.array(d["P"], copy=True),), {"normalize": d["normalize"]}))
        for _ in range(3):
            while True:
                pw = rng.integers(-2, 3, size=3).astype(float)
                if 0 < np.linalg.norm(pw) < np.pi:
                    break
            hw = np.concatenate([rng.integers(-3, 4, size=3).astype(float), pw])
            calls += [("Exp_SO3_psi", R.Exp_SO3_psi, (pw,), {}), ("T_SO3_psi", R.T_SO3_psi, (pw,), {}), ("T_SO3_inv_psi", R.T_SO3_inv_psi, (pw,), {}),
                      ("Exp_SE3_h", R.Exp_SE3_h, (hw,), {}), ("T_SO3_dot", R.T_SO3_dot, (pw, rng.integers(-2, 3, size=3).astype(float)), {})]
            # exact quarter / third turns as whole-number matrices
            perm = rng.permutation(3); Aw = np.zeros((3, 3))
            for i_ in range(3):
                Aw[i_, perm[i_]] = 1.0 if rng.random() < 0.5 else -1.0
            if round(np.linalg.det(Aw)) == 1 and np.trace(Aw) > -0.9:
                Hw = np.eye(4); Hw[:3, :3] = Aw; Hw[:3, 3] = hw[:3]
                calls += [("Log_SO3_A", R.Log_SO3_A, (Aw,), {}), ("Log_SE3_H", R.Log_SE3_H, (Hw,), {})]
        representation_check(ctx, calls, mon="representation")
        ctx.cls("kind:purity")
        ctx.sig([kind, first], nontrivial=True)
        ctx.sample({"kind": kind, "calls": len(thunks)})
        return
    for b in range(spec["batch"]):
        psi, cls = _psi(rng, near_pi=kind in ("Log_SO3_A", "Log_SE3_H"))
        a = float(np.linalg.norm(psi))
        ctx.cls(f"{kind}:{cls}")
        nontrivial |= a > 0
        if first is None:
            first = psi.tolist()
        if kind == "Exp_SO3_psi":
            D = _mp_partial(lambda p: mpref.exp_so3(p), psi, (3, 3))
            _report(ctx, "Exp_SO3_psi", psi, R.Exp_SO3_psi(psi), D, extra={"angle": a})
            if a >= 1e-3:
                Dfd, err = fd_jac(R.Exp_SO3, psi, 1e-4)
                c = compare(D, Dfd, err, floor=1e-6)
                ctx.mon("fd_tie")
                if not c.ok:
                    ctx.violation("Exp_SO3", "real map and 50-digit model have different derivatives (model/code mismatch)", c.detail())
        elif kind == "T_SO3_psi":
            D = _mp_partial(lambda p: mpref.T_so3_closed(p), psi, (3, 3))
            _report(ctx, "T_SO3_psi", psi, R.T_SO3_psi(psi), D, extra={"angle": a})
            if a >= 1e-3:
                Dfd, err = fd_jac(R.T_SO3, psi, 1e-4)
                c = compare(D, Dfd, err, floor=1e-6)
                ctx.mon("fd_tie")
                if not c.ok:
                    ctx.violation("T_SO3", "real map and 50-digit model have different derivatives (model/code mismatch)", c.detail())
        elif kind == "T_SO3_dot":
            pd = rng.normal(size=3) * loguniform(rng, 1e-3, 1e3)
            pm = [mp.mpf(float(v)) for v in psi]; pdm = [mp.mpf(float(v)) for v in pd]
            Dm = mpref.mdiff(lambda s: mpref.T_so3_closed([pm[i] + s * pdm[i] for i in range(3)]), 0)
            D = np.array(mpref.tolist(Dm))
            _report(ctx, "T_SO3_dot", psi, R.T_SO3_dot(psi, pd), D, scale=max(1.0, np.linalg.norm(pd)), extra={"psi_dot": pd, "angle": a})
        elif kind == "T_SO3_inv_psi":
            D = _mp_partial(lambda p: mpref.T_so3_inv(p), psi, (3, 3))
            _report(ctx, "T_SO3_inv_psi", psi, R.T_SO3_inv_psi(psi), D, extra={"angle": a})
            if a >= 1e-3:
                Dfd, err = fd_jac(R.T_SO3_inv, psi, 1e-4)
                c = compare(D, Dfd, err, floor=1e-6)
                ctx.mon("fd_tie")
                if not c.ok:
                    ctx.violation("T_SO3_inv", "real map and 50-digit model have different derivatives (model/code mismatch)", c.detail())
        elif kind == "Log_SO3_A":
            # derivative of the R^{3x3}-extension  A -> (angle/sin angle) * axial(A), cos(angle) = (tr A - 1)/2
            Am = mpref.exp_so3(psi.tolist())  # unrounded: for tiny angles float rounding of the trace would leave the domain of acos
            A = np.array(mpref.tolist(Am))

            def logext(M):
                ca = (M[0, 0] + M[1, 1] + M[2, 2] - 1) / 2
                ang = mp.acos(ca)
                ax = mpref.axial(M)
                f = mp.mpf(1) if ang == 0 else ang / mp.sqrt(1 - ca * ca)
                return [f * x for x in ax]
            D = np.zeros((3, 3, 3))
            if a > 0:
                # (1) intrinsic derivative: the routine contracted with the tangent directions dA = A skew(e_k) of SO(3) at A is the
                #     derivative of the logarithm along A Exp(s e_k) - the only derivative the map on SO(3) has; decided at every
                #     angle below pi (rotations a hair below a half-turn included)
                J_ = np.asarray(R.Log_SO3_A(A), dtype=float)
                ctx.mon("Log_SO3_A")
                for k in range(3):
                    ek = [mp.mpf(0)] * 3; ek[k] = mp.mpf(1)
                    dref = np.array([float(x) for x in mpref.mdiff(lambda s_, ek=ek: list(mpref.log_so3(Am * mpref.exp_so3([s_ * x for x in ek]))), 0,
                                                                    h=mp.mpf("1e-8") * min(1.0, a * a, (np.pi - a) ** 2))])
                    S_ = np.zeros((3, 3)); S_[(k + 2) % 3, (k + 1) % 3] = 1; S_[(k + 1) % 3, (k + 2) % 3] = -1
                    got = np.einsum("lij,ij->l", J_, A @ S_)
                    if not np.abs(got - dref).max() <= TOL * max(1.0, np.abs(dref).max()):
                        ctx.violation("Log_SO3_A", "derivative routine contracted with a tangent direction of SO(3) differs from the derivative of the logarithm (50-digit reference)",
                                      {"psi": psi, "angle": a, "pi_minus_angle": float(np.pi - a), "direction": k, "claimed": got, "reference": dref})
                        break
            if a > 0 and np.cos(a) >= -0.98:
                # (2) where the routine documents itself as the derivative of the R^{3x3}-extension (trace and skew part; the
                #     repository's own test compares it with ambient difference quotients), that extension is checked entry by entry
                for i in range(3):
                    for j in range(3):
                        def g(s, i=i, j=j):
                            M = Am.copy(); M[i, j] += s
                            return logext(M)
                        D[:, i, j] = [float(x) for x in mpref.mdiff(g, 0, h=mp.mpf("1e-8") * min(1.0, a * a))]
                _report(ctx, "Log_SO3_A", psi, R.Log_SO3_A(A), D, scale=max(1.0, np.abs(D).max()), extra={"angle": a})
            if a == 0:
                ctx.mon("Log_SO3_A")
                J = R.Log_SO3_A(A)
                # at the identity only the skew part is differentiable: check the action on skew directions
                for k in range(3):
                    S = np.zeros((3, 3)); S[(k + 2) % 3, (k + 1) % 3] = 1; S[(k + 1) % 3, (k + 2) % 3] = -1
                    v = np.einsum("lij,ij->l", J, S)
                    if np.abs(v - np.eye(3)[k]).max() > TOL:
                        ctx.violation("Log_SO3_A", "at the identity the derivative does not map skew directions to their axial vectors", {"k": k, "got": v})
        elif kind == "Exp_SE3_h":
            r = rng.normal(size=3) * loguniform(rng, 1e-3, 1e3)
            h = np.concatenate([r, psi])
            D = _mp_partial(lambda x: mpref.exp_se3(x), h, (4, 4))
            _report(ctx, "Exp_SE3_h", h, R.Exp_SE3_h(h), D, scale=max(1.0, np.linalg.norm(r)), extra={"angle": a})
            if a >= 1e-3:
                Dfd, err = fd_jac(R.Exp_SE3, h, 1e-4)
                c = compare(D, Dfd, err, floor=1e-6)
                ctx.mon("fd_tie")
                if not c.ok:
                    ctx.violation("Exp_SE3", "real map and 50-digit model have different derivatives (model/code mismatch)", c.detail())
        elif kind == "Log_SE3_H":
            if a == 0:
                psi = random_unit(rng) * loguniform(rng, 1e-9, 1e-4); a = float(np.linalg.norm(psi))
            r = rng.normal(size=3) * loguniform(rng, 1e-3, 1e2)
            A = np.array(mpref.tolist(mpref.exp_so3(psi.tolist())))
            H = R.SE3(A, r)
            J = np.asarray(R.Log_SE3_H(H), dtype=float)  # (6,4,4)
            ctx.mon("Log_SE3_H")
            # contract with tangent directions of SE(3) at H: dH = H * [[skew(w), v],[0,0]]; d Log = reference by mp
            # (reference at the UNROUNDED rotation: within ~1e-8 of a half-turn the scalar part of the quaternion of a float-rounded
            #  matrix is dominated by the rounding of its entries, the 50-digit model would differentiate noise - found by the thorough tier)
            Hm = mp.matrix(H.tolist())
            Am_ = mpref.exp_so3(psi.tolist())
            for i_ in range(3):
                for j_ in range(3):
                    Hm[i_, j_] = Am_[i_, j_]
            worst = 0.0
            for k in range(6):
                xi = [mp.mpf(0)] * 6; xi[k] = mp.mpf(1)

                def g(s, xi=xi):
                    E = mpref.exp_se3_series([s * x for x in xi], terms=12)
                    M = Hm * E
                    Ar = mp.matrix(3, 3)
                    for i in range(3):
                        for j in range(3):
                            Ar[i, j] = M[i, j]
                    pl = mpref.log_so3(Ar)
                    rr = mp.matrix([M[0, 3], M[1, 3], M[2, 3]])
                    hr = mpref.T_so3_inv(pl).T * rr
                    return [hr[0], hr[1], hr[2]] + list(pl)
                # (step far inside the distance to the half-turn: the differences must not reach across the cut of the logarithm)
                dref = np.array([float(x) for x in mpref.mdiff(g, 0, h=mp.mpf(min(1e-5, 1e-3 * (np.pi - a))))])
                xi_f = np.zeros(6); xi_f[k] = 1.0
                X = np.zeros((4, 4)); X[:3, :3] = np.array([[0, -xi_f[5], xi_f[4]], [xi_f[5], 0, -xi_f[3]], [-xi_f[4], xi_f[3], 0]]); X[:3, 3] = xi_f[:3]
                dH = H @ X
                got = np.einsum("lij,ij->l", J, dH)
                e = np.abs(got - dref).max()
                worst = max(worst, e)
                if not e <= TOL * max(1.0, np.linalg.norm(r)):
                    ctx.violation("Log_SE3_H", "derivative routine contracted with a tangent direction of SE(3) differs from the derivative of the logarithm (50-digit reference)",
                                  {"psi": psi, "r": r, "direction": k, "claimed": got, "reference": dref, "max_abs_err": e, "angle": a})
                    break
        elif kind == "quatT":
            P = rng.normal(size=4)
            if rng.random() < 0.3:
                P[int(rng.integers(4))] = 0.0
            if not np.any(P):
                P[0] = 1.0
            lc = int(rng.integers(6))
            if lc == 0:
                length, lcls = 1.0, "unit"
            elif lc == 1:
                length, lcls = 1.0 + (1 if rng.random() < 0.5 else -1) * loguniform(rng, 1e-15, 1e-3), "nearunit"
            else:
                length, lcls = loguniform(rng, 1e-3, 1e3), "general"
            P *= length / np.linalg.norm(P)
            ctx.cls(f"quat_length:{lcls}")
            first = P.tolist() if b == 0 else first
            nontrivial = True
            n2 = lambda p: sum(x * x for x in p)

            def Tq(p):
                w, x, y, z = p
                return mp.matrix([[-x, w, z, -y], [-y, -z, w, x], [-z, y, -x, w]]) * (2 / n2(p))

            def Tiq(p):
                w, x, y, z = p
                return mp.matrix([[-x, -y, -z], [w, -z, y], [z, w, -x], [-y, x, w]]) / 2
            # tie the model to the real maps first
            Tref = np.array(mpref.tolist(Tq([mp.mpf(float(v)) for v in P])))
            Tiref = np.array(mpref.tolist(Tiq([mp.mpf(float(v)) for v in P])))
            ctx.mon("fd_tie")
            if np.abs(R.T_SO3_quat(P) - Tref).max() > 1e-12 * np.abs(Tref).max() or np.abs(R.T_SO3_inv_quat(P) - Tiref).max() > 1e-12 * np.abs(Tiref).max():
                ctx.violation("T_SO3_quat", "real map differs from the textbook model used for its derivative", {"P": P})
            D = _mp_partial(Tq, P, (3, 4))
            _report(ctx, "T_SO3_quat_P", P, R.T_SO3_quat_P(P), D, scale=max(1.0, np.abs(D).max()))
            D = _mp_partial(Tiq, P, (4, 3))
            _report(ctx, "T_SO3_inv_quat_P", P, R.T_SO3_inv_quat_P(P), D)
            Pu = P / np.linalg.norm(P)

            def Tq_un(p):
                w, x, y, z = p
                return mp.matrix([[-x, w, z, -y], [-y, -z, w, x], [-z, y, -x, w]]) * 2
            D = _mp_partial(Tq_un, Pu, (3, 4))
            _report(ctx, "T_SO3_quat_P", Pu, R.T_SO3_quat_P(Pu, normalize=False), D, extra={"normalize": False})
            # the non-normalising variant is a map of every nonzero quaternion as well (linear in P): the same comparison at
            # the sampled quaternion of general length, with the model tied to the real map there first
            Tun_ref = np.array(mpref.tolist(Tq_un([mp.mpf(float(v)) for v in P])))
            if np.abs(R.T_SO3_quat(P, normalize=False) - Tun_ref).max() > 1e-12 * np.abs(Tun_ref).max():
                ctx.violation("T_SO3_quat", "real map (normalize=False) differs from the textbook model used for its derivative", {"P": P})
            D = _mp_partial(Tq_un, P, (3, 4))
            _report(ctx, "T_SO3_quat_P", P, R.T_SO3_quat_P(P, normalize=False), D, extra={"normalize": False, "unit": False})
            D = _mp_partial(Tiq, P, (4, 3))
            _report(ctx, "T_SO3_inv_quat_P", P, R.T_SO3_inv_quat_P(P, normalize=False), D, extra={"normalize": False, "unit": False})
            # ... and the normalising variant at the same unit quaternion (all four ambient directions, no projection)
            D = _mp_partial(Tq, Pu, (3, 4))
            _report(ctx, "T_SO3_quat_P", Pu, R.T_SO3_quat_P(Pu, normalize=True), D, scale=max(1.0, np.abs(D).max()), extra={"normalize": True, "unit": True})
            D = _mp_partial(Tiq, Pu, (4, 3))
            _report(ctx, "T_SO3_inv_quat_P", Pu, R.T_SO3_inv_quat_P(Pu), D, extra={"unit": True})
    ctx.cls(f"kind:{kind}")
    ctx.sig([kind, first], nontrivial=nontrivial)
    ctx.sample({"kind": kind, "first_point": first})



def run_case(spec, ctx):
    """an exception raised inside cardillo for an input of the stated domain refutes the property for that input (the map does
    not yield a rotation / the routine does not return a derivative); harness errors still propagate"""
    try:
        return _run_case(spec, ctx)
    except Exception as e:
        from vlib.rodgen import raised_in_cardillo
        inside, where = raised_in_cardillo(e)
        if not inside:
            raise
        ctx.mon("exception")
        ctx.violation(where.split(" ")[-1], "raises for an input inside the stated domain", {"kind": spec.get("kind"), "raised_at": where, "error": f"{type(e).__name__}: {e}"[:300]})
        ctx.sig([spec, "raised"], nontrivial=True)
