"""C02 Rotation charts invert each other on their whole domain."""

import numpy as np
from vlib import env
from vlib.oracles import loguniform, random_unit, quat_to_mat, rodrigues

ID = "C02"
LEVEL = "exploration"
RULE = ("each case is a seeded batch for one monitor kind: Log(Exp(psi)) for |psi|<pi, Exp(Log(A)) and Spurrier for rotation "
        "matrices built in many ways (exact half turns, angles pi-10^-k, each quaternion component dominant, products of "
        "many rotations), T*T_inv for |psi|<2pi, T(psi) psi_dot vs body spin from the 50-digit model, SE(3) round trips and "
        "Exp_SE3 vs the 50-digit matrix exponential. distinct = hash of the first inputs; non-trivial = batch not only "
        "identity rotations")
ASSUMPTIONS = ["tolerances fixed in advance: |Exp(Log A)-A| <= 1e-8 for every A; |Log(Exp psi)-psi| <= max(1e-9, 1e-13/(pi-|psi|)); "
               "T*T_inv-I <= 1e-10*cond(T_inv) for |psi| <= 2pi-1e-3; Spurrier unit norm 1e-12 and reproduction 1e-10",
               "input matrices are orthonormal up to accumulated rounding (<= 1e-13)",
               "reference: mpmath 50-digit models in vlib/mpref.py, validated against group axioms at start-up"]
REQUIRED_MONITORS = ["logexp", "explog", "spurrier", "TTinv", "spin", "se3.logexp", "se3.explog", "se3.exp_vs_mp", "exp_vs_mp", "purity", "representation", "retention", "inplace_arguments"]
META = {
    "level_text": "Exploration: round-trip identities evaluated on the return values of the real maps over hostile inputs (half turns, near half turns, tiny angles, all Spurrier branches) plus agreement with an independent 50-digit model. Held on the inputs generated.",
    "level_note": "float64; tolerances as listed in assumptions; all four Spurrier branches must be observed (else inconclusive).",
    "technique": "runtime return-value monitors with mpmath reference model + representation twins (strided / read-only / Fortran-ordered / integer arguments)",
}
KINDS = ["logexp", "explog", "spurrier", "TTinv", "spin", "se3", "purity"]


def cases(tier, seed):
    n = {"quick": 360, "thorough": 9000}[tier]
    return [{"kind": KINDS[i % len(KINDS)], "batch": {"spin": 4, "se3": 6}.get(KINDS[i % len(KINDS)], 24)} for i in range(n)]


def _psi(rng, maxangle=np.pi):
    c = int(rng.integers(6))
    if c == 0:
        a = 0.0
    elif c == 1:
        a = loguniform(rng, 1e-12, 1e-3)
    elif c == 2:
        a = maxangle - loguniform(rng, 1e-12, 1e-1)
    elif c == 3:
        a = maxangle * rng.random()
    elif c == 4:
        a = loguniform(rng, 1e-3, maxangle * 0.999)
    else:
        a = maxangle * (1 - 10.0 ** (-int(rng.integers(1, 13))))
    n = random_unit(rng)
    if rng.random() < 0.2:
        n = np.eye(3)[int(rng.integers(3))] * (1 if rng.random() < 0.5 else -1)
    elif rng.random() < 0.15:
        # axes in coordinate planes and along face / space diagonals: exact zero components, components of equal magnitude
        while True:
            n = rng.integers(-1, 2, size=3).astype(float)
            if np.any(n):
                break
        n = n / np.linalg.norm(n)
    return a * n, ["zero", "tiny", "near_max", "uniform", "loguniform", "max-10^-k"][c]


def _rotation(rng):
    """rotation matrices built in hostile ways; returns (A, class)"""
    c = int(rng.integers(10))
    if c == 9:  # quaternion components of graded magnitude (1, 10^-a, 10^-b, 10^-c in a random order, random signs): one clearly
        #         dominant component, the others small to tiny - the pivot choice decides whether a tiny one is divided by
        q = np.array([1.0] + [10.0 ** (-rng.uniform(0.0, 9.0)) for _ in range(3)]) * rng.choice([-1.0, 1.0], size=4)
        return quat_to_mat(q[rng.permutation(4)]), "graded_quaternion"
    if c == 8:  # signed permutation matrix with determinant +1, given as an INTEGER array (quarter / half / third turns about
        #         the coordinate axes and diagonals - exact rotation matrices a user would write down by hand)
        while True:
            perm = rng.permutation(3)
            A = np.zeros((3, 3), dtype=np.int64)
            for i in range(3):
                A[i, perm[i]] = 1 if rng.random() < 0.5 else -1
            if round(np.linalg.det(A)) == 1:
                return A, "signed_permutation_int"
    if c == 0:  # exact half turn about a coordinate axis
        d = -np.ones(3); d[int(rng.integers(3))] = 1.0
        return np.diag(d), "half_axis"
    if c == 1:  # exact-ish half turn about a random axis: 2nn^T - I
        n = random_unit(rng)
        if rng.random() < 0.3:
            n = np.array([1.0, 1.0, 0.0]) / np.sqrt(2)
        return 2 * np.outer(n, n) - np.eye(3), "half_random"
    if c == 2:  # angle pi - 10^-k
        k = int(rng.integers(1, 16))
        return rodrigues((np.pi - 10.0 ** (-k)) * random_unit(rng)), "pi-10^-k"
    if c == 3:  # each quaternion component dominant
        i = int(rng.integers(4))
        q = rng.normal(size=4) * 0.3
        q[i] = 1.0 + rng.random()
        return quat_to_mat(q), f"dominant_q{i}"
    if c == 4:  # product of many rotations (accumulated non-orthogonality)
        A = np.eye(3)
        for _ in range(int(rng.integers(20, 200))):
            A = A @ rodrigues(rng.normal(size=3))
        return A, "product"
    if c == 5:  # near identity
        return rodrigues(random_unit(rng) * loguniform(rng, 1e-12, 1e-4)), "near_identity"
    if c == 6:
        return np.eye(3), "identity"
    return quat_to_mat(rng.normal(size=4)), "general"


def _run_case(spec, ctx):
    env.import_cardillo()
    import cardillo.math.rotations as R
    from vlib import mpref
    import mpmath as mp
    mpref.selfcheck()
    rng = ctx.rng
    kind = spec["kind"]
    first = None
    nontrivial = False
    I3 = np.eye(3)
    if kind == "purity":
        from vlib.oracles import purity_check
        thunks = []
        for b in range(spec["batch"]):
            psi, cls = _psi(rng)
            r = rng.normal(size=3) * loguniform(rng, 1e-3, 1e3)
            h = np.concatenate([r, psi])
            A = np.array(mpref.tolist(mpref.exp_so3(psi.tolist())), dtype=float)
            H = np.eye(4); H[:3, :3] = A; H[:3, 3] = r
            first = first or [psi.tolist(), cls]
            for name, arg in (("Exp_SO3", psi), ("Log_SO3", A), ("Spurrier", A), ("T_SO3", psi), ("T_SO3_inv", psi), ("Exp_SE3", h), ("Log_SE3", H)):
                thunks.append((name, {"function": name, "argument": arg}, (lambda f=getattr(R, name), a=arg: f(a.copy()))))
        purity_check(ctx, rng, thunks, mon="purity", scribble=True)
        # results kept side by side ([Exp_SE3(h) for h in hs]) and argument arrays refilled in place between calls
        from vlib.oracles import retention_check, inplace_check
        retention_check(ctx, thunks, mon="retention")
        byname = {}
        for name, d, _ in thunks:
            byname.setdefault(name, []).append((np.array(d["argument"], copy=True),))
        inplace_check(ctx, [(name, getattr(R, name), sets[:6], {}) for name, sets in byname.items() if len(sets) >= 2], mon="inplace_arguments")
        # the same argument values as strided / negatively strided / read-only / Fortran-ordered arrays
        from vlib.oracles import representation_check
        calls = [(name, getattr(R, name), (np.array(d["argument"], copy=True),), {}) for name, d, _ in thunks[:70]]
        # whole-number rotation vectors / screws / matrices (hand-written test data): also handed over as integer arrays
        for _ in range(3):
            while True:
                pw = rng.integers(-2, 3, size=3).astype(float)
                if 0 < np.linalg.norm(pw) < np.pi:
                    break
            hw = np.concatenate([rng.integers(-3, 4, size=3).astype(float), pw])
            Aw, _c = _rotation(rng)
            calls += [("Exp_SO3", R.Exp_SO3, (pw,), {}), ("T_SO3", R.T_SO3, (pw,), {}), ("T_SO3_inv", R.T_SO3_inv, (pw,), {}), ("Exp_SE3", R.Exp_SE3, (hw,), {})]
            if _c == "signed_permutation_int":
                Af = np.asarray(Aw, dtype=float); Hf = np.eye(4); Hf[:3, :3] = Af; Hf[:3, 3] = hw[:3]
                calls += [("Log_SO3", R.Log_SO3, (Af,), {}), ("Spurrier", R.Spurrier, (Af,), {}), ("Log_SE3", R.Log_SE3, (Hf,), {})]
        representation_check(ctx, calls, mon="representation")
        ctx.cls("kind:purity")
        ctx.sig([kind, first], nontrivial=True)
        ctx.sample({"kind": kind, "calls": len(thunks)})
        return
    for b in range(spec["batch"]):
        if kind == "logexp":
            psi, cls = _psi(rng)
            a = np.linalg.norm(psi)
            first = first or [psi.tolist(), cls]
            nontrivial |= a > 0
            ctx.cls(f"logexp:{cls}")
            A = R.Exp_SO3(psi)
            ctx.mon("logexp")
            if np.abs(A.T @ A - I3).max() > 1e-14 or abs(np.linalg.det(A) - 1) > 1e-14:
                ctx.violation("Exp_SO3", "exponential is not a rotation matrix", {"psi": psi, "err": np.abs(A.T @ A - I3).max()})
            if b % 6 == 0:
                ctx.mon("exp_vs_mp")
                Aref = np.array(mpref.tolist(mpref.exp_so3(psi.tolist())))
                if np.abs(A - Aref).max() > 1e-14:
                    ctx.violation("Exp_SO3", "differs from the 50-digit Rodrigues model", {"psi": psi, "err": np.abs(A - Aref).max()})
            l = R.Log_SO3(A)
            tol = max(1e-9, 1e-13 / max(np.pi - a, 1e-300))
            e = np.abs(l - psi).max()
            if not e <= tol:
                ctx.violation("Log_SO3", "Log(Exp(psi)) differs from psi", {"psi": psi, "angle": a, "pi_minus_angle": np.pi - a, "log": l, "err": e, "tol": tol},
                              key=_kf_log(a, l, psi))
        elif kind == "explog":
            A, cls = _rotation(rng)
            first = first or [A.tolist(), cls]
            nontrivial |= cls != "identity"
            ctx.cls(f"explog:{cls}")
            ctx.mon("explog")
            l = R.Log_SO3(A)
            B = R.Exp_SO3(l)
            e = np.abs(B - A).max()
            if not e <= 1e-8:
                ang = float(np.arccos(np.clip(0.5 * (np.trace(A) - 1), -1, 1)))
                ctx.violation("Log_SO3", "Exp(Log(A)) differs from A", {"A": A, "class": cls, "log": l, "err": e, "angle": ang},
                              key=_kf_explog(ang, l))
        elif kind == "spurrier":
            A, cls = _rotation(rng)
            first = first or [A.tolist(), cls]
            nontrivial |= cls != "identity"
            dec = np.array([A[0, 0], A[1, 1], A[2, 2], np.trace(A)])
            ctx.cls(f"spurrier:branch{int(np.argmax(dec))}")
            ctx.cls(f"spurrier:{cls}")
            q = np.asarray(R.Spurrier(A), dtype=float)      # (judged as the real quaternion it stands for, whatever its dtype)
            ctx.mon("spurrier")
            if abs(np.linalg.norm(q) - 1) > 1e-12:
                ctx.violation("Spurrier", "extracted quaternion is not a unit quaternion", {"A": A, "class": cls, "q": q, "norm": np.linalg.norm(q)})
            B = R.Exp_SO3_quat(q)
            e = np.abs(B - A).max()
            if not e <= 1e-10:
                ctx.violation("Spurrier", "extracted quaternion does not reproduce the rotation matrix", {"A": A, "class": cls, "q": q, "err": e})
            B2 = R.Exp_SO3_quat(q, normalize=False)
            if not np.abs(B2 - A).max() <= 1e-10:
                ctx.violation("Spurrier", "extracted quaternion (used as unit quaternion) does not reproduce the rotation matrix", {"A": A, "q": q})
        elif kind == "TTinv":
            psi, cls = _psi(rng, maxangle=2 * np.pi - 1e-3)
            a = np.linalg.norm(psi)
            first = first or [psi.tolist(), cls]
            nontrivial |= a > 0
            ctx.cls(f"TTinv:{cls}")
            T, Ti = R.T_SO3(psi), R.T_SO3_inv(psi)
            cond = np.linalg.cond(Ti)
            ctx.mon("TTinv")
            e1 = np.abs(T @ Ti - I3).max(); e2 = np.abs(Ti @ T - I3).max()
            if not max(e1, e2) <= 1e-10 * cond:
                ctx.violation("T_SO3/T_SO3_inv", "tangent map times its inverse is not the identity",
                              {"psi": psi, "angle": a, "err": max(e1, e2), "cond": cond}, key=_kf_T_small(a, max(e1, e2)))
        elif kind == "spin":
            psi, cls = _psi(rng, maxangle=2 * np.pi - 1e-3)
            a = np.linalg.norm(psi)
            psid = rng.normal(size=3) * loguniform(rng, 1e-3, 1e3)
            first = first or [psi.tolist(), psid.tolist(), cls]
            nontrivial |= a > 0
            ctx.cls(f"spin:{cls}")
            # reference body spin: axial(A^T dA/ds) from the 50-digit Rodrigues model
            Amp = mpref.exp_so3(psi.tolist())
            dA = mpref.dexp_dir([mp.mpf(x) for x in psi], [mp.mpf(x) for x in psid])
            wref = np.array([float(x) for x in mpref.axial(Amp.T * dA)])
            w = R.T_SO3(psi) @ psid
            ctx.mon("spin")
            e = np.abs(w - wref).max() / np.linalg.norm(psid)
            if not e <= 1e-9:
                ctx.violation("T_SO3", "T(psi) psi_dot is not the body-fixed spin of Exp(psi(t))",
                              {"psi": psi, "angle": a, "psi_dot": psid, "claimed": w, "reference": wref, "rel_err": e}, key=_kf_T_small(a, e))
            # inverse maps the spin back to the rate
            pd = R.T_SO3_inv(psi) @ wref
            cond = np.linalg.cond(R.T_SO3_inv(psi))
            e = np.abs(pd - psid).max() / np.linalg.norm(psid)
            if not e <= 1e-9 * cond:
                ctx.violation("T_SO3_inv", "T_inv(psi) applied to the body spin does not give back psi_dot",
                              {"psi": psi, "angle": a, "rel_err": e, "cond": cond})
        elif kind == "se3":
            psi, cls = _psi(rng)
            a = np.linalg.norm(psi)
            r = rng.normal(size=3) * loguniform(rng, 1e-3, 1e3)
            h = np.concatenate([r, psi])
            first = first or [h.tolist(), cls]
            nontrivial |= a > 0
            ctx.cls(f"se3:{cls}")
            H = R.Exp_SE3(h)
            rs = max(1.0, np.linalg.norm(r))
            ctx.mon("se3.exp_vs_mp")
            Href = np.array(mpref.tolist(mpref.exp_se3_series([mp.mpf(x) for x in h])))
            e = np.abs(H - Href).max()
            if not e <= 1e-12 * rs:
                ctx.violation("Exp_SE3", "differs from the 50-digit matrix exponential of the twist", {"h": h, "err": e},
                              key=_kf_T_small(a, e / rs))
            ctx.mon("se3.logexp")
            l = R.Log_SE3(H)
            tol = max(1e-9, 1e-13 / max(np.pi - a, 1e-300)) * rs
            e = np.abs(l - h).max()
            if not e <= tol:
                ctx.violation("Log_SE3", "Log(Exp(h)) differs from h", {"h": h, "angle": a, "log": l, "err": e, "tol": tol},
                              key=_kf_log(a, l[3:], psi) or _kf_T_small(a, e / rs))
            A, cls2 = _rotation(rng)
            Hm = R.SE3(A, r)
            ctx.cls(f"se3.explog:{cls2}")
            ctx.mon("se3.explog")
            l2 = R.Log_SE3(Hm)
            B = R.Exp_SE3(l2)
            e = np.abs(B - Hm).max()
            if not e <= 1e-8 * rs:
                ang = float(np.arccos(np.clip(0.5 * (np.trace(A) - 1), -1, 1)))
                ctx.violation("Log_SE3", "Exp(Log(H)) differs from H", {"A": A, "r": r, "class": cls2, "err": e, "angle": ang},
                              key=_kf_explog(ang, l2[3:]))
            Hi = R.SE3inv(Hm)
            if not np.abs(Hi @ Hm - np.eye(4)).max() <= 1e-12 * rs:
                ctx.violation("SE3inv", "inverse times H is not the identity", {"A": A, "r": r})
    ctx.cls(f"kind:{kind}")
    ctx.sig([kind, first], nontrivial=nontrivial)
    ctx.sample({"kind": kind, "first_input": first})


# known-finding predicates (none at present: the defects found here were repaired in /repo)
def _kf_log(a, l, psi):
    return None


def _kf_explog(ang, l):
    return None


def _kf_T_small(a, err):
    return None


def finalize(agg):
    out = []
    for i in range(4):
        if agg["classes"].get(f"spurrier:branch{i}", 0) == 0:
            out.append(f"Spurrier branch {i} never taken")
    return out



def run_case(spec, ctx):
    """an exception raised inside cardillo for an input of the stated domain refutes the property for that input (the map does
    not yield a rotation / the routine does not return a derivative); harness errors still propagate"""
    try:
        return _run_case(spec, ctx)
    except Exception as e:
        from vlib.rodgen import raised_in_cardillo
        inside, where = raised_in_cardillo(e)
        if not inside:
            raise
        ctx.mon("exception")
        ctx.violation(where.split(" ")[-1], "raises for an input inside the stated domain", {"kind": spec.get("kind"), "raised_at": where, "error": f"{type(e).__name__}: {e}"[:300]})
        ctx.sig([spec, "raised"], nontrivial=True)
