"""Generator of random CONSERVATIVE constrained systems without contacts (C19).

A *model* is a plain description in body-fixed data (masses, inertias, joint attachment points and joint
frames in the parent body, spring attachment points, natural lengths, gravity). ``build(model, poses, vels)``
turns it into a fresh real ``cardillo.System`` for ANY admissible state, so that a run can be continued /
reversed with a newly built system: joints are restated for the new pose from the parent-fixed data
(``r_OJ0 = r_1 + A_1 B1_r``, ``A_IJ0 = A_1 A_K1J``), springs carry their explicit natural length.

Topology: open trees rooted in a fixed world ``Frame``; joints Spherical / Revolute / FixedDistance; bodies
RigidBody / PointMass; force-form ``Spring`` on ``TwoPointInteraction``; gravity as ``cardillo.forces.Force``.
Initial states are on the constraint manifold by construction (forward kinematics of the tree); initial
velocities are built in the free directions of the joints (forward velocity kinematics), so that
``g(t0,q0) = 0`` and ``g_dot(t0,q0,u0) = 0`` up to rounding.
"""

import numpy as np
from vlib.oracles import quat_to_mat, random_unit, rodrigues, loguniform
from vlib.forcegen import mat_to_quat
from vlib.gen import random_spd

FAMILIES = ["pm_fixeddistance", "rb_spherical", "rb_revolute", "mixed"]
WORLD = -1


def _vec(rng, lo, hi):
    return random_unit(rng) * rng.uniform(lo, hi)


def random_model(rng, family, nbodies, springs=True, moving=True, layout="random", far=None):
    """returns (model, poses, vels): model is JSON-like (lists of floats), poses[i] = (r, A), vels[i] = (v, Omega_I).

    layout 'random': arbitrary poses (large swings, typically chaotic for more than one body).
    layout 'hanging': every joint and every centre of mass lies on one line through the world anchor in the
    direction of gravity, each centre of mass below its joint, springs at their natural length: the initial
    configuration is a stable equilibrium by construction, the (moderate) initial velocities make the system
    oscillate around it (regular, quasi-periodic regime)."""
    g = 9.81 * (random_unit(rng) if rng.random() < 0.5 else np.array([0.0, 0.0, -1.0]))
    gh = g / np.linalg.norm(g)
    hanging = layout == "hanging"
    world = {"r": rng.normal(size=3), "A": quat_to_mat(rng.normal(size=4))}
    if far:
        # the whole mechanism stands far from the coordinate origin (a site given in map coordinates): same mechanism, same motion
        world["r"] = world["r"] / np.linalg.norm(world["r"]) * float(far)
    bodies, joints, spr = [], [], []
    poses, vels = [], []
    w0 = (float(rng.uniform(0.3, 1.0)) if hanging else float(rng.uniform(0.5, 3.0))) if moving else 0.0

    def pose(i):
        return (world["r"], world["A"]) if i == WORLD else poses[i]

    def vel(i):
        return (np.zeros(3), np.zeros(3)) if i == WORLD else vels[i]

    for b in range(nbodies):
        parent = b - 1 if (b == 0 or hanging or rng.random() < 0.7) else int(rng.integers(-1, b))
        if family == "pm_fixeddistance":
            kind, jk = "pm", "FixedDistance"
        elif family == "rb_spherical":
            kind, jk = "rb", "Spherical"
        elif family == "rb_revolute":
            kind, jk = "rb", "Revolute"
        else:
            kind = "rb" if rng.random() < 0.65 else "pm"
            jk = ["Spherical", "Revolute", "FixedDistance"][int(rng.integers(3))]
            if kind == "pm" and jk == "Revolute":
                jk = "FixedDistance"
        pkind = "frame" if parent == WORLD else bodies[parent]["kind"]
        if jk == "Revolute" and pkind == "pm":
            jk = "Spherical"
        if jk == "Spherical" and pkind == "pm" and kind == "pm":
            jk = "FixedDistance"
        m = float(loguniform(rng, 0.5, 2.0))
        body = {"kind": kind, "m": m}
        if kind == "rb":
            # inertia of a body of size ~0.1 .. 0.4
            body["Theta"] = m * random_spd(rng, 3, 0.01, 0.15)
        rp, Ap = pose(parent)
        vp, Op = vel(parent)
        B1 = np.zeros(3) if pkind == "pm" else _vec(rng, 0.2, 0.6)
        if hanging and pkind == "rb":
            B1 = Ap.T @ gh * float(rng.uniform(0.1, 0.5))
        J1 = rp + Ap @ B1
        vJ1 = vp + np.cross(Op, J1 - rp)
        A = quat_to_mat(rng.normal(size=4)) if kind == "rb" else np.eye(3)
        j = {"kind": jk, "p": parent, "c": b, "B1": B1}
        if jk == "FixedDistance":
            L = float(rng.uniform(0.3, 0.8))
            d = gh if hanging else random_unit(rng)
            J2 = J1 + L * d
            B2 = _vec(rng, 0.1, 0.4) if (kind == "rb" and rng.random() < 0.7) else np.zeros(3)
            if hanging and kind == "rb":
                B2 = -A.T @ gh * float(rng.uniform(0.1, 0.4))
            r = J2 - A @ B2
            wlink = _vec(rng, 0.3, 1.0) * w0
            vJ2 = vJ1 + np.cross(wlink, J2 - J1)
            Om = _vec(rng, 0.3, 1.0) * w0 if kind == "rb" else np.zeros(3)
            v = vJ2 + np.cross(Om, r - J2)
            j.update({"B2": B2, "L": L})
        else:
            if kind == "pm":
                B2 = np.zeros(3)
            else:
                B2 = _vec(rng, 0.2, 0.6)
                # keep the two centres of mass apart in every configuration (body-body spring never degenerates)
                while abs(np.linalg.norm(B2) - np.linalg.norm(B1)) < 0.15:
                    B2 = _vec(rng, 0.2, 0.9)
                if hanging:
                    B2 = -A.T @ gh * np.linalg.norm(B2)
            r = J1 - A @ B2
            if jk == "Revolute":
                AK1J = quat_to_mat(rng.normal(size=4))
                axis = int(rng.integers(3))
                if hanging:
                    # horizontal joint axis: the hanging pose is a strict potential minimum in the joint coordinate
                    e = np.cross(random_unit(rng), gh)
                    e /= np.linalg.norm(e)
                    f = np.cross(e, gh)
                    cols = [None, None, None]
                    cols[axis], cols[(axis + 1) % 3], cols[(axis + 2) % 3] = e, gh, f   # right-handed: e x gh = f
                    AK1J = Ap.T @ np.column_stack(cols)
                e = (Ap @ AK1J)[:, axis]
                Om = Op + e * float(rng.normal()) * w0
                j.update({"AK1J": AK1J, "axis": axis})
            else:
                Om = (_vec(rng, 0.3, 1.0) * w0) if kind == "rb" else np.zeros(3)
            v = vJ1 + np.cross(Om, r - J1)
        bodies.append(body)
        joints.append(j)
        poses.append((r, A))
        vels.append((v, Om))
    if hanging and moving:
        # moderate oscillation: kinetic energy at most 15 % of m g (0.3 m) per body; scaling every velocity by one
        # factor keeps the velocity field consistent with the joints (the velocity kinematics are linear)
        T0 = 0.0
        for b, (r, A), (v, Om) in zip(bodies, poses, vels):
            T0 += 0.5 * b["m"] * float(v @ v)
            if b["kind"] == "rb":
                T0 += 0.5 * float((A.T @ Om) @ b["Theta"] @ (A.T @ Om))
        cap = 0.15 * sum(b["m"] for b in bodies) * 9.81 * 0.3
        if T0 > cap:
            f = np.sqrt(cap / T0)
            vels = [(v * f, Om * f) for v, Om in vels]
    if springs:
        reach = max(np.linalg.norm(p[0] - world["r"]) for p in poses) + 1.0
        ns = int(rng.integers(1, 3))
        for _ in range(ns):
            i = int(rng.integers(nbodies))
            if rng.random() < 0.6 or nbodies == 1 or joints[i]["kind"] == "FixedDistance" or joints[i]["p"] == WORLD:
                # anchored in the world, far enough that the spring length never vanishes
                anchor = world["A"].T @ (_vec(rng, reach + 0.5, reach + 1.5))
                B2 = _vec(rng, 0.0, 0.3) if bodies[i]["kind"] == "rb" else np.zeros(3)
                a, b_, Ba, Bb = WORLD, i, anchor, B2
            else:
                a, b_, Ba, Bb = joints[i]["p"], i, np.zeros(3), np.zeros(3)   # centre of mass to centre of mass
            ra, Aa = pose(a); rb, Ab = pose(b_)
            l0 = float(np.linalg.norm(rb + Ab @ Bb - ra - Aa @ Ba))
            mm = bodies[b_]["m"]
            k = float(mm * rng.uniform(2.0, 8.0) ** 2)                 # sqrt(k/m) in [2, 8] rad/s
            spr.append({"a": a, "b": b_, "Ba": Ba, "Bb": Bb, "k": k, "l_ref": l0 if hanging else float(l0 * rng.uniform(0.7, 1.1))})
            # every third spring in compliance form (the same conservative force, carried by a multiplier la_c); decided from
            # the digits of k so that the random stream of the generator - and with it every other model - stays as it was
            spr[-1]["compliance"] = int(k * 1e6) % 3 == 0
    rb_idx = [i for i, b in enumerate(bodies) if b["kind"] == "rb"]
    if springs and rb_idx and int(bodies[rb_idx[0]]["m"] * 1e6) % 4 == 0:
        # a pre-stressed spring between two points of ONE rigid body: an internal force pair that cancels identically (the
        # points keep their distance), so motion and energy balance are the ones without it. Drawn from a private generator
        # seeded by the digits of the body's mass so that the stream of the main generator stays as it was.
        r2 = np.random.default_rng(int(bodies[rb_idx[0]]["m"] * 1e9))
        i = rb_idx[int(r2.integers(len(rb_idx)))]
        Ba, Bb = r2.normal(size=3) * 0.3, r2.normal(size=3) * 0.3
        spr.append({"a": i, "b": i, "Ba": Ba, "Bb": Bb, "k": float(bodies[i]["m"] * r2.uniform(4.0, 12.0) ** 2),
                    "l_ref": float(0.4 * np.linalg.norm(Bb - Ba)), "compliance": False, "internal": True})
    model = {"family": family, "layout": layout, "g": g, "world": world, "bodies": bodies, "joints": joints, "springs": spr}
    return model, poses, vels


def state_arrays(model, poses, vels):
    """per-body (q0, u0) in cardillo's coordinates"""
    out = []
    for b, (r, A), (v, Om) in zip(model["bodies"], poses, vels):
        if b["kind"] == "rb":
            out.append((np.concatenate([r, mat_to_quat(A)]), np.concatenate([v, A.T @ Om])))
        else:
            out.append((np.array(r, dtype=float), np.array(v, dtype=float)))
    return out


def build(model, states, t0=0.0):
    """fresh real System for the per-body states [(q0, u0), ...]; returns (system, subsystems, joints, springs).
    The system is NOT assembled."""
    from cardillo import System
    from cardillo.discrete import Frame, RigidBody, PointMass
    from cardillo.constraints import Spherical, Revolute, FixedDistance
    from cardillo.interactions import TwoPointInteraction
    from cardillo.force_laws import Spring
    from cardillo.forces import Force

    W = model["world"]
    system = System(t0=t0)
    world = Frame(r_OP=np.array(W["r"], dtype=float), A_IB=np.array(W["A"], dtype=float), name="world")
    system.add(world)
    subs = []
    for i, (b, (q0, u0)) in enumerate(zip(model["bodies"], states)):
        if b["kind"] == "rb":
            s = RigidBody(b["m"], np.array(b["Theta"], dtype=float), q0=np.array(q0, dtype=float), u0=np.array(u0, dtype=float), name=f"rb{i}")
        else:
            s = PointMass(b["m"], q0=np.array(q0, dtype=float), u0=np.array(u0, dtype=float), name=f"pm{i}")
        subs.append(s)
        system.add(s)
        system.add(Force(b["m"] * np.array(model["g"], dtype=float), s, name=f"gravity{i}"))

    def sub(i):
        return world if i == WORLD else subs[i]

    def pose(i):
        if i == WORLD:
            return np.array(W["r"], dtype=float), np.array(W["A"], dtype=float)
        q0 = np.asarray(states[i][0], dtype=float)
        if model["bodies"][i]["kind"] == "rb":
            return q0[:3], quat_to_mat(q0[3:])
        return q0, np.eye(3)

    jobjs = []
    for k, j in enumerate(model["joints"]):
        s1, s2 = sub(j["p"]), sub(j["c"])
        r1, A1 = pose(j["p"])
        B1 = np.array(j["B1"], dtype=float)
        if j["kind"] == "Spherical":
            jo = Spherical(s1, s2, r_OJ0=r1 + A1 @ B1, name=f"spherical{k}")
        elif j["kind"] == "Revolute":
            jo = Revolute(s1, s2, j["axis"], r_OJ0=r1 + A1 @ B1, A_IJ0=A1 @ np.array(j["AK1J"], dtype=float), name=f"revolute{k}")
        else:
            jo = FixedDistance(s1, s2, B1_r_P1J1=B1, B2_r_P2J2=np.array(j["B2"], dtype=float))
            jo.name = f"fixeddistance{k}"
        jobjs.append(jo)
        system.add(jo)
    sobjs = []
    for k, s in enumerate(model["springs"]):
        tpi = TwoPointInteraction(sub(s["a"]), sub(s["b"]), B_r_CP1=np.array(s["Ba"], dtype=float), B_r_CP2=np.array(s["Bb"], dtype=float), name=f"tpi{k}")
        so = Spring(tpi, s["k"], l_ref=s["l_ref"], compliance_form=bool(s.get("compliance", False)), name=f"spring{k}")
        sobjs.append(so)
        system.add(so)
    return system, subs, jobjs, sobjs


def split_state(subs, q, u):
    """system vectors -> per-body states"""
    return [(np.array(q[s.my_qDOF], dtype=float), np.array(u[s.my_uDOF], dtype=float)) for s in subs]


def fixed_distance_lengths(model, states):
    """independent evaluation of the FixedDistance link lengths at a state"""
    W = model["world"]
    out = []
    for j in model["joints"]:
        if j["kind"] != "FixedDistance":
            continue
        pts = []
        for idx, B in ((j["p"], j["B1"]), (j["c"], j["B2"])):
            if idx == WORLD:
                r, A = np.array(W["r"]), np.array(W["A"])
            else:
                q0 = np.asarray(states[idx][0], dtype=float)
                r, A = (q0[:3], quat_to_mat(q0[3:])) if model["bodies"][idx]["kind"] == "rb" else (q0, np.eye(3))
            pts.append(r + A @ np.asarray(B, dtype=float))
        out.append((float(np.linalg.norm(pts[1] - pts[0])), j["L"]))
    return out
