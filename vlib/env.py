"""Environment bootstrap shared by every check.

* selects the repository root (``/repo`` or ``$VERIF_REPO`` for self-tests on
  scratch copies) and puts it first on ``sys.path``;
* turns the guarded hooks on (``CARDILLOPROJECT_CARDILLO_VERIF=1``);
* makes third-party helpers (icontract, deal, mpmath, jsonschema) importable
  from ``<verif>/.deps`` and installs them offline from the wheelhouse if the
  directory is missing (``.deps`` is git-ignored, a fresh restore has none);
* pins BLAS threads to one per worker (the runner parallelises over cases).
"""

import os
import sys
import fcntl
import subprocess

VERIF = os.path.dirname(os.path.dirname(os.path.abspath(__file__)))
REPO = os.path.abspath(os.environ.get("VERIF_REPO", "/repo"))
DEPS = os.path.join(VERIF, ".deps")
WHEELS = "/opt/veriftools/wheels"
PYTHON = "/venv/bin/python"
GUARD = "CARDILLOPROJECT_CARDILLO_VERIF"
DEP_PKGS = ["icontract", "deal", "mpmath", "jsonschema"]

for _v in ("OMP_NUM_THREADS", "OPENBLAS_NUM_THREADS", "MKL_NUM_THREADS"):
    os.environ.setdefault(_v, "1")
os.environ[GUARD] = "1"
os.environ.setdefault("PYTHONHASHSEED", "0")
os.environ.setdefault("MPLBACKEND", "Agg")
sys.dont_write_bytecode = True


def ensure_deps():
    marker = os.path.join(DEPS, ".installed")
    if not os.path.exists(marker):
        os.makedirs(DEPS, exist_ok=True)
        with open(os.path.join(DEPS, ".lock"), "w") as lock:
            fcntl.flock(lock, fcntl.LOCK_EX)
            if not os.path.exists(marker):
                subprocess.run(
                    [PYTHON, "-m", "pip", "install", "--quiet", "--no-index",
                     "--find-links", WHEELS, "--target", DEPS, "--upgrade"] + DEP_PKGS,
                    check=True, stdout=subprocess.DEVNULL,
                    env={**os.environ, "PIP_NO_INDEX": "1", "PIP_DISABLE_PIP_VERSION_CHECK": "1"},
                )
                open(marker, "w").write("ok\n")
    if DEPS not in sys.path:
        sys.path.append(DEPS)


def setup():
    """Idempotent: repo first on sys.path, deps available, cardillo verified."""
    if sys.path[0] != REPO:
        if REPO in sys.path:
            sys.path.remove(REPO)
        sys.path.insert(0, REPO)
    if VERIF not in sys.path:
        sys.path.insert(1, VERIF)
    ensure_deps()


def import_cardillo():
    setup()
    import io, contextlib
    with contextlib.redirect_stdout(io.StringIO()):
        import cardillo
    here = os.path.abspath(cardillo.__file__)
    if not here.startswith(REPO + os.sep):
        raise RuntimeError(f"cardillo imported from {here}, expected under {REPO}")
    return cardillo
