"""Case runner: shards the cases of one property over worker subprocesses,
collects per-case records, produces the three-valued verdict and the evidence.

A property module (``vlib/props/cXX.py``) provides

    ID, LEVEL, RULE, ASSUMPTIONS (list[str])
    cases(tier, seed) -> list[dict]      deterministic list of small JSON specs
    run_case(spec, ctx) -> None          runs the real code, reports through ctx
    finalize(agg) -> list[str] | None    optional: extra reasons for "inconclusive"
    MIN_DECIDED (float, default 0.6)     fraction of cases that must be decided
    REQUIRED_MONITORS (list[str])        monitors whose evaluation count must be > 0
    CASE_TIMEOUT (seconds, default 120)

Every case gets its own ``numpy.random.Generator`` seeded from (seed, ID, index).
"""

import os
import sys
import json
import time
import hashlib
import signal
import shutil
import tempfile
import traceback
import subprocess
import importlib

from . import env

NWORKERS = int(os.environ.get("VERIF_WORKERS", "16"))


# --------------------------------------------------------------------------
# per-case context
# --------------------------------------------------------------------------
class CaseTimeout(Exception):
    pass


def _jsonable(x, depth=0):
    import numpy as np

    if depth > 6:
        return str(x)
    if isinstance(x, (str, bool, int, type(None))):
        return x
    if isinstance(x, float):
        return x if x == x and abs(x) != float("inf") else repr(x)
    if isinstance(x, complex):
        return repr(x)
    if isinstance(x, np.generic):
        return _jsonable(x.item(), depth + 1)
    if isinstance(x, np.ndarray):
        if x.size > 64:
            return {"shape": list(x.shape), "head": _jsonable(x.ravel()[:16].tolist(), depth + 1)}
        return _jsonable(x.tolist(), depth + 1)
    if isinstance(x, dict):
        return {str(k): _jsonable(v, depth + 1) for k, v in x.items()}
    if isinstance(x, (list, tuple, set)):
        return [_jsonable(v, depth + 1) for v in x]
    return str(x)


class Ctx:
    def __init__(self, prop, tier, seed, index, spec):
        import numpy as np

        self.prop, self.tier, self.seed, self.index, self.spec = prop, tier, seed, index, spec
        h = int.from_bytes(hashlib.sha256(f"{prop}/{index}".encode()).digest()[:8], "little")
        self.rng = np.random.default_rng([int(seed) & 0xFFFFFFFF, h & 0xFFFFFFFF, h >> 32])
        self.rec = {
            "i": index, "classes": {}, "monitors": {}, "violations": [], "undecided": [],
            "sig": None, "nontrivial": False, "sample": None, "extra": {},
        }

    # -- reporting -----------------------------------------------------
    def cls(self, name, n=1):
        self.rec["classes"][name] = self.rec["classes"].get(name, 0) + n

    def mon(self, name, n=1):
        self.rec["monitors"][name] = self.rec["monitors"].get(name, 0) + n

    def sig(self, obj, nontrivial=True):
        self.rec["sig"] = hashlib.sha1(json.dumps(_jsonable(obj), sort_keys=True).encode()).hexdigest()[:16]
        self.rec["nontrivial"] = bool(nontrivial)

    def sample(self, obj):
        self.rec["sample"] = _jsonable(obj)

    def extra(self, key, val):
        self.rec["extra"][key] = _jsonable(val)

    def count(self, key, n=1):
        self.rec["extra"][key] = self.rec["extra"].get(key, 0) + n

    def undecided(self, reason):
        self.rec["undecided"].append(str(reason)[:200])

    def violation(self, site, what, detail=None, key=None):
        """site: call site / function; what: short text; key: known-finding
        mechanism key if (and only if) the defect-model predicate matched."""
        if len(self.rec["violations"]) < 20:
            self.rec["violations"].append(
                {"site": site, "what": what, "key": key, "detail": _jsonable(detail or {})}
            )
        else:
            self.rec["extra"]["violations_dropped"] = self.rec["extra"].get("violations_dropped", 0) + 1
            # keep unclassified ones visible even when the list is full
            if key is None and all(v["key"] is not None for v in self.rec["violations"]):
                self.rec["violations"][-1] = {"site": site, "what": what, "key": None, "detail": _jsonable(detail or {})}


def load_prop(pid):
    env.setup()
    return importlib.import_module(f"vlib.props.{pid.lower()}")


def _alarm(signum, frame):
    raise CaseTimeout()


def run_one(mod, tier, seed, index, spec):
    ctx = Ctx(mod.ID, tier, seed, index, spec)
    timeout = getattr(mod, "CASE_TIMEOUT", 120)
    t0 = time.time()
    # the per-case limit counts CPU seconds of this worker (ITIMER_PROF), so a loaded machine does not turn cases into
    # timeouts; a wall-clock alarm at 6x is the backstop for a case that blocks without computing
    signal.signal(signal.SIGPROF, _alarm)
    signal.signal(signal.SIGALRM, _alarm)
    signal.setitimer(signal.ITIMER_PROF, timeout)
    signal.setitimer(signal.ITIMER_REAL, 6 * timeout)
    try:
        if getattr(mod, "FORMAT_TWIN", False):
            # ambient monitor on System's matrix-valued methods (vlib/formattwin.py), drained into this case's record
            env.import_cardillo()
            from . import formattwin
            formattwin.install(int(getattr(mod, "FORMAT_TWIN_EVERY", 3)))
        mod.run_case(spec, ctx)
        if getattr(mod, "FORMAT_TWIN", False):
            formattwin.drain(ctx)
    except CaseTimeout:
        ctx.undecided(f"case timeout {timeout}s")
        ctx.rec["timeout"] = True
    except Exception as e:  # harness error: never a verdict about cardillo
        ctx.rec["harness_error"] = "".join(traceback.format_exception(type(e), e, e.__traceback__))[-3000:]
    finally:
        signal.setitimer(signal.ITIMER_PROF, 0)
        signal.setitimer(signal.ITIMER_REAL, 0)
    ctx.rec["wall"] = round(time.time() - t0, 4)
    return ctx.rec


def worker_main(argv):
    pid, tier, seed, k, n, out = argv[0], argv[1], int(argv[2]), int(argv[3]), int(argv[4]), argv[5]
    only = json.loads(argv[6]) if len(argv) > 6 else None
    mod = load_prop(pid)
    if hasattr(mod, "worker_init"):
        mod.worker_init(tier, seed)
    specs = mod.cases(tier, seed)
    with open(out, "w") as f:
        for i, spec in enumerate(specs):
            if only is not None:
                if i not in only:
                    continue
            elif i % n != k:
                continue
            rec = run_one(mod, tier, seed, i, spec)
            f.write(json.dumps(rec) + "\n")
            f.flush()
        f.write(json.dumps({"done": True}) + "\n")


# --------------------------------------------------------------------------
# main process
# --------------------------------------------------------------------------
def run_property(pid, tier, seed, replay=None, verbose=False):
    from . import verdict

    t_start = time.time()
    mod = load_prop(pid)
    specs = mod.cases(tier, seed)
    ncases = len(specs)
    # wall-clock watchdog (firing => inconclusive, never a verdict): the module's own estimate for an idle 16-core machine,
    # times a generous factor because the sandbox is shared
    budget = getattr(mod, "WALL_BUDGET", {"quick": 600, "thorough": 3600})[tier]
    budget = max(budget * float(os.environ.get("VERIF_BUDGET_FACTOR", "4")), 1800.0)
    work = tempfile.mkdtemp(prefix=f"verif-{pid}-")
    recs, dead = [], []
    try:
        if replay is not None:
            n, only = 1, [replay]
        else:
            n, only = min(NWORKERS, max(1, ncases)), None
        procs = []
        for k in range(n):
            out = os.path.join(work, f"w{k}.jsonl")
            cmd = [env.PYTHON, "-m", "vlib.worker", pid, tier, str(seed), str(k), str(n), out]
            if only is not None:
                cmd.append(json.dumps(only))
            log = open(os.path.join(work, f"w{k}.log"), "w")
            p = subprocess.Popen(cmd, cwd=env.VERIF, stdout=log, stderr=subprocess.STDOUT,
                                 env={**os.environ, "PYTHONPATH": env.VERIF})
            procs.append((k, p, out, log))
        deadline = t_start + budget
        for k, p, out, log in procs:
            try:
                p.wait(timeout=max(1.0, deadline - time.time()))
            except subprocess.TimeoutExpired:
                p.kill()
                p.wait()
                dead.append((k, "watchdog"))
            log.close()
            done = False
            if os.path.exists(out):
                for line in open(out):
                    try:
                        r = json.loads(line)
                    except Exception:
                        continue
                    if r.get("done"):
                        done = True
                    else:
                        recs.append(r)
            if not done and (k, "watchdog") not in dead:
                tail = open(os.path.join(work, f"w{k}.log")).read()[-1500:]
                dead.append((k, f"worker died rc={p.returncode}: {tail}"))
    finally:
        shutil.rmtree(work, ignore_errors=True)
    return verdict.conclude(mod, tier, seed, specs, recs, dead, time.time() - t_start,
                            replay=replay, verbose=verbose)
