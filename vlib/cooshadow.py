"""CooShadow: dense shadow of every cardillo CooMatrix, installed from the harness.

Every accepted ``coo[rows, cols] = value`` is mirrored into a dense float64 array with ``+=``
(the indices and the dense block are derived here, independently of the container's own
bookkeeping); every conversion (``tosparse`` - which all ``to*`` methods and ``asformat`` go
through) is compared with the shadow up to summation-order rounding.  Used on real assembly
workloads (C15 'system' family) in addition to the synthetic write histories of C15."""

import numpy as np

STATE = {"installed": False, "writes": 0, "nested_writes": 0, "sparse_writes": 0, "none_writes": 0, "conversions": 0, "untracked": 0,
         "mismatch": [], "accepted_inconsistent": []}


def _indices(k, n):
    if isinstance(k, slice):
        return np.arange(*k.indices(n))
    return np.atleast_1d(np.asarray(k)).astype(int)


def install():
    if STATE["installed"]:
        return
    from cardillo.utility.coo_matrix import CooMatrix
    from scipy.sparse import sparray
    orig_set, orig_tosparse = CooMatrix.__setitem__, CooMatrix.tosparse

    def shadow(c, create=True):
        sh = c.__dict__.get("_verif_shadow")
        if sh is None and create:
            if len(c.data) > 0:            # written before the monitor saw it: cannot be shadowed
                c.__dict__["_verif_shadow"] = sh = "untracked"
                STATE["untracked"] += 1
            else:
                c.__dict__["_verif_shadow"] = sh = [np.zeros(c.shape), np.zeros(c.shape), np.zeros(c.shape)]   # sum, sum|.|, count
        return sh

    def __setitem__(self, key, value):
        block = None
        consistent = None
        if value is not None:
            try:
                r, c = _indices(key[0], self.shape[0]), _indices(key[1], self.shape[1])
                if isinstance(value, CooMatrix):
                    vs = shadow(value)
                    block = None if vs == "untracked" else (vs[0], vs[1], np.maximum(vs[2], 1.0))
                    vshape = tuple(value.shape)
                    kind = "nested_writes"
                elif isinstance(value, sparray):
                    A = value.tocoo()
                    S, M, N = np.zeros(A.shape), np.zeros(A.shape), np.zeros(A.shape)
                    np.add.at(S, (A.row, A.col), A.data); np.add.at(M, (A.row, A.col), np.abs(A.data)); np.add.at(N, (A.row, A.col), 1.0)
                    block, vshape, kind = (S, M, np.maximum(N, 1.0)), tuple(A.shape), "sparse_writes"
                else:
                    A = np.atleast_2d(np.asarray(value, dtype=float))
                    block, vshape, kind = (A, np.abs(A), np.ones(A.shape)), tuple(A.shape), "writes"
                consistent = vshape == (len(r), len(c))
            except Exception:
                block, consistent = None, None
        sh = shadow(self)                   # (created before the write, while the container can still be seen empty)
        orig_set(self, key, value)          # a rejected write raises here and leaves the shadow untouched
        if value is None:
            STATE["none_writes"] += 1
            return
        if sh == "untracked":
            return
        if consistent is False:
            if len(STATE["accepted_inconsistent"]) < 5:
                STATE["accepted_inconsistent"].append({"shape": list(self.shape), "rows": len(r), "cols": len(c), "value_shape": list(vshape)})
            self.__dict__["_verif_shadow"] = "untracked"
            return
        if block is None or consistent is None:
            self.__dict__["_verif_shadow"] = "untracked"
            STATE["untracked"] += 1
            return
        STATE[kind] += 1
        if kind != "writes":
            STATE["writes"] += 1
        ix = (r[:, None], c[None, :])
        np.add.at(sh[0], ix, block[0]); np.add.at(sh[1], ix, block[1]); np.add.at(sh[2], ix, block[2])

    def tosparse(self, scipy_matrix, copy=False):
        out = orig_tosparse(self, scipy_matrix, copy=copy)
        sh = shadow(self)
        if sh != "untracked":
            STATE["conversions"] += 1
            got = out.toarray()
            tol = (sh[2] + 2) * np.finfo(float).eps * sh[1]
            if got.shape != sh[0].shape or np.any(np.abs(got - sh[0]) > tol):
                if len(STATE["mismatch"]) < 5:
                    import traceback
                    d = np.abs(got - sh[0]) if got.shape == sh[0].shape else None
                    STATE["mismatch"].append({"shape": list(self.shape), "format": getattr(out, "format", "?"),
                                              "max_abs_err": None if d is None else float(d.max()),
                                              "cell": None if d is None else [int(i) for i in np.unravel_index(int(np.argmax(d)), d.shape)],
                                              "caller": [f"{f.name}:{f.lineno}" for f in traceback.extract_stack()[-6:-1]]})
        return out

    CooMatrix.__setitem__ = __setitem__
    CooMatrix.tosparse = tosparse
    STATE["installed"] = True


def snapshot():
    return {k: (v if isinstance(v, int) else len(v)) for k, v in STATE.items() if k != "installed"}
