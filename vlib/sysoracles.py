"""System-level T/D/W oracles: apply the shared oracles to the methods of a real
assembled cardillo.System (so index scatter errors are seen too)."""

import numpy as np
from vlib.oracles import fd_jac, compare, path_derivative, dense


def path(system, t, q, u, u_dot):
    qd = system.q_dot(t, q, u)
    sc = 1.0 / max(1.0, np.linalg.norm(u, np.inf) if u.size else 0.0, np.linalg.norm(u_dot, np.inf) if u_dot.size else 0.0,
                   np.linalg.norm(qd, np.inf) if qd.size else 0.0)
    return (lambda s: (t + s, q + s * qd, u + s * u_dot)), sc


def _rep(ctx, site, what, c, extra, key_fn, J=None, D=None, err=None):
    if not c.ok:
        det = c.detail()
        det.update(extra or {})
        key = key_fn(site, J, D, err, det) if key_fn else None
        ctx.violation(site, what, det, key=key)
        return False
    if c.undecided:
        ctx.undecided(f"{site}: oracle too noisy")
    return True


def rate(ctx, site, claimed, f_of_s, sc, extra=None, key_fn=None, mon=None, floor=1e-6):
    D, err = path_derivative(f_of_s, scale=sc)
    claimed = np.asarray(claimed, dtype=float)
    c = compare(claimed, D, err, floor)
    ctx.mon(mon or f"T:{site.split('.')[-1]}")
    return _rep(ctx, site, "claimed rate differs from the time derivative along the kinematic path", c, {**(extra or {}), "monitor_kind": "T"}, key_fn, claimed, D, err)


def jac(ctx, site, claimed, f, x, extra=None, key_fn=None, mon=None, floor=1e-6, hrel=1e-4):
    D, err = fd_jac(f, x, hrel)
    J = dense(claimed)
    c = compare(J, D, err, floor)
    ctx.mon(mon or f"D:{site.split('.')[-1]}")
    return _rep(ctx, site, "claimed derivative differs from finite-difference derivative", c, {**(extra or {}), "monitor_kind": "D"}, key_fn, J, D, err)


def guarded(ctx, site, fn, allowed=(NotImplementedError,), extra=None, key_fn=None):
    """call fn(); an exception of an allowed type is counted, any other exception raised by
    cardillo is reported as a violation ('exposed method fails'). Returns (ok, value)."""
    try:
        return True, fn()
    except allowed as e:
        ctx.count(f"declared_unimplemented:{site}")
        return False, None
    except Exception as e:
        det = {"error": f"{type(e).__name__}: {e}"[:300]}
        det.update(extra or {})
        key = key_fn(site, e, det) if key_fn else None
        ctx.violation(site, f"exposed method raises {type(e).__name__} instead of returning or declaring NotImplementedError", det, key=key)
        return False, None


def constraint_hierarchy(ctx, system, t, q, u, u_dot, la, label, names=None, extra=None, key_fn=None, exc_key_fn=None):
    """bilateral-constraint style hierarchy on System methods.
    names: dict(g, g_dot, g_ddot, W, g_q, g_dot_q, g_dot_u, Wla_q)"""
    n = {"g": "g", "g_dot": "g_dot", "g_ddot": "g_ddot", "W": "W_g", "g_q": "g_q", "g_dot_q": "g_dot_q",
         "g_dot_u": "g_dot_u", "Wla_q": "Wla_g_q"}
    n.update(names or {})
    P, sc = path(system, t, q, u, u_dot)
    S = system
    ex = dict(extra or {})
    ex.update({"t": t, "q": q, "u": u})
    g = getattr(S, n["g"]); g_dot = getattr(S, n["g_dot"])
    ok, gd = guarded(ctx, f"{label}.{n['g_dot']}", lambda: g_dot(t, q, u), extra=ex, key_fn=exc_key_fn)
    if ok:
        rate(ctx, f"{label}.{n['g_dot']}", gd, lambda s: g(P(s)[0], P(s)[1]), sc, ex, key_fn, mon="T:g_dot")
        okW, W = guarded(ctx, f"{label}.{n['W']}", lambda: getattr(S, n["W"])(t, q), extra=ex, key_fn=exc_key_fn)
        if okW:
            jac(ctx, f"{label}.{n['W']}", dense(W).T, lambda v: g_dot(t, q, v), u, ex, key_fn, mon="W:W")
    if n.get("g_ddot"):
        ok2, gdd = guarded(ctx, f"{label}.{n['g_ddot']}", lambda: getattr(S, n["g_ddot"])(t, q, u, u_dot), extra=ex, key_fn=exc_key_fn)
        if ok2 and ok:
            rate(ctx, f"{label}.{n['g_ddot']}", gdd, lambda s: g_dot(*P(s)), sc, {**ex, "u_dot": u_dot}, key_fn, mon="T:g_ddot")
    if n.get("g_q"):
        okq, J = guarded(ctx, f"{label}.{n['g_q']}", lambda: getattr(S, n["g_q"])(t, q), extra=ex, key_fn=exc_key_fn)
        if okq:
            jac(ctx, f"{label}.{n['g_q']}", J, lambda x: g(t, x), q, ex, key_fn, mon="D:g_q")
    if n.get("g_dot_q") and ok:
        okq, J = guarded(ctx, f"{label}.{n['g_dot_q']}", lambda: getattr(S, n["g_dot_q"])(t, q, u), extra=ex, key_fn=exc_key_fn)
        if okq:
            jac(ctx, f"{label}.{n['g_dot_q']}", J, lambda x: g_dot(t, x, u), q, ex, key_fn, mon="D:g_dot_q")
    if n.get("g_dot_u") and ok:
        oku, J = guarded(ctx, f"{label}.{n['g_dot_u']}", lambda: getattr(S, n["g_dot_u"])(t, q), extra=ex, key_fn=exc_key_fn)
        if oku:
            jac(ctx, f"{label}.{n['g_dot_u']}", J, lambda v: g_dot(t, q, v), u, ex, key_fn, mon="D:g_dot_u")
    if n.get("Wla_q") and ok:
        okw, J = guarded(ctx, f"{label}.{n['Wla_q']}", lambda: getattr(S, n["Wla_q"])(t, q, la), extra=ex, key_fn=exc_key_fn)
        if okw:
            Wf = getattr(S, n["W"])
            jac(ctx, f"{label}.{n['Wla_q']}", J, lambda x: dense(Wf(t, x)) @ la, q, {**ex, "la": la}, key_fn, mon="D:Wla_q")
    # ---- the same state again: values must not depend on what was evaluated before
    argmap = {"g": (t, q), "g_dot": (t, q, u), "g_ddot": (t, q, u, u_dot), "W": (t, q), "g_q": (t, q), "g_dot_q": (t, q, u), "g_dot_u": (t, q), "Wla_q": (t, q, la)}
    calls = [(n[k], (lambda f=getattr(S, n[k]), a=argmap[k]: f(*a))) for k in ("Wla_q", "W", "g_dot_u", "g_dot", "g_q", "g_ddot", "g_dot_q", "g") if n.get(k) and hasattr(S, n[k])]
    repeat_consistency(ctx, label, calls, extra=ex)


def repeat_consistency(ctx, label, calls, extra=None, mon="REPEAT"):
    """call-history monitor on System methods: every (name, thunk) is evaluated once, then all of them again in reverse and
    in forward order at the SAME arguments; the values must not change (1e-12 relative). Catches results that depend on what
    was evaluated before at that state - e.g. a kinematic array held in a one-entry cache and updated in place by a caller."""
    first = {}
    for name, f in calls:
        try:
            first[name] = np.array(dense(f()), dtype=float)
        except Exception:
            continue          # availability / exceptions are judged by the primary monitors
    bad = set()
    for order in (list(reversed(calls)), list(calls)):
        for name, f in order:
            if name not in first or name in bad:
                continue
            ctx.mon(mon)
            try:
                y = np.array(dense(f()), dtype=float)
            except Exception as e:
                bad.add(name)
                ctx.violation(f"{label}.{name}", "repeated evaluation at the same state raises although the first one succeeded", {**(extra or {}), "error": f"{type(e).__name__}: {e}"[:200]})
                continue
            a = first[name]
            if y.shape != a.shape or (a.size and np.abs(y - a).max() > 1e-12 * (1.0 + np.abs(a).max())):
                bad.add(name)
                ctx.violation(f"{label}.{name}", "repeated evaluation at the same state returns different values (the result depends on the call history)",
                              {**(extra or {}), "max_abs_change": float(np.abs(y - a).max()) if y.shape == a.shape and a.size else None,
                               "evaluated_before": [n_ for n_, _ in order[:order.index((name, f))]][-6:]})
    return not bad


def quat_steps(system, q, hrel=1e-4):
    """per-coordinate relative difference steps for a system coordinate vector: rigid-body quaternions shorter than one are
    stepped relative to their own length (the rotation they stand for varies on that scale), everything else as usual"""
    h = np.full(len(q), float(hrel))
    for c in system.contributions:
        if getattr(c, "nq", 0) == 7 and hasattr(c, "B_Theta_C") and hasattr(c, "my_qDOF"):
            n_ = float(np.linalg.norm(np.asarray(q, dtype=float)[c.my_qDOF[3:]]))
            if 0 < n_ < 1:
                h[c.my_qDOF[3:]] = hrel * n_
    return h


def jac_call(ctx, site, claimed_fn, f, x, extra=None, key_fn=None, mon=None, exc_key_fn=None, floor=1e-6, hrel=1e-4):
    """like jac, but the claimed derivative is obtained by calling claimed_fn(); an exception there is a
    violation ('exposed derivative fails') unless it is NotImplementedError"""
    ok, J = guarded(ctx, site, claimed_fn, extra=extra, key_fn=exc_key_fn)
    if mon and not ok:
        ctx.mon(mon)
    if ok:
        return jac(ctx, site, J, f, x, extra, key_fn, mon, floor, hrel)
    return False
