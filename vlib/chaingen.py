"""Random open / closed kinematic chains (real cardillo systems, fully assembled with
consistent initial conditions) for the integrator properties C17, C19, C20, C24."""

import numpy as np
from vlib import gen
from vlib.oracles import quat_to_mat, loguniform, random_unit

GRAV = np.array([0.0, 0.0, -9.81])
JOINTS_ORI = ["Spherical", "Revolute", "RigidConnection", "Prismatic", "Cylindrical", "Planarizer", "FixedDistance"]


def build_chain(rng, nbodies=None, closed=False, base="origin", springs=True, point_masses=True, joint_kinds=None,
                gravity=True, t0=0.0, initial_velocity=False, actuators=False, rest_start=False, mass_scale=1.0):
    """chain base - j1 - b1 - j2 - b2 ... (optionally closed by a spherical joint back to the base).
    mass_scale multiplies every mass, inertia, stiffness, damping and actuator torque: the motion is the same, all forces
    and multipliers scale with it.
    Bodies start at rest unless the base is a moving frame, in which case the whole chain moves rigidly
    with the frame at t0 (consistent with every joint). Returns (system, info)."""
    from cardillo import System
    from cardillo.discrete import RigidBody, PointMass, Frame
    from cardillo.forces import Force
    from cardillo.interactions import TwoPointInteraction
    from cardillo.force_laws import Spring, KelvinVoigtElement
    import cardillo.constraints as C
    S = System(t0=t0)
    nb = int(rng.integers(2, 5)) if nbodies is None else nbodies
    mot = None
    if base == "origin":
        root = S.origin
    else:
        mot = gen.Motion(rng, moving=True, rotating=(base == "rotating"), rest_at=(t0 if rest_start else None))
        info_rest = bool(rest_start)
        root = mot.frame(Frame, name="base")
        S.add(root)
    kinds = joint_kinds or JOINTS_ORI
    bodies, joints, info = [], [], {"bodies": [], "joints": [], "closed": closed, "base": base}
    prev = root
    prev_pos = mot.r(t0) if mot is not None else np.zeros(3)
    for i in range(nb):
        pos = prev_pos + random_unit(rng) * float(rng.uniform(0.4, 1.2))
        is_pm = point_masses and i == nb - 1 and rng.random() < 0.3 and not closed
        jk = kinds[int(rng.integers(len(kinds)))]
        if is_pm:
            jk = ["Spherical", "FixedDistance"][int(rng.integers(2))]
            b = PointMass(float(loguniform(rng, 0.3, 3)) * mass_scale, q0=pos, u0=np.zeros(3), name=f"pm{i}")
        else:
            P = rng.normal(size=4); P /= np.linalg.norm(P)
            m = float(loguniform(rng, 0.3, 3)) * mass_scale
            b = RigidBody(m, gen.random_spd(rng, 3, 0.02, 0.3) * mass_scale, q0=np.concatenate([pos, P]), u0=np.zeros(6), name=f"b{i}")
        if mot is not None:
            # rigid motion with the base frame at t0
            A_f = mot.A(t0) if mot.rotating else mot.A0
            Om = A_f @ mot.omega_B(t0) if mot.rotating else np.zeros(3)
            v = mot.r_t(t0) + np.cross(Om, pos - mot.r(t0))
            if is_pm:
                b.u0 = v
            else:
                b.u0 = np.concatenate([v, quat_to_mat(b.q0[3:]).T @ Om])
        r_J = 0.5 * (prev_pos + pos) if jk != "FixedDistance" else None
        if jk == "Spherical" and (is_pm or getattr(prev, "name", "") .startswith("pm")):
            r_J = pos if is_pm else prev_pos
        axis = int(rng.integers(3))
        A_J = quat_to_mat(rng.normal(size=4))
        if jk == "Spherical":
            j = C.Spherical(prev, b, r_OJ0=r_J, name=f"j{i}")
        elif jk == "RigidConnection":
            j = C.RigidConnection(prev, b, r_OJ0=r_J, A_IJ0=A_J, name=f"j{i}")
        elif jk == "Revolute":
            j = C.Revolute(prev, b, axis, r_OJ0=r_J, A_IJ0=A_J, name=f"j{i}")
        elif jk == "FixedDistance":
            j = C.FixedDistance(prev, b); j.name = f"j{i}"
        else:
            j = getattr(C, jk)(prev, b, axis, r_OJ0=r_J, A_IJ0=A_J); j.name = f"j{i}"
        S.add(b, j)
        if actuators and jk == "Revolute" and rng.random() < 0.7:
            from cardillo.actuators import Motor, PDcontroller
            a_, w_ = float(rng.normal() * 3) * mass_scale, float(rng.uniform(0.5, 3))
            if rng.random() < 0.5:
                act = Motor(j, (lambda t, a_=a_, w_=w_: a_ * np.cos(w_ * t)) if rng.random() < 0.5 else a_)
                info.setdefault("actuators", []).append("Motor")
            else:
                act = PDcontroller(j, float(loguniform(rng, 1, 30)) * mass_scale, float(loguniform(rng, 0.1, 3)) * mass_scale,
                                   lambda t, a_=a_ / mass_scale, w_=w_: np.array([0.2 * a_ * np.sin(w_ * t), 0.2 * a_ * w_ * np.cos(w_ * t)]))
                info.setdefault("actuators", []).append("PD")
            act.name = f"act{i}"
            S.add(act)
        if gravity:
            S.add(Force(b.mass * GRAV, b, name=f"grav{i}"))
        bodies.append(b); joints.append(j)
        info["bodies"].append("PointMass" if is_pm else "RigidBody"); info["joints"].append(jk)
        prev, prev_pos = b, pos
    if closed and nb >= 2 and not isinstance(bodies[-1], PointMass):
        # close the loop: last body back to the base with a fixed-distance link (one constraint, never redundant)
        j = C.FixedDistance(root, bodies[-1], B2_r_P2J2=rng.normal(size=3) * 0.2); j.name = "jclose"
        S.add(j); joints.append(j); info["joints"].append("FixedDistance(close)")
    if springs:
        for k in range(int(rng.integers(1, 3))):
            b = bodies[int(rng.integers(len(bodies)))]
            tpi = TwoPointInteraction(root, b, B_r_CP1=rng.normal(size=3) * 0.3 + np.array([0.0, 0.0, 1.0]))
            law = int(rng.integers(3))
            kk = float(loguniform(rng, 5, 200)) * mass_scale
            if law == 0:
                e = Spring(tpi, kk, l_ref=float(rng.uniform(0.5, 1.5)), compliance_form=False, name=f"spring{k}")
            elif law == 1:
                e = Spring(tpi, kk, l_ref=float(rng.uniform(0.5, 1.5)), compliance_form=True, name=f"spring{k}")
            else:
                e = KelvinVoigtElement(tpi, kk, float(loguniform(rng, 0.1, 5)) * mass_scale, l_ref=float(rng.uniform(0.5, 1.5)), compliance_form=bool(rng.random() < 0.5), name=f"kv{k}")
            S.add(e)
            info.setdefault("laws", []).append(["Spring:force", "Spring:compliance", "KelvinVoigt"][law])
    rb_ = [b for b in bodies if not isinstance(b, PointMass)]
    if springs and rb_ and rng.random() < 0.25:
        # a pre-stressed spring between two points of ONE rigid body (an internal force pair: the points keep their distance,
        # the two generalized forces cancel, the motion is the one without it)
        b = rb_[int(rng.integers(len(rb_)))]
        tpi = TwoPointInteraction(b, b, B_r_CP1=rng.normal(size=3) * 0.3, B_r_CP2=rng.normal(size=3) * 0.3)
        S.add(Spring(tpi, float(loguniform(rng, 20, 200)) * mass_scale, l_ref=float(rng.uniform(0.1, 0.3)), compliance_form=False, name="internal_spring"))
        info.setdefault("laws", []).append("Spring:force(same body)")
    return S, bodies, joints, info
