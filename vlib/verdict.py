"""Three-valued verdict, known-findings classifier, evidence writer."""

import os
import json
import hashlib

from . import env

KF_PATH = os.path.join(env.VERIF, "known_findings.json")
# runs against a scratch copy of the repository (VERIF_REPO=<dir>, mutation self-tests) must not overwrite the
# evidence of the real tree: their output goes to $VERIF_OUT or a scratch directory outside /verif
if env.REPO != "/repo" or os.environ.get("VERIF_OUT"):
    _OUT = os.environ.get("VERIF_OUT") or os.path.join("/tmp", "verif-scratch-out", env.REPO.strip("/").replace("/", "_"))
else:
    _OUT = env.VERIF
EVID_DIR = os.path.join(_OUT, "evidence")
REPLAY_DIR = os.path.join(_OUT, "replays")
SCHEMA = os.path.join(env.VERIF, "schemas", "EVIDENCE.schema.json")


def known_findings(pid):
    """open findings of this property: key -> what. 'fixed' entries suppress nothing."""
    try:
        data = json.load(open(KF_PATH))
    except FileNotFoundError:
        return {}
    out = {}
    for e in data.get("findings", []):
        if e.get("property") == pid and e.get("status") == "open":
            out[e["key"]] = e.get("what", "")
    return out


def conclude(mod, tier, seed, specs, recs, dead, wall, replay=None, verbose=False):
    pid = mod.ID
    kf = known_findings(pid)
    recs.sort(key=lambda r: r["i"])
    classes, monitors, extra = {}, {}, {}
    sigs = set()
    samples = []
    undecided_cases, harness_errors, timeouts = [], [], 0
    new_viol, known_seen = [], {}
    for r in recs:
        for k, v in r["classes"].items():
            classes[k] = classes.get(k, 0) + v
        for k, v in r["monitors"].items():
            monitors[k] = monitors.get(k, 0) + v
        for k, v in r.get("extra", {}).items():
            if isinstance(v, (int, float)) and not isinstance(v, bool):
                extra[k] = max(extra.get(k, v), v) if k.startswith("max_") else extra.get(k, 0) + v
            else:
                extra.setdefault(k, v)
        if r.get("nontrivial") and r.get("sig"):
            sigs.add(r["sig"])
        if r.get("sample") is not None and len(samples) < 6:
            samples.append({"case": r["i"], **(r["sample"] if isinstance(r["sample"], dict) else {"value": r["sample"]})})
        if r.get("harness_error"):
            harness_errors.append((r["i"], r["harness_error"]))
        if r.get("timeout"):
            timeouts += 1
        if r["undecided"] and not r["violations"]:
            undecided_cases.append((r["i"], r["undecided"][0]))
        for v in r["violations"]:
            if v["key"] is not None and v["key"] in kf:
                known_seen.setdefault(v["key"], []).append(r["i"])
            else:
                new_viol.append((r["i"], v))

    expected = len(specs) if replay is None else 1
    missing = expected - len(recs)
    reasons = []
    if dead:
        reasons.append(f"{len(dead)} worker(s) did not finish ({dead[0][1][:300]}); {missing} case(s) without verdict")
    elif missing > 0:
        reasons.append(f"{missing} case(s) produced no record")
    if harness_errors:
        reasons.append(f"{len(harness_errors)} case(s) hit a harness error, first: case {harness_errors[0][0]}: {harness_errors[0][1][-600:]}")
    decided = len(recs) - len(undecided_cases) - len(harness_errors)
    min_decided = getattr(mod, "MIN_DECIDED", 0.6)
    if replay is None:
        if recs and decided < min_decided * len(recs):
            reasons.append(f"only {decided}/{len(recs)} cases decided (need {min_decided:.0%}); first undecided: {undecided_cases[:1]}")
        for m in getattr(mod, "REQUIRED_MONITORS", []):
            if monitors.get(m, 0) == 0:
                reasons.append(f"deciding monitor '{m}' never evaluated")
        if len(sigs) < 2:
            reasons.append("fewer than 2 distinct non-trivial cases observed")
        if hasattr(mod, "finalize"):
            agg = {"classes": classes, "monitors": monitors, "extra": extra, "recs": recs, "tier": tier}
            more = mod.finalize(agg)
            if more:
                reasons.extend(more)
            extra.update(agg.get("extra_out", {}))

    # ---------------- output lines -----------------
    lines = []
    for key, idx in sorted(known_seen.items()):
        lines.append(f"KNOWN-FINDING: property={pid} {key}: {kf[key]} (seen in {len(idx)} case(s), e.g. case {idx[0]})")
    if replay is None:
        for key in sorted(set(kf) - set(known_seen)):
            lines.append(f"note: listed finding {key} was not observed in this run")
    replay_paths = []
    groups = {}
    for i, v in new_viol:
        groups.setdefault((v["site"], v["what"]), []).append((i, v))
    os.makedirs(REPLAY_DIR, exist_ok=True)
    for (site, what), items in sorted(groups.items()):
        i, v = items[0]
        h = hashlib.sha1(f"{pid}/{site}/{what}".encode()).hexdigest()[:10]
        path = os.path.join(REPLAY_DIR, f"{pid}-{h}.json")
        json.dump({"property": pid, "tier": tier, "seed": seed, "case": i, "spec": specs[i] if i < len(specs) else None,
                   "site": site, "what": what, "key": v["key"], "detail": v["detail"],
                   "occurrences": len(items), "other_cases": [j for j, _ in items[1:20]],
                   "replay_cmd": f"./check {pid} --tier {tier} --seed {seed} --replay {os.path.relpath(path, env.VERIF)}"},
                  open(path, "w"), indent=1)
        replay_paths.append(path)
        lines.append(f"VIOLATION property={pid} replay={path}  # {site}: {what} ({len(items)} case(s))")

    status = "violated" if new_viol else ("inconclusive" if reasons else "held")
    for rs in reasons:
        lines.append(f"INCONCLUSIVE property={pid} reason={rs}")

    # ---------------- evidence -----------------
    if replay is None:
        coverage = {
            "evaluations": len(recs),
            "distinct_nontrivial": len(sigs),
            "rule": getattr(mod, "RULE", ""),
            "samples": samples or [{"note": "no sample recorded"}],
            "monitor_evaluations": monitors,
            "input_classes": classes,
            "undecided_cases": len(undecided_cases),
            "case_timeouts": timeouts,
            "known_findings_seen": {k: len(v) for k, v in known_seen.items()},
            "status": status,
            "counters": extra,
        }
        if getattr(mod, "EXHAUSTIVE", False):
            coverage["exhaustive"] = True
        ev = {
            "property_id": pid, "tier": tier, "seed": int(seed), "level": mod.LEVEL,
            "coverage": coverage, "assumptions": list(getattr(mod, "ASSUMPTIONS", [])),
            "wall_s": round(wall, 2), "violations": len(groups),
        }
        os.makedirs(EVID_DIR, exist_ok=True)
        path = os.path.join(EVID_DIR, f"{pid}.json")
        json.dump(ev, open(path, "w"), indent=1, sort_keys=True)
        try:
            import jsonschema
            jsonschema.validate(ev, json.load(open(SCHEMA)))
        except Exception as e:  # an invalid evidence file is no evidence
            if status == "held":
                status = "inconclusive"
            lines.append(f"INCONCLUSIVE property={pid} reason=evidence does not validate: {str(e)[:300]}")

    summary = (f"{pid} {tier} seed={seed}: {status}; cases={len(recs)}/{expected} distinct_nontrivial={len(sigs)} "
               f"monitors={sum(monitors.values())} undecided={len(undecided_cases)} known={len(known_seen)} "
               f"new_violations={len(groups)} wall={wall:.1f}s")
    lines.append(summary)
    if verbose:
        lines.append(json.dumps({"monitors": monitors, "classes": classes, "counters": extra}, indent=1))
        for i, v in new_viol[:10]:
            lines.append(f"  case {i}: {json.dumps(v)[:1500]}")
        for i, u in undecided_cases[:5]:
            lines.append(f"  undecided case {i}: {u}")
        seen = set()
        for i, he in harness_errors:
            last = he.strip().splitlines()[-1][:300]
            if last not in seen and len(seen) < 8:
                seen.add(last)
                lines.append(f"  harness error case {i}: {he[-900:]}")
    code = {"held": 0, "violated": 1, "inconclusive": 2}[status]
    return code, lines
