"""Seeded generators for bodies, frames, states and small systems (real cardillo objects)."""

import io
import contextlib
import numpy as np
from vlib.oracles import loguniform, random_unit, quat_to_mat, rodrigues, skew


@contextlib.contextmanager
def quiet():
    """cardillo prints progress and messages; keep worker logs small"""
    buf = io.StringIO()
    with contextlib.redirect_stdout(buf), contextlib.redirect_stderr(buf):
        yield buf


def random_spd(rng, n=3, lo=1e-2, hi=1e2):
    Q, _ = np.linalg.qr(rng.normal(size=(n, n)))
    ev = loguniform(rng, lo, hi, size=n)
    if n == 3:  # triangle inequality of principal moments of inertia
        ev = np.sort(ev)
        if ev[2] > ev[0] + ev[1]:
            ev[2] = 0.9 * (ev[0] + ev[1])
    M = (Q * ev) @ Q.T
    return 0.5 * (M + M.T)


def random_quaternion(rng, unit=None):
    """returns (P, class). unit=True forces unit length, False forces non-unit"""
    P = rng.normal(size=4)
    c = int(rng.integers(6))
    if c == 0:
        P[0] = 0.0
    elif c == 1:
        P[1:] *= 1e-6
    P /= np.linalg.norm(P)
    if unit is None:
        unit = rng.random() < 0.4
    if unit:
        return P, "unit"
    s = loguniform(rng, 1e-3, 1e3) if rng.random() < 0.5 else rng.uniform(0.5, 2.0)
    return P * s, "nonunit"


def rigid_body_state(rng, unit=None, big=False):
    r = rng.normal(size=3) * (loguniform(rng, 1e-3, 1e3) if big else 1.0)
    P, cls = random_quaternion(rng, unit)
    q = np.concatenate([r, P])
    u = rng.normal(size=6) * (loguniform(rng, 1e-2, 1e2) if rng.random() < 0.5 else 1.0)
    if rng.random() < 0.1:
        u[:] = 0.0
    u_dot = rng.normal(size=6) * loguniform(rng, 1e-2, 1e2)
    return q, u, u_dot, cls


def offset(rng):
    c = int(rng.integers(4))
    if c == 0:
        return np.zeros(3), "zero"
    if c == 1:
        return rng.normal(size=3) * 1e3, "large"
    return rng.normal(size=3), "random"


class Motion:
    """smooth prescribed motion with exact derivatives:
    r(t) polynomial + trigonometric, A(t) = A0 Exp(a f(t)) with f smooth scalar"""

    def __init__(self, rng, moving=True, rotating=True):
        self.c0 = rng.normal(size=3)
        self.c1 = rng.normal(size=3) * moving
        self.c2 = rng.normal(size=3) * moving * 0.5
        self.amp = rng.normal(size=3) * moving
        self.om = rng.uniform(0.5, 3.0)
        self.ph = rng.uniform(0, 2 * np.pi)
        self.A0 = quat_to_mat(rng.normal(size=4))
        self.axis = random_unit(rng)
        self.k1 = rng.normal() * rotating
        self.k2 = rng.normal() * rotating
        self.w = rng.uniform(0.5, 3.0)
        self.moving, self.rotating = bool(moving), bool(rotating)

    # position
    def r(self, t):
        return self.c0 + self.c1 * t + self.c2 * t * t + self.amp * np.sin(self.om * t + self.ph)

    def r_t(self, t):
        return self.c1 + 2 * self.c2 * t + self.amp * self.om * np.cos(self.om * t + self.ph)

    def r_tt(self, t):
        return 2 * self.c2 - self.amp * self.om**2 * np.sin(self.om * t + self.ph)

    # angle function
    def f(self, t):
        return self.k1 * t + self.k2 * np.sin(self.w * t)

    def f_t(self, t):
        return self.k1 + self.k2 * self.w * np.cos(self.w * t)

    def f_tt(self, t):
        return -self.k2 * self.w**2 * np.sin(self.w * t)

    def A(self, t):
        return self.A0 @ rodrigues(self.axis * self.f(t))

    def A_t(self, t):
        return self.A(t) @ skew(self.axis) * self.f_t(t)

    def A_tt(self, t):
        K = skew(self.axis)
        return self.A(t) @ (K @ K * self.f_t(t) ** 2 + K * self.f_tt(t))

    def omega_B(self, t):
        return self.axis * self.f_t(t)

    def psi_B(self, t):
        return self.axis * self.f_tt(t)

    def frame(self, Frame, name="frame", constant_orientation=False):
        if constant_orientation or not self.rotating:
            A0 = self.A0
            return Frame(r_OP=self.r, r_OP_t=self.r_t, r_OP_tt=self.r_tt, A_IB=A0, name=name)
        return Frame(r_OP=self.r, r_OP_t=self.r_t, r_OP_tt=self.r_tt, A_IB=self.A, A_IB_t=self.A_t, A_IB_tt=self.A_tt, name=name)


def path_state(body_q_dot, t, q, u, u_dot):
    """returns s -> (t+s, q+s*q_dot, u+s*u_dot): straight line with the right first derivative"""
    qd = body_q_dot(t, q, u)
    return lambda s: (t + s, q + s * qd, u + s * u_dot)
