"""Seeded generators for bodies, frames, states and small systems (real cardillo objects)."""

import io
import contextlib
import numpy as np
from vlib.oracles import loguniform, random_unit, quat_to_mat, rodrigues, skew


@contextlib.contextmanager
def quiet():
    """cardillo prints progress and messages; keep worker logs small"""
    buf = io.StringIO()
    with contextlib.redirect_stdout(buf), contextlib.redirect_stderr(buf):
        yield buf


def random_spd(rng, n=3, lo=1e-2, hi=1e2):
    Q, _ = np.linalg.qr(rng.normal(size=(n, n)))
    ev = loguniform(rng, lo, hi, size=n)
    if n == 3:  # triangle inequality of principal moments of inertia
        ev = np.sort(ev)
        if ev[2] > ev[0] + ev[1]:
            ev[2] = 0.9 * (ev[0] + ev[1])
    M = (Q * ev) @ Q.T
    return 0.5 * (M + M.T)


def random_quaternion(rng, unit=None):
    """returns (P, class). unit=True forces unit length, False forces non-unit"""
    P = rng.normal(size=4)
    c = int(rng.integers(6))
    if c == 0:
        P[0] = 0.0
    elif c == 1:
        P[1:] *= 1e-6
    P /= np.linalg.norm(P)
    if unit is None:
        unit = rng.random() < 0.4
    if unit:
        return P, "unit"
    s = loguniform(rng, 1e-3, 1e3) if rng.random() < 0.5 else rng.uniform(0.5, 2.0)
    return P * s, "nonunit"


def rigid_body_state(rng, unit=None, big=False):
    r = rng.normal(size=3) * (loguniform(rng, 1e-3, 1e3) if big else 1.0)
    P, cls = random_quaternion(rng, unit)
    q = np.concatenate([r, P])
    u = rng.normal(size=6) * (loguniform(rng, 1e-2, 1e2) if rng.random() < 0.5 else 1.0)
    r_ = rng.random()
    if r_ < 0.1:
        u[:] = 0.0
    elif r_ < 0.25:
        # rotation about one body axis / in a body-fixed plane, pure translation, motion along one axis: components that are
        # exactly zero without the whole vector being zero
        k_ = int(rng.integers(4))
        if k_ == 0:
            z = int(rng.integers(3)); u[3:] = np.where(np.arange(3) == z, u[3 + z], 0.0)
        elif k_ == 1:
            u[3 + int(rng.integers(3))] = 0.0
        elif k_ == 2:
            u[3:] = 0.0
        else:
            u[int(rng.integers(3))] = 0.0
    u_dot = rng.normal(size=6) * loguniform(rng, 1e-2, 1e2)
    return q, u, u_dot, cls


def on_axis_or_plane(rng, v):
    """the vector with one or two components set to EXACTLY zero (a point on a body axis or in a coordinate plane)"""
    v = np.array(v, dtype=float)
    k = int(rng.integers(3))
    if rng.random() < 0.5:
        v[k] = 0.0
    else:
        v[[i for i in range(3) if i != k]] = 0.0
    return v


def offset(rng):
    c = int(rng.integers(5))
    if c == 0:
        return np.zeros(3), "zero"
    if c == 1:
        return rng.normal(size=3) * 1e3, "large"
    if c == 2:
        return on_axis_or_plane(rng, rng.normal(size=3)), "axis_or_plane"
    return rng.normal(size=3), "random"


class Motion:
    """smooth prescribed motion with exact derivatives:
    r(t) polynomial + trigonometric, A(t) = A0 Exp(a f(t)) with f smooth scalar"""

    def __init__(self, rng, moving=True, rotating=True, rest_at=None):
        self.c0 = rng.normal(size=3)
        self.c1 = rng.normal(size=3) * moving
        self.c2 = rng.normal(size=3) * moving * 0.5
        self.amp = rng.normal(size=3) * moving
        self.om = rng.uniform(0.5, 3.0)
        self.ph = rng.uniform(0, 2 * np.pi)
        self.A0 = quat_to_mat(rng.normal(size=4))
        self.axis = random_unit(rng)
        self.k1 = rng.normal() * rotating
        self.k2 = rng.normal() * rotating
        self.w = rng.uniform(0.5, 3.0)
        self.moving, self.rotating = bool(moving), bool(rotating)
        # uniform translation whose derivatives are handed to Frame as plain arrays (the documented non-callable form):
        # Frame then keeps ONE array object per derivative for its whole life
        self.array_derivatives = bool(moving) and bool(rng.random() < 0.25)
        if self.array_derivatives:
            self.c2 = np.zeros(3)
            self.amp = np.zeros(3)
        self.phr = 0.0
        if rest_at is not None:
            # a drive that starts smoothly from rest: velocity and angular velocity vanish at t = rest_at (and only there)
            self.array_derivatives = False
            self.c1 = np.zeros(3); self.c2 = np.zeros(3)
            self.amp = rng.normal(size=3) * moving
            self.k1 = 0.0
        self.rest_at = rest_at

    # position
    # (rest start: amp*(1 - cos(om*(t - t_rest))) and k2*(1 - cos(w*(t - t_rest))), whose first derivatives are EXACTLY zero at
    # t_rest in floating point, as in the usual hand-written smooth start)
    def r(self, t):
        if self.rest_at is not None:
            return self.c0 + self.amp * (1.0 - np.cos(self.om * (t - self.rest_at)))
        return self.c0 + self.c1 * t + self.c2 * t * t + self.amp * np.sin(self.om * t + self.ph)

    def r_t(self, t):
        if self.rest_at is not None:
            return self.amp * self.om * np.sin(self.om * (t - self.rest_at))
        return self.c1 + 2 * self.c2 * t + self.amp * self.om * np.cos(self.om * t + self.ph)

    def r_tt(self, t):
        if self.rest_at is not None:
            return self.amp * self.om**2 * np.cos(self.om * (t - self.rest_at))
        return 2 * self.c2 - self.amp * self.om**2 * np.sin(self.om * t + self.ph)

    # angle function
    def f(self, t):
        if self.rest_at is not None:
            return self.k2 * (1.0 - np.cos(self.w * (t - self.rest_at)))
        return self.k1 * t + self.k2 * np.sin(self.w * t + self.phr)

    def f_t(self, t):
        if self.rest_at is not None:
            return self.k2 * self.w * np.sin(self.w * (t - self.rest_at))
        return self.k1 + self.k2 * self.w * np.cos(self.w * t + self.phr)

    def f_tt(self, t):
        if self.rest_at is not None:
            return self.k2 * self.w**2 * np.cos(self.w * (t - self.rest_at))
        return -self.k2 * self.w**2 * np.sin(self.w * t + self.phr)

    def A(self, t):
        return self.A0 @ rodrigues(self.axis * self.f(t))

    def A_t(self, t):
        return self.A(t) @ skew(self.axis) * self.f_t(t)

    def A_tt(self, t):
        K = skew(self.axis)
        return self.A(t) @ (K @ K * self.f_t(t) ** 2 + K * self.f_tt(t))

    def omega_B(self, t):
        return self.axis * self.f_t(t)

    def psi_B(self, t):
        return self.axis * self.f_tt(t)

    def frame(self, Frame, name="frame", constant_orientation=False):
        rt, rtt = (self.c1.copy(), np.zeros(3)) if self.array_derivatives else (self.r_t, self.r_tt)
        pos = dict(r_OP=self.r, r_OP_t=rt, r_OP_tt=rtt)
        if not self.moving and self.rest_at is None and int(abs(self.c0[0]) * 1e6) % 2 == 0:
            # a fixed origin written the natural way: one constant array, no derivatives (pillar, turntable, crank bearing)
            pos = dict(r_OP=self.c0.copy())
            self.origin_as_array = True
        if constant_orientation or not self.rotating:
            A0 = self.A0
            return Frame(**pos, A_IB=A0, name=name)
        return Frame(**pos, A_IB=self.A, A_IB_t=self.A_t, A_IB_tt=self.A_tt, name=name)


def path_state(body_q_dot, t, q, u, u_dot):
    """returns s -> (t+s, q+s*q_dot, u+s*u_dot): straight line with the right first derivative"""
    qd = body_q_dot(t, q, u)
    return lambda s: (t + s, q + s * qd, u + s * u_dot)


# ---------------------------------------------------------------------------
# systems
# ---------------------------------------------------------------------------
def no_cic_options():
    from cardillo.solver import SolverOptions
    return SolverOptions(compute_consistent_initial_conditions=False)


def random_system_state(rng, system, unit=None, perturb=1.0):
    """random (q, u, u_dot) for an assembled system, per contribution kind;
    returns also the list of quaternion classes used"""
    q = np.array(system.q0, dtype=float).copy()
    u = rng.normal(size=system.nu)
    u_dot = rng.normal(size=system.nu)
    classes = []
    for c in system.contributions:
        if not hasattr(c, "nq") or c.nq == 0:
            continue
        dof = c.my_qDOF
        if c.nq == 7 and hasattr(c, "B_Theta_C"):
            qq, uu, _, cls = rigid_body_state(rng, unit=unit)
            q[dof] = qq
            classes.append(cls)
        elif c.nq == 3 and c.__class__.__name__ == "PointMass":
            q[dof] = rng.normal(size=3) * 2
        else:  # rods and others: perturb the reference coordinates
            q[dof] = q[dof] + perturb * 0.2 * rng.normal(size=len(dof))
    return q, u, u_dot, classes


SUBSYSTEM_KINDS = ["fixed_frame", "moving_frame", "rotating_frame", "rigid_body", "point_mass"]


def make_subsystem(rng, kind, name):
    """returns (object, has_orientation, has_dofs, description)"""
    from cardillo.discrete import Frame, RigidBody, PointMass
    if kind == "fixed_frame":
        m = Motion(rng, moving=False, rotating=False)
        return m.frame(Frame, name=name), True, False, m
    if kind == "moving_frame":
        m = Motion(rng, moving=True, rotating=False)
        return m.frame(Frame, name=name), True, False, m
    if kind == "rotating_frame":
        m = Motion(rng, moving=True, rotating=True)
        return m.frame(Frame, name=name), True, False, m
    if kind == "turntable":
        # prescribed rotation about a fixed origin
        m = Motion(rng, moving=False, rotating=True)
        return m.frame(Frame, name=name), True, False, m
    if kind == "rigid_body":
        q0, u0, _, _ = rigid_body_state(rng, unit=True)
        b = RigidBody(float(loguniform(rng, 0.1, 10)), random_spd(rng), q0=q0, u0=u0, name=name)
        return b, True, True, None
    if kind == "point_mass":
        b = PointMass(float(loguniform(rng, 0.1, 10)), q0=rng.normal(size=3), u0=rng.normal(size=3), name=name)
        return b, False, True, None
    raise ValueError(kind)


JOINT_KINDS = ["Spherical", "RigidConnection", "Revolute", "Prismatic", "Cylindrical", "Planarizer", "FixedDistance"]


def make_joint(rng, kind, s1, s2, placement="given", xi1=None, xi2=None):
    """real joint object between s1 and s2. placement: 'given' (random r_OJ0/A_IJ0) or 'default' (None)."""
    import cardillo.constraints as C
    r_OJ0 = rng.normal(size=3) if placement == "given" else None
    A_IJ0 = quat_to_mat(rng.normal(size=4)) if placement == "given" else None
    axis = int(rng.integers(3))
    info = {"kind": kind, "placement": placement, "axis": axis}
    if kind == "Spherical":
        j = C.Spherical(s1, s2, r_OJ0=r_OJ0, xi1=xi1, xi2=xi2)
    elif kind == "RigidConnection":
        j = C.RigidConnection(s1, s2, r_OJ0=r_OJ0, A_IJ0=A_IJ0, xi1=xi1, xi2=xi2)
    elif kind == "Revolute":
        info["angle0"] = float(rng.uniform(-3 * np.pi, 3 * np.pi)) if rng.random() < 0.5 else 0.0
        j = C.Revolute(s1, s2, axis, angle0=info["angle0"], r_OJ0=r_OJ0, A_IJ0=A_IJ0, xi1=xi1, xi2=xi2)
    elif kind in ("Prismatic", "Cylindrical", "Planarizer"):
        j = getattr(C, kind)(s1, s2, axis, r_OJ0=r_OJ0, A_IJ0=A_IJ0, xi1=xi1, xi2=xi2)
    elif kind == "FixedDistance":
        B1 = rng.normal(size=3) if placement == "given" else np.zeros(3)
        B2 = rng.normal(size=3) if placement == "given" else np.zeros(3)
        j = C.FixedDistance(s1, s2, xi1=xi1, xi2=xi2, B1_r_P1J1=B1, B2_r_P2J2=B2)
    else:
        raise ValueError(kind)
    return j, info
