"""Seeded generators of Cosserat rods (shared by the rod properties C10, C11, ...).

A *spec* is a small JSON dict naming one rod formulation and its discretisation

    interp      "Quaternion" | "SE3" | "R12"
    p           polynomial degree (SE3: 1)
    mixed       bool (mixed formulation needs a quadratic law => Simo1986)
    constraints None or list of constrained strain indices (0..5)
    nel         number of elements 1..4
    ref         "straight" | "arc" | "helix" | "frenet"   (reference configuration,
                built with the rod classes' own helpers straight_configuration /
                pose_configuration / serret_frenet_configuration)
    reduced     reduced (True) or full (False) integration
    material    "Simo1986" | "Harsch2021"
    prefix      None | "point" | "body"   contribution added to the System *before*
                the rod, so that the rod's global DOF ranges do not start at 0
    assemble    "plain" (no consistent initial conditions) | "full" (default
                System.assemble() including consistent_initial_conditions)
    inertia     optional: "density" | "default" | "full" (random SPD inertia tensor);
                drawn at random when absent
    Qnorm       optional: "unit" (default) | "common" | "nodewise": norms of the nodal
                quaternions of the reference coordinates Q handed to the constructor

Everything numerical (stiffnesses, inertia, geometry, states) is drawn from the
``numpy.random.Generator`` handed in by the caller (ctx.rng).

The nodal layout used here is the one produced by the classes' configuration
helpers: q = [x_0..x_n, y_0..y_n, z_0..z_n, p0_0..p0_n, p1_0.., p2_0.., p3_0..],
u = [vx.., vy.., vz.., wx.., wy.., wz..] (w = body-fixed angular velocity).
``unpack``/``pack`` implement it independently of the rods' DOF tables.
"""

import io
import warnings
import contextlib

import numpy as np

from vlib import env
from vlib.oracles import quat_to_mat, loguniform, fd_jac, compare, dense

INTERPOLATIONS = (("Quaternion", 1), ("Quaternion", 2), ("Quaternion", 3), ("SE3", 1),
                  ("R12", 1), ("R12", 2), ("R12", 3))
CONSTRAINT_SETS = (None, (1, 2), (0, 1, 2), (3,), (4, 5), (0, 1, 2, 3, 4, 5))
REFERENCES = ("straight", "arc", "helix", "frenet", "graded")
MATERIALS = ("Simo1986", "Harsch2021")
PREFIXES = (None, "point", "body")


# ----------------------------------------------------------------------------
# formulation enumeration / spec sampling
# ----------------------------------------------------------------------------
def formulations():
    """all (interp, p, mixed, constraints) combinations, deterministic order"""
    out = []
    for interp, p in INTERPOLATIONS:
        for mixed in (False, True):
            for cs in CONSTRAINT_SETS:
                out.append({"interp": interp, "p": p, "mixed": mixed,
                            "constraints": None if cs is None else list(cs)})
    return out


def formulation_name(spec):
    cs = spec["constraints"]
    return "%s%d/%s/%s" % (spec["interp"], spec["p"], "mixed" if spec["mixed"] else "disp",
                           "free" if cs is None else "c" + "".join(str(i) for i in cs))


def is_fully_constrained(spec):
    return spec["constraints"] is not None and len(spec["constraints"]) == 6


def make_specs(n, seed, salt=0, full_fraction=0.25):
    """n specs; the formulations are cycled (in a seed-dependent order) so that
    every formulation is hit as soon as n >= 84; the remaining attributes are drawn
    from a local generator (no global random state)."""
    rng = np.random.default_rng([int(seed) & 0xFFFFFFFF, 0xC0D, int(salt)])
    forms = formulations()
    order = rng.permutation(len(forms))
    specs = []
    for i in range(n):
        f = dict(forms[order[i % len(forms)]])
        f["nel"] = int(rng.integers(1, 5))
        f["ref"] = REFERENCES[int(rng.integers(len(REFERENCES)))]
        f["reduced"] = bool(rng.random() < 0.5)
        if f["mixed"] and not is_fully_constrained(f):
            f["material"] = "Simo1986"   # mixed formulations need C_n_inv (quadratic law)
        else:
            f["material"] = MATERIALS[int(rng.integers(2))]
        f["prefix"] = PREFIXES[int(rng.integers(len(PREFIXES)))]
        f["assemble"] = "full" if rng.random() < full_fraction else "plain"
        specs.append(f)
    return specs


# ----------------------------------------------------------------------------
# independent small helpers (no cardillo code)
# ----------------------------------------------------------------------------
def quat_mul(P, Q):
    """Hamilton product P o Q"""
    p0, p = P[0], np.asarray(P[1:])
    q0, q = Q[0], np.asarray(Q[1:])
    return np.concatenate(([p0 * q0 - p @ q], p0 * q + q0 * p + np.cross(p, q)))


def rot_to_quat(R):
    """unit quaternion of a rotation matrix (largest-component branch)"""
    t = np.trace(R)
    c = np.array([t, R[0, 0], R[1, 1], R[2, 2]])
    i = int(np.argmax(c))
    q = np.zeros(4)
    if i == 0:
        q[0] = 0.5 * np.sqrt(1 + t)
        q[1:] = np.array([R[2, 1] - R[1, 2], R[0, 2] - R[2, 0], R[1, 0] - R[0, 1]]) / (4 * q[0])
    else:
        a = i - 1
        b, d = (a + 1) % 3, (a + 2) % 3
        q[a + 1] = 0.5 * np.sqrt(1 + R[a, a] - R[b, b] - R[d, d])
        q[0] = (R[d, b] - R[b, d]) / (4 * q[a + 1])
        q[b + 1] = (R[b, a] + R[a, b]) / (4 * q[a + 1])
        q[d + 1] = (R[d, a] + R[a, d]) / (4 * q[a + 1])
    return q


def axis_angle_quat(axis, angle):
    axis = np.asarray(axis, dtype=float)
    axis = axis / np.linalg.norm(axis)
    return np.concatenate(([np.cos(angle / 2)], np.sin(angle / 2) * axis))


def rot_axis_angle(axis, angle):
    return quat_to_mat(axis_angle_quat(axis, angle))


def random_unit_quat(rng):
    P = rng.normal(size=4)
    return P / np.linalg.norm(P)


def unpack(q, nn):
    """rod q -> (r (nn,3), P (nn,4))"""
    q = np.asarray(q)
    return q[: 3 * nn].reshape(3, nn).T.copy(), q[3 * nn: 7 * nn].reshape(4, nn).T.copy()


def pack(r, P):
    return np.concatenate((np.asarray(r).T.reshape(-1), np.asarray(P).T.reshape(-1)))


def unpack_u(u, nn):
    u = np.asarray(u)
    return u[: 3 * nn].reshape(3, nn).T.copy(), u[3 * nn: 6 * nn].reshape(3, nn).T.copy()


def pack_u(v, w):
    return np.concatenate((np.asarray(v).T.reshape(-1), np.asarray(w).T.reshape(-1)))


def rigid_motion(q, nn, R, c):
    """superpose the rigid motion x -> c + R x on all nodes: r_i -> c + R r_i,
    p_i -> quat(R) o p_i (norm of p_i is kept)."""
    r, P = unpack(q, nn)
    PR = rot_to_quat(R)
    r2 = c[None, :] + r @ R.T
    P2 = np.array([quat_mul(PR, Pi) for Pi in P])
    return pack(r2, P2)


def random_spd(rng, n, lo, hi):
    Qm, _ = np.linalg.qr(rng.normal(size=(n, n)))
    ev = loguniform(rng, lo, hi, size=n)
    A = (Qm * ev) @ Qm.T
    return 0.5 * (A + A.T)


# ----------------------------------------------------------------------------
# the generated rod
# ----------------------------------------------------------------------------
class RodCase:
    """a rod of one formulation inside an assembled cardillo.System"""

    def __init__(self):
        self.spec = None
        self.system = None
        self.rod = None
        self.Rod = None

    # ---- global vectors -------------------------------------------------
    def qsys(self, q_rod):
        """full system coordinate vector with the rod part replaced"""
        q = self.q_other.copy()
        q[self.rod.qDOF] = q_rod
        return q

    def usys(self, u_rod):
        u = self.u_other.copy()
        u[self.rod.uDOF] = u_rod
        return u

    # ---- states -----------------------------------------------------------
    def perturbed_state(self, rng, amp=0.3, qnorm="unit", tiny=None):
        """reference + random nodal perturbation.
        amp   : size of the nodal rotation perturbation [rad]; displacements
                amp * (node spacing)
        qnorm : "unit" | "moderate" (norms 0.05..20) | "extreme" (1e-3..1e3) |
                "common" (all nodes scaled by the same factor)
        tiny  : if given, the perturbation is *relative rotation of that size*
                on top of the reference (nearly undeformed element)"""
        nn = self.nn
        r, P = unpack(self.Q, nn)
        h = self.L / max(1, nn - 1)
        a = amp if tiny is None else tiny
        r = r + rng.normal(size=r.shape) * a * h * 0.5
        for i in range(nn):
            ax = rng.normal(size=3)
            ang = a * rng.uniform(0.3, 1.0)
            P[i] = quat_mul(P[i], axis_angle_quat(ax, ang))
        P = self.scale_quats(rng, P, qnorm)
        return pack(r, P)

    def scale_quats(self, rng, P, qnorm):
        P = np.array(P, dtype=float)
        P /= np.linalg.norm(P, axis=1)[:, None]
        n = len(P)
        if qnorm == "unit":
            s = np.ones(n)
        elif qnorm == "moderate":
            s = loguniform(rng, 0.05, 20.0, size=n)
        elif qnorm == "extreme":
            s = loguniform(rng, 1e-3, 1e3, size=n)
        elif qnorm == "tiny":
            # nodal quaternions many orders shorter than one (a state whose quaternions were never normalised and shrank, or were
            # given in other "units"): the rotations they stand for are the same
            s = loguniform(rng, 1e-9, 1e-5, size=n)
        elif qnorm == "common":
            s = np.full(n, float(loguniform(rng, 0.05, 20.0)))
        else:
            raise ValueError(qnorm)
        return P * s[:, None]

    def reference_state(self, rng, qnorm="unit"):
        """the reference configuration (optionally with re-scaled quaternions;
        scaling all quaternions of the rod by a COMMON factor does not change any
        interpolated rotation, node-wise different factors do for the Quaternion
        interpolation and are therefore not 'the reference configuration')."""
        r, P = unpack(self.Q, self.nn)
        if qnorm != "unit":
            P = self.scale_quats(rng, P, qnorm)
        return pack(r, P)

    def random_velocity(self, rng, scale=1.0):
        v = rng.normal(size=(self.nn, 3)) * scale * self.L
        w = rng.normal(size=(self.nn, 3)) * scale
        return pack_u(v, w)

    def node_xis(self):
        """xi of every node (element-wise uniform), computed from the element
        intervals [el/nel, (el+1)/nel]"""
        nel, p = self.spec["nel"], self.spec["p"]
        xs = []
        for el in range(nel):
            a, b = el / nel, (el + 1) / nel
            for j in range(p):
                xs.append(a + (b - a) * j / p)
        xs.append(1.0)
        return np.array(xs)


def _material(spec, rng):
    from cardillo.rods import Simo1986, Harsch2021
    k = float(loguniform(rng, 1e-2, 1e4))
    Ei = k * loguniform(rng, 0.2, 5.0, size=3)
    Fi = k * loguniform(rng, 0.02, 2.0, size=3)
    cls = {"Simo1986": Simo1986, "Harsch2021": Harsch2021}[spec["material"]]
    return cls(Ei, Fi), Ei, Fi


def _reference(spec, Rod, rng, L):
    """reference nodal coordinates built with the rod class' own helpers"""
    nel = spec["nel"]
    nn = spec["p"] * nel + 1
    r0 = rng.normal(size=3) * float(loguniform(rng, 1e-2, 1e2)) if rng.random() < 0.8 else np.zeros(3)
    u = rng.random()
    if u < 0.15:
        A0 = np.eye(3)
    elif u < 0.3:   # half turn: scalar part of the quaternion is zero
        A0 = rot_axis_angle(rng.normal(size=3), np.pi)
    else:
        A0 = quat_to_mat(rng.normal(size=4))
    ref = spec["ref"]
    info = {"ref": ref}
    if ref == "straight":
        Q = Rod.straight_configuration(nel, L, r_OP0=r0, A_IB0=A0)
        return np.asarray(Q, dtype=float), info
    if ref == "graded":
        # straight, untwisted, but NOT parametrised by arc length: the elements have different reference lengths (mesh grading)
        a = float(rng.uniform(0.5, 3.0)) * (1.0 if rng.random() < 0.5 else -0.15)     # (a > -0.5: the parametrisation stays monotone)
        info["grading"] = a
        Q = Rod.pose_configuration(nel, lambda xi: np.array([L * (xi + a * xi * xi) / (1.0 + a), 0.0, 0.0]), lambda xi: np.eye(3),
                                   xi1=1.0, r_OP0=r0, A_IB0=A0)
        return np.asarray(Q, dtype=float), info
    # total turning angle: at most ~1.2 rad between neighbouring nodes
    theta = float(rng.uniform(0.3, min(4.5, 1.2 * (nn - 1))))
    info["theta"] = theta
    if ref == "arc":
        Rr = L / theta
        tw = float(rng.uniform(-0.5, 0.5)) if rng.random() < 0.5 else 0.0   # twist about the tangent
        def r_OP(xi):
            return Rr * np.array([np.sin(theta * xi), 1 - np.cos(theta * xi), 0.0])
        def A_IB(xi):
            return rot_axis_angle([0, 0, 1.0], theta * xi) @ rot_axis_angle([1.0, 0, 0], tw * xi)
        Q = Rod.pose_configuration(nel, r_OP, A_IB, xi1=1.0, r_OP0=r0, A_IB0=A0)
    else:
        pitch = float(rng.uniform(0.2, 1.5))
        Rr = L / (theta * np.sqrt(1 + pitch**2))
        c = Rr * pitch
        def r_OP(xi):
            a = theta * xi
            return np.array([Rr * np.cos(a), Rr * np.sin(a), c * a])
        def r_OP_xi(xi):
            a = theta * xi
            return theta * np.array([-Rr * np.sin(a), Rr * np.cos(a), c])
        def r_OP_xixi(xi):
            a = theta * xi
            return theta**2 * np.array([-Rr * np.cos(a), -Rr * np.sin(a), 0.0])
        if ref == "helix":
            def A_IB(xi):
                ex = r_OP_xi(xi); ex = ex / np.linalg.norm(ex)
                ey = r_OP_xixi(xi); ey = ey - ex * (ex @ ey); ey = ey / np.linalg.norm(ey)
                return np.vstack((ex, ey, np.cross(ex, ey))).T
            Q = Rod.pose_configuration(nel, r_OP, A_IB, xi1=1.0, r_OP0=r0, A_IB0=A0)
        else:  # "frenet"
            al = float(rng.uniform(-1.0, 1.0))
            Q = Rod.serret_frenet_configuration(nel, r_OP, r_OP_xi, r_OP_xixi, 1.0,
                                                alpha=lambda xi: al * xi, r_OP0=r0, A_IB0=A0)
    return np.asarray(Q, dtype=float), info


def build(spec, rng, q0=None, u0=None):
    """build the rod of `spec` inside a real cardillo.System and assemble it.
    q0/u0: optional initial rod state (default: reference, at rest).
    Returns a RodCase. Exceptions of cardillo propagate to the caller."""
    env.import_cardillo()
    from cardillo import System
    from cardillo.solver import SolverOptions
    from cardillo.rods.cosseratRod import make_CosseratRod
    from cardillo.rods import CrossSectionInertias, CircularCrossSection, RectangularCrossSection
    from cardillo.discrete import PointMass, RigidBody

    R = RodCase()
    R.spec = spec
    cs = spec["constraints"]
    with warnings.catch_warnings():
        warnings.simplefilter("ignore")
        Rod = make_CosseratRod(interpolation=spec["interp"], mixed=bool(spec["mixed"]),
                               constraints=None if cs is None else list(cs),
                               polynomial_degree=int(spec["p"]), reduced_integration=bool(spec["reduced"]))
    R.Rod = Rod
    nel = int(spec["nel"])
    R.nn = nn = spec["p"] * nel + 1
    R.L = L = float(loguniform(rng, 0.3, 30.0))
    R.material, R.Ei, R.Fi = _material(spec, rng)
    R.kmax = float(max(R.Ei.max(), R.Fi.max()))
    R.Q, R.ref_info = _reference(spec, Rod, rng, L)
    R.Q_unit = R.Q.copy()
    qn = spec.get("Qnorm", "unit")
    if qn != "unit":
        # reference configuration given with non-unit nodal quaternions ("common": one factor for
        # all nodes, same physical configuration; "nodewise": different factors 0.3..3 per node)
        r_, P_ = unpack(R.Q, nn)
        if qn == "common":
            P_ = P_ * float(loguniform(rng, 0.05, 20.0))
        elif qn == "nodewise":
            P_ = P_ * loguniform(rng, 0.3, 3.0, size=nn)[:, None]
        else:
            raise ValueError(qn)
        R.Q = pack(r_, P_)

    # cross section (export only) and inertia
    if rng.random() < 0.5:
        cross_section = CircularCrossSection(L / 50)
    else:
        cross_section = RectangularCrossSection(L / 40, L / 60)
    u = rng.random()
    forced = spec.get("inertia")
    if forced is not None:
        u = {"density": 0.0, "default": 0.35, "full": 0.9}[forced]
    if u < 0.3:
        inertias = CrossSectionInertias(density=float(loguniform(rng, 1e-2, 1e3)), cross_section=cross_section)
        R.inertia_kind = "density"
    elif u < 0.4:
        inertias = CrossSectionInertias()
        R.inertia_kind = "default"
    else:
        inertias = CrossSectionInertias(A_rho0=float(loguniform(rng, 1e-2, 1e2)),
                                        B_I_rho0=random_spd(rng, 3, 1e-3, 1e1))
        R.inertia_kind = "full"
    R.A_rho0 = float(inertias.A_rho0)
    R.B_I_rho0 = np.array(inertias.B_I_rho0, dtype=float)

    if q0 is None and spec.get("q0") == "perturbed":
        # initial configuration different from the stress-free reference (a pre-deformed start): q0 is an argument of its own
        q0 = R.Q + 0.05 * rng.normal(size=R.Q.shape) * np.maximum(1.0, np.abs(R.Q)) * 0.3
    q0 = R.Q.copy() if q0 is None else np.asarray(q0, dtype=float)
    if spec.get("assemble", "plain") == "full" and qn == "nodewise":
        raise ValueError("assemble='full' normalises q0, which is a different configuration than a node-wise scaled Q")
    buf = io.StringIO()
    with warnings.catch_warnings(), contextlib.redirect_stdout(buf):
        warnings.simplefilter("ignore")
        rod = Rod(cross_section, R.material, nel, Q=R.Q.copy(), q0=q0.copy(),
                  u0=None if u0 is None else np.asarray(u0, dtype=float).copy(),
                  cross_section_inertias=inertias, name="rod")
        system = System()
        if spec.get("prefix") == "point":
            system.add(PointMass(float(loguniform(rng, 0.1, 10)), q0=rng.normal(size=3), u0=np.zeros(3), name="prefix"))
        elif spec.get("prefix") == "body":
            qb = np.concatenate((rng.normal(size=3), random_unit_quat(rng)))
            system.add(RigidBody(float(loguniform(rng, 0.1, 10)), random_spd(rng, 3, 0.1, 10), q0=qb, u0=np.zeros(6), name="prefix"))
        system.add(rod)
        R.assemble_error = None
        if spec.get("assemble", "plain") == "full":
            try:
                system.assemble(options=SolverOptions())
            except Exception as e:   # recorded by the caller; fall back to a plain assembly
                R.assemble_error = "%s: %s" % (type(e).__name__, str(e)[:200])
                system.assemble(options=SolverOptions(compute_consistent_initial_conditions=False))
        else:
            system.assemble(options=SolverOptions(compute_consistent_initial_conditions=False))
    R.rod, R.system = rod, system
    R.stdout = buf.getvalue()
    R.q_other = np.array(system.q0, dtype=float)
    R.u_other = np.array(system.u0, dtype=float)
    if spec.get("prefix"):
        # hostile but harmless values for the foreign coordinates
        other = np.setdiff1d(np.arange(system.nq), rod.qDOF)
        R.q_other[other] = R.q_other[other] + rng.normal(size=other.size) * 0.1
        otheru = np.setdiff1d(np.arange(system.nu), rod.uDOF)
        R.u_other[otheru] = rng.normal(size=otheru.size)
    R.nla_c = int(getattr(rod, "nla_c", 0)) if hasattr(rod, "c") else 0
    R.nla_g = int(getattr(rod, "nla_g", 0)) if hasattr(rod, "g") else 0
    return R


def classes(spec):
    """stratum labels of a spec (for ctx.cls)"""
    cs = spec["constraints"]
    return [
        "interp:%s%d" % (spec["interp"], spec["p"]),
        "form:%s" % ("mixed" if spec["mixed"] else "disp"),
        "constr:%s" % ("none" if cs is None else "".join(str(i) for i in cs)),
        "nel:%d" % spec["nel"],
        "ref:%s" % spec["ref"],
        "integration:%s" % ("reduced" if spec["reduced"] else "full"),
        "material:%s" % spec["material"],
        "prefix:%s" % spec.get("prefix"),
        "assemble:%s" % spec.get("assemble", "plain"),
    ]


# ----------------------------------------------------------------------------
# D-oracle with per-coordinate step scales and column sampling
# ----------------------------------------------------------------------------
def fd_scaled(f, x, scale, cols=None, hrel=1e-4):
    """Richardson central differences of f at x w.r.t. the coordinates `cols`,
    with steps hrel*scale[i] (a rod state mixes positions of size L, quaternions
    of norm 1e-3..1e3, ...). Returns (D, err, cols) with D = df/dx[cols] * scale[cols]."""
    x = np.asarray(x, dtype=float)
    cols = np.arange(x.size) if cols is None else np.asarray(cols, dtype=int)
    s = np.asarray(scale, dtype=float)[cols]

    def g(z):
        y = x.copy()
        y[cols] = x[cols] + s * z
        return f(y)

    D, err = fd_jac(g, np.zeros(len(cols)), hrel)
    # rounding of f itself: a difference quotient cannot resolve less than ~eps*|f|/h
    # (Richardson's h/2-h/4 comparison does not see this quantisation when the
    # differentiated part of f is below the rounding of the rest of f)
    f0 = np.asarray(f(x), dtype=float)
    fmax = float(np.max(np.abs(f0))) if f0.size else 0.0
    err = err + 2e-11 * fmax * (1e-4 / hrel)
    return D, err, cols


def compare_scaled(J, D, err, scale, cols, floor=1e-6, k=20.0):
    """claimed Jacobian J (all columns, unscaled) against (D, err) of fd_scaled;
    both sides are normalised by max|D| so that the floor is relative to the
    largest entry of the true derivative (stiffnesses span 1e-2..1e4)."""
    J = dense(J)
    Js = np.asarray(J, dtype=float)[..., cols] * np.asarray(scale, dtype=float)[cols]
    m = float(np.max(np.abs(D))) if D.size else 0.0
    if not np.isfinite(m) or m < 1e-300:
        m = 1.0
    return compare(Js / m, D / m, err / m, floor=floor, k=k), Js, m


def sample_cols(rng, n, nmax, must=()):
    """at most nmax of range(n), always containing `must`"""
    must = [int(i) for i in must if 0 <= int(i) < n]
    if n <= nmax:
        return np.arange(n)
    rest = np.setdiff1d(np.arange(n), must)
    take = rng.choice(rest, size=max(0, nmax - len(must)), replace=False)
    return np.sort(np.concatenate((np.asarray(must, dtype=int), take)).astype(int))


# ----------------------------------------------------------------------------
# exceptions raised by the code under test
# ----------------------------------------------------------------------------
def raised_in_cardillo(exc):
    """(True, 'file:line function') if the innermost frame of the traceback that is not in
    numpy/scipy/site-packages lies under the selected repository root, i.e. the rod code (not
    the harness) raised; CaseTimeout and KeyboardInterrupt are never attributed to cardillo."""
    import os
    import traceback
    if type(exc).__name__ in ("CaseTimeout", "KeyboardInterrupt", "MemoryError"):
        return False, None
    frames = traceback.extract_tb(exc.__traceback__)
    root = env.REPO + os.sep
    verif = env.VERIF + os.sep
    for fr in reversed(frames):
        fn = os.path.abspath(fr.filename)
        if fn.startswith(root):
            return True, "%s:%d %s" % (os.path.relpath(fn, env.REPO), fr.lineno, fr.name)
        if fn.startswith(verif):
            return False, None
    return False, None


def guarded(ctx, site, fn, *args, **kwargs):
    """run a group of checks; an exception raised inside cardillo on these (valid) inputs is a
    violation of the property at `site`, anything else is a harness error and propagates."""
    try:
        return fn(*args, **kwargs)
    except Exception as e:
        inside, where = raised_in_cardillo(e)
        if not inside:
            raise
        ctx.mon("no_exception:" + site)
        ctx.violation(site, "rod code raises %s on a valid rod / state" % type(e).__name__,
                      {"exception": "%s: %s" % (type(e).__name__, str(e)[:300]), "raised_at": where})
        return None
