"""Small rod factory for properties that only need 'some rod' as a subsystem
(joints on cross-sections, assembly, export). The rod-specific properties use
vlib/rodgen.py."""

import warnings
import numpy as np
from vlib.oracles import quat_to_mat, loguniform

ROD_KINDS = [("Quaternion", 1), ("Quaternion", 2), ("SE3", 1), ("R12", 1), ("R12", 2)]


def simple_rod(rng, name="rod", nel=None, kind=None, mixed=False, constraints=None, curved=False):
    from cardillo.rods.cosseratRod import make_CosseratRod
    from cardillo.rods import CrossSectionInertias, CircularCrossSection, Simo1986
    interp, p = ROD_KINDS[int(rng.integers(len(ROD_KINDS)))] if kind is None else kind
    nel = int(rng.integers(1, 4)) if nel is None else nel
    with warnings.catch_warnings():
        warnings.simplefilter("ignore")
        Rod = make_CosseratRod(interpolation=interp, mixed=mixed, constraints=constraints, polynomial_degree=p,
                               reduced_integration=bool(rng.random() < 0.5))
    L = float(rng.uniform(0.5, 3.0))
    r0 = rng.normal(size=3)
    A0 = quat_to_mat(rng.normal(size=4))
    if curved:
        # circular arc with twist about the tangent: the cross-section orientation differs from element to element
        theta = float(rng.uniform(0.4, min(3.0, 1.0 * p * nel)))
        tw = float(rng.uniform(-0.6, 0.6))
        Rr = L / theta

        def _r(xi):
            return Rr * np.array([np.sin(theta * xi), 1 - np.cos(theta * xi), 0.0])

        def _A(xi):
            c, s_ = np.cos(theta * xi), np.sin(theta * xi)
            ct, st = np.cos(tw * xi), np.sin(tw * xi)
            return np.array([[c, -s_, 0], [s_, c, 0], [0, 0, 1.0]]) @ np.array([[1.0, 0, 0], [0, ct, -st], [0, st, ct]])

        Q = np.asarray(Rod.pose_configuration(nel, _r, _A, xi1=1.0, r_OP0=r0, A_IB0=A0), dtype=float)
    else:
        Q = np.asarray(Rod.straight_configuration(nel, L, r_OP0=r0, A_IB0=A0), dtype=float)
    cs = CircularCrossSection(L / 40)
    mat = Simo1986(loguniform(rng, 1, 1e3, size=3), loguniform(rng, 0.1, 1e2, size=3))
    inert = CrossSectionInertias(A_rho0=float(loguniform(rng, 0.1, 10)), B_I_rho0=np.diag(loguniform(rng, 1e-3, 1e-1, size=3)))
    rod = Rod(cs, mat, nel, Q=Q.copy(), q0=Q.copy(), cross_section_inertias=inert, name=name)
    c = int(rng.integers(4))
    if c == 0:
        xi = 0.0
    elif c == 1:
        xi = 1.0
    elif c == 2 and nel > 1:
        xi = int(rng.integers(1, nel)) / nel  # element boundary
    else:
        xi = float(rng.uniform(0.02, 0.98))
    info = {"interp": interp, "p": p, "nel": nel, "xi": xi, "L": L, "curved": bool(curved),
            "xi_class": ["0", "1", "element_boundary" if nel > 1 else "interior", "interior"][c]}
    return rod, xi, info


def rigid_field(rod, q_rod, rng):
    """nodal velocities / accelerations of a rigid motion of the whole rod in configuration q_rod
    (for such fields the interpolated velocity IS the velocity of the interpolated position when all
    nodal orientations coincide, e.g. in a straight reference configuration)."""
    Om, Omd = rng.normal(size=3), rng.normal(size=3)
    V, Vd = rng.normal(size=3), rng.normal(size=3)
    u = np.zeros(rod.nu)
    ud = np.zeros(rod.nu)
    for n in range(rod.nnodes_r):
        r = q_rod[rod.nodalDOF_r[n]]
        u[rod.nodalDOF_r_u[n]] = V + np.cross(Om, r)
        ud[rod.nodalDOF_r_u[n]] = Vd + np.cross(Omd, r) + np.cross(Om, V + np.cross(Om, r))
    for n in range(rod.nnodes_p):
        A = quat_to_mat(q_rod[rod.nodalDOF_p[n]])
        u[rod.nodalDOF_p_u[n]] = A.T @ Om
        ud[rod.nodalDOF_p_u[n]] = A.T @ Omd
    return u, ud
