import sys
from vlib import runner

if __name__ == "__main__":
    runner.worker_main(sys.argv[1:])
