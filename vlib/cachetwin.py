"""CacheTwin: an un-memoised twin of every ``cachetools.cachedmethod`` of cardillo.

``install()`` replaces each memoised method (a cachetools descriptor stored in a class
``__dict__``) by a plain function that

1. looks up whether the call is going to be a hit, a miss or a miss with eviction
   (through the descriptor's own ``cache`` / ``cache_key``),
2. performs the *real* memoised call,
3. evaluates the undecorated function (``__wrapped__``) on the same arguments at the same
   object state,
4. compares both results value by value and logs an event.

The value returned to the caller is the memoised one, so the workload behaves exactly as
without the monitor.  Inner memoised calls made by the undecorated function go through
their own twins.  Classes that cardillo creates at run time (the rod classes produced by
``make_CosseratRod``) are instrumented by wrapping the factory; ``instrument_class`` can be
called on any class as a safety net.  Nothing in the repository is edited.
"""

import numpy as np

TOL_REL = 1e-11     # same code on the same arguments: differences can only come from the dtype path
                    # (float vs complex key hit) or from basis values recomputed with 1-ulp differences

STATE = {
    "installed": False,
    "methods": {},          # "Class.method" -> {"calls", "hits", "misses", "evictions", "mismatches"}
    "mismatch": [],         # first few mismatch records
    "sample_every": 1,
    "counter": 0,
    "oplog": None,          # optional list supplied by the workload: the twin appends nothing, only reads it for witnesses
}


def _flat(x):
    """flatten a memoised result (ndarray / tuple of ndarrays / scalars) into a list of arrays"""
    if isinstance(x, (tuple, list)):
        out = []
        for y in x:
            out.extend(_flat(y))
        return out
    return [np.asarray(x)]


def compare(res, ref):
    """returns None if equal, else a short description"""
    a, b = _flat(res), _flat(ref)
    if len(a) != len(b):
        return f"structure differs: {len(a)} vs {len(b)} arrays"
    worst = None
    for i, (x, y) in enumerate(zip(a, b)):
        if x.shape != y.shape:
            return f"item {i}: shape {x.shape} vs {y.shape}"
        if x.size == 0:
            continue
        if not (np.all(np.isfinite(x)) and np.all(np.isfinite(y))):
            if not np.array_equal(x, y, equal_nan=True):
                return f"item {i}: non-finite values differ"
            continue
        d = float(np.max(np.abs(x - y)))
        s = 1.0 + float(np.max(np.abs(y)))
        if d > TOL_REL * s:
            if worst is None or d / s > worst[1]:
                worst = (i, d / s, d)
    if worst:
        return f"item {worst[0]}: max abs difference {worst[2]:.3e} (relative {worst[1]:.3e})"
    return None


def _is_cached_descriptor(obj):
    return hasattr(obj, "Wrapper") and hasattr(obj, "__wrapped__") and hasattr(obj, "cache_key")


def _summ(a):
    try:
        a = np.asarray(a)
        if a.dtype == object:
            return str(a)[:80]
        if a.size <= 12:
            return a.tolist() if a.dtype.kind != "c" else [str(v) for v in a.ravel()]
        return {"shape": list(a.shape), "head": a.ravel()[:6].tolist() if a.dtype.kind != "c" else str(a.ravel()[:3])}
    except Exception:
        return str(a)[:80]


def _make_twin(owner_name, name, desc):
    label = f"{owner_name}.{name}"
    func = desc.__wrapped__
    st = STATE["methods"].setdefault(label, {"calls": 0, "hits": 0, "misses": 0, "evictions": 0, "mismatches": 0, "twin_evals": 0})

    def twin(self, *args, **kwargs):
        w = desc.Wrapper(self)          # memoising callable bound to this object (not stored in the instance dict)
        st["calls"] += 1
        cache = w.cache
        hit = None
        try:
            key = w.cache_key(*args, **kwargs)
            hit = key in cache
            if hit:
                st["hits"] += 1
            else:
                st["misses"] += 1
                if len(cache) >= cache.maxsize:
                    st["evictions"] += 1
        except Exception:
            pass
        res = w(*args, **kwargs)
        STATE["counter"] += 1
        if STATE["sample_every"] > 1 and STATE["counter"] % STATE["sample_every"]:
            return res
        ref = func(self, *args, **kwargs)
        st["twin_evals"] += 1
        bad = compare(res, ref)
        if bad is not None:
            st["mismatches"] += 1
            if len(STATE["mismatch"]) < 8:
                oplog = STATE.get("oplog")
                STATE["mismatch"].append({
                    "method": label, "kind": "hit" if hit else ("miss" if hit is not None else "unknown"), "difference": bad,
                    "args": [_summ(a) for a in args], "kwargs": {k: _summ(v) for k, v in kwargs.items()},
                    "memoised": [_summ(x) for x in _flat(res)][:4], "unmemoised": [_summ(x) for x in _flat(ref)][:4],
                    "last_ops": list(oplog[-12:]) if oplog else None,
                })
        return res

    twin.__name__ = name
    twin.__qualname__ = f"{owner_name}.{name}"
    twin.__wrapped__ = func
    twin._cachetwin = True
    twin._descriptor = desc
    return twin


def instrument_class(cls):
    """replace every cachedmethod descriptor found in the MRO of cls; returns the number replaced"""
    n = 0
    for K in cls.__mro__:
        if K is object:
            continue
        for name, obj in list(vars(K).items()):
            if _is_cached_descriptor(obj):
                setattr(K, name, _make_twin(K.__name__, name, obj))
                n += 1
    return n


def instrumented_methods(cls):
    out = []
    for K in cls.__mro__:
        for name, obj in vars(K).items():
            if getattr(obj, "_cachetwin", False):
                out.append(f"{K.__name__}.{name}")
    return out


def install(sample_every=1):
    """instrument the module-level classes and wrap the rod factory. Idempotent."""
    STATE["sample_every"] = int(sample_every)
    if STATE["installed"]:
        return
    from cardillo.discrete.rigid_body import RigidBody
    from cardillo.contacts.sphere2sphere import Sphere2Sphere
    from cardillo.rods.discretization.mesh1D import Mesh1D
    import cardillo.rods.cosseratRod as CR
    import cardillo.rods._base as RB
    n = 0
    for cls in (RigidBody, Sphere2Sphere, Mesh1D):
        n += instrument_class(cls)
    # abstract rod bases carry no memoised bodies, but instrument whatever is there
    for name, obj in list(vars(RB).items()):
        if isinstance(obj, type):
            n += instrument_class(obj)
    orig = CR.make_CosseratRod

    def make_CosseratRod(*a, **k):
        cls = orig(*a, **k)
        instrument_class(cls)
        return cls

    make_CosseratRod.__wrapped__ = orig
    CR.make_CosseratRod = make_CosseratRod
    import cardillo.rods as R
    if getattr(R, "make_CosseratRod", None) is orig:
        R.make_CosseratRod = make_CosseratRod
    STATE["installed"] = True
    STATE["static_methods"] = n
    return n


def reset_log():
    for st in STATE["methods"].values():
        for k in st:
            st[k] = 0
    STATE["mismatch"].clear()
    STATE["counter"] = 0


def snapshot():
    return {k: dict(v) for k, v in STATE["methods"].items()}
