"""Generators of systems with scalar force laws, external forces/moments and actuators
(shared by C07, C08, C09, C14, C16)."""

import numpy as np
from vlib import gen
from vlib.oracles import quat_to_mat, loguniform, random_unit, rodrigues


def mat_to_quat(A):
    """unit quaternion (w,x,y,z) of a rotation matrix, largest-component branch (independent of cardillo)"""
    t = np.trace(A)
    cand = [t, A[0, 0], A[1, 1], A[2, 2]]
    i = int(np.argmax(cand))
    q = np.zeros(4)
    if i == 0:
        w = 0.5 * np.sqrt(max(1 + t, 0))
        q[:] = [w, (A[2, 1] - A[1, 2]) / (4 * w), (A[0, 2] - A[2, 0]) / (4 * w), (A[1, 0] - A[0, 1]) / (4 * w)]
    else:
        i -= 1
        j, k = (i + 1) % 3, (i + 2) % 3
        qi = np.sqrt(max(A[i, i] / 2 + (1 - t) / 4, 0))
        q[i + 1] = qi
        q[0] = (A[k, j] - A[j, k]) / (4 * qi)
        q[j + 1] = (A[j, i] + A[i, j]) / (4 * qi)
        q[k + 1] = (A[k, i] + A[i, k]) / (4 * qi)
    return q / np.linalg.norm(q)


LAWS = ["Spring:force", "Spring:compliance", "KelvinVoigt:force", "KelvinVoigt:compliance", "Maxwell"]
TPI_PAIRS = [("fixed_frame", "rigid_body"), ("moving_frame", "point_mass"), ("rotating_frame", "rigid_body"),
             ("point_mass", "point_mass"), ("rigid_body", "rigid_body"), ("rigid_body", "point_mass"),
             ("point_mass", "fixed_frame"), ("rigid_body", "rotating_frame")]
REV_PAIRS = [("fixed_frame", "rigid_body"), ("rotating_frame", "rigid_body"), ("rigid_body", "rigid_body"), ("rigid_body", "moving_frame"),
             ("rigid_body", "rotating_frame")]


def make_law(rng, law, interaction, l_ref="given"):
    """real force-law object on an interaction (TwoPointInteraction or Revolute)"""
    from cardillo.force_laws import Spring, KelvinVoigtElement, MaxwellElement
    k = float(loguniform(rng, 1e-3, 1e3))
    d = float(loguniform(rng, 1e-3, 1e3))
    lr = None if l_ref is None else float(rng.uniform(0.2, 3.0))
    name, _, form = law.partition(":")
    info = {"law": law, "k": k, "d": d, "l_ref": lr}
    if name == "Spring":
        return Spring(interaction, k, l_ref=lr, compliance_form=(form == "compliance")), info
    if name == "KelvinVoigt":
        return KelvinVoigtElement(interaction, k, d, l_ref=lr, compliance_form=(form == "compliance")), info
    if name == "Maxwell":
        # (initial damper elongation: also with the default reference length - 'stress-free' then means l_ref = l0 - l_d0)
        l_d0 = float(rng.normal() * 0.3) if (l_ref is not None or rng.random() < 0.6) else 0.0
        info["l_d0"] = l_d0
        return MaxwellElement(interaction, k, d, l_ref=lr, q0=np.array([l_d0])), info
    raise ValueError(law)


def build_tpi(rng, pair, names=("a", "b")):
    from cardillo.interactions import TwoPointInteraction
    subs, mots, xis, rods = [], [], [None, None], []
    for i_, (kind, nm) in enumerate(zip(pair, names)):
        if kind == "rod":
            # attachment on a rod cross-section (xi1 / xi2 of the interaction): several elements, so that the coordinates of
            # the element that contains xi are not the leading coordinates of the rod
            from vlib import rodlite
            s, xi, rinfo = rodlite.simple_rod(rng, name=nm, nel=int(rng.integers(2, 5)), curved=bool(rng.random() < 0.5))
            m = None
            xis[i_] = xi
            rods.append(rinfo)
        else:
            s, _, _, m = gen.make_subsystem(rng, kind, nm)
        subs.append(s); mots.append(m)
    B1 = rng.normal(size=3) * float(rng.random() < 0.6)
    B2 = rng.normal(size=3) * float(rng.random() < 0.6)
    if rng.random() < 0.3:
        # attachment points on a body axis / in a coordinate plane (exact zero components)
        B1, B2 = gen.on_axis_or_plane(rng, B1), gen.on_axis_or_plane(rng, B2)
    # point masses ignore offsets in r_OP_q etc. only partly; keep offsets zero for them
    if pair[0] == "point_mass":
        B1 = np.zeros(3)
    if pair[1] == "point_mass":
        B2 = np.zeros(3)
    kw = {}
    if xis[0] is not None:
        kw["xi1"] = xis[0]
    if xis[1] is not None:
        kw["xi2"] = xis[1]
    tpi = TwoPointInteraction(subs[0], subs[1], B_r_CP1=B1, B_r_CP2=B2, **kw)
    info = {"pair": list(pair), "B_r_CP1": B1, "B_r_CP2": B2, **kw}
    if rods:
        info["rods"] = rods
    return subs, mots, tpi, info


def build_revolute(rng, pair, names=("a", "b"), placement=None):
    subs, mots = [], []
    for kind, nm in zip(pair, names):
        s, _, _, m = gen.make_subsystem(rng, kind, nm)
        subs.append(s); mots.append(m)
    placement = placement or ("given" if rng.random() < 0.6 else "default")
    joint, info = gen.make_joint(rng, "Revolute", subs[0], subs[1], placement=placement)
    info["pair"] = list(pair)
    return subs, mots, joint, info


class RevoluteModel:
    """independent model of a revolute joint defined at (t0, q0): builds on-manifold states"""

    def __init__(self, system, joint, subs, mots):
        self.system, self.joint, self.subs, self.mots = system, joint, subs, mots
        t0 = system.t0
        self.axis = joint.axis
        r_OJ0 = np.asarray(joint.r_OJ0, dtype=float)
        A_IJ0 = np.asarray(joint.A_IJ0, dtype=float)
        self.Br, self.AKJ = [], []
        for s, m in zip(subs, mots):
            r, A = self.pose(s, m, t0, getattr(s, "q0", None))
            self.Br.append(A.T @ (r_OJ0 - r))
            self.AKJ.append(A.T @ A_IJ0)

    @staticmethod
    def pose(s, m, t, q):
        if m is not None:
            return m.r(t), (m.A(t) if m.rotating else m.A0)
        return np.asarray(q[:3], dtype=float), quat_to_mat(q[3:])

    def kin(self, s, m, t, q, u):
        """r, A, v_C, Omega_I"""
        if m is not None:
            A = m.A(t) if m.rotating else m.A0
            Om = A @ m.omega_B(t) if m.rotating else np.zeros(3)
            return m.r(t), A, m.r_t(t), Om
        A = quat_to_mat(q[3:])
        return q[:3], A, u[:3], A @ u[3:]

    def manifold_state(self, rng, t, phi, phidot, qnorm=1.0, q_ind=None, u_ind=None):
        """system (q, u) with the joint closed at relative angle phi and rate phidot;
        the subsystem that has coordinates and comes last is the dependent one"""
        S = self.system
        q = np.array(S.q0, dtype=float)
        u = np.zeros(S.nu)
        s1, s2 = self.subs
        m1, m2 = self.mots
        dep = 1 if getattr(s2, "nq", 0) else 0   # dependent body index
        ind = 1 - dep
        si, mi = self.subs[ind], self.mots[ind]
        if getattr(si, "nq", 0):
            qi, ui, _, _ = gen.rigid_body_state(rng, unit=True)
            if q_ind is not None:
                qi = np.asarray(q_ind, dtype=float)
            if u_ind is not None:
                ui = np.asarray(u_ind, dtype=float)
            q[si.my_qDOF], u[si.my_uDOF] = qi, ui
        ri, Ai, vi, Omi = self.kin(si, mi, t, q[si.my_qDOF] if getattr(si, "nq", 0) else None, u[si.my_uDOF] if getattr(si, "nu", 0) else None)
        A_IJi = Ai @ self.AKJ[ind]
        r_J = ri + Ai @ self.Br[ind]
        v_J = vi + np.cross(Omi, Ai @ self.Br[ind])
        e = np.zeros(3); e[self.axis] = 1.0
        sign = 1.0 if dep == 1 else -1.0       # angle is measured from subsystem 1 to subsystem 2
        A_IJd = A_IJi @ rodrigues(sign * phi * e)
        Ad = A_IJd @ self.AKJ[dep].T
        rd = r_J - Ad @ self.Br[dep]
        Omd = Omi + sign * phidot * (A_IJi @ e)
        vd = v_J - np.cross(Omd, Ad @ self.Br[dep])
        sd = self.subs[dep]
        q[sd.my_qDOF] = np.concatenate([rd, mat_to_quat(Ad) * qnorm])
        u[sd.my_uDOF] = np.concatenate([vd, Ad.T @ Omd])
        return q, u
