"""Shared numerical oracles (see DESIGN.md section 2).

D-oracle : claimed Jacobian vs Richardson-extrapolated central differences
T-oracle : velocity-level quantity vs derivative of position-level one along
           s -> (t+s, q+s*q_dot, u+s*u_dot)
W-oracle : force direction vs transpose of d(g_dot)/du  (g_dot affine in u)

Policy: a discrepancy is a violation only if it exceeds BOTH a floor and a
multiple of the oracle's own measured uncertainty; if the oracle's uncertainty
is itself large the comparison is reported as undecided.
"""

import numpy as np


def dense(A):
    if hasattr(A, "toarray"):
        return np.asarray(A.toarray())
    return np.asarray(A)


def _cd(f, x, h):
    """central difference Jacobian, shape f.shape + x.shape"""
    x = np.asarray(x, dtype=float)
    f0 = np.asarray(f(x))
    J = np.zeros(f0.shape + x.shape)
    it = np.nditer(x, flags=["multi_index"])
    for _ in it:
        idx = it.multi_index
        xp = x.copy(); xm = x.copy()
        hi = h[idx] if isinstance(h, np.ndarray) else h
        xp[idx] += hi; xm[idx] -= hi
        J[(Ellipsis,) + idx] = (np.asarray(f(xp), dtype=float) - np.asarray(f(xm), dtype=float)) / (2 * hi)
    return J


def fd_jac(f, x, hrel=1e-4):
    """Richardson-extrapolated central difference. Returns (D, err) with err an
    entrywise estimate of D's own uncertainty."""
    x = np.asarray(x, dtype=float)
    h = hrel * np.maximum(1.0, np.abs(x))
    D1 = _cd(f, x, h)
    D2 = _cd(f, x, h / 2)
    D3 = _cd(f, x, h / 4)
    R1 = (4 * D2 - D1) / 3
    R2 = (4 * D3 - D2) / 3
    err = np.abs(R2 - R1)
    # rounding part of the oracle's uncertainty: the function values carry eps*|f|, the smallest step is h/4 and the
    # extrapolation amplifies by 5/3 (matters only for large |f| or tiny steps; found by the thorough tier of C04)
    f0 = np.abs(np.asarray(f(x), dtype=float))
    hmin = (h / 4) if isinstance(h, np.ndarray) else np.full(x.shape, h / 4)
    err = err + 8 * np.finfo(float).eps * np.multiply.outer(f0, 1.0 / hmin)
    return R2, err


def cs_jac(f, x, h=1e-30):
    """complex-step Jacobian (f must be analytic and dtype-preserving)"""
    x = np.asarray(x, dtype=float)
    f0 = np.asarray(f(x.astype(complex)))
    J = np.zeros(f0.shape + x.shape)
    it = np.nditer(x, flags=["multi_index"])
    for _ in it:
        idx = it.multi_index
        xc = x.astype(complex)
        xc[idx] += 1j * h
        J[(Ellipsis,) + idx] = np.imag(np.asarray(f(xc))) / h
    return J


class Cmp:
    """result of comparing a claimed array with an oracle"""
    __slots__ = ("ok", "undecided", "err", "tol", "where", "claimed", "oracle")

    def __init__(self, ok, undecided, err, tol, where, claimed, oracle):
        self.ok, self.undecided, self.err, self.tol = ok, undecided, err, tol
        self.where, self.claimed, self.oracle = where, claimed, oracle

    def detail(self):
        return {"max_abs_err": self.err, "tol_there": self.tol, "index": self.where,
                "claimed_there": self.claimed, "oracle_there": self.oracle}


def compare(J, D, err=None, floor=1e-6, k=20.0, undecided_ratio=1e-3):
    """J claimed, D oracle, err oracle uncertainty (array or None).
    violation iff |J-D| > floor*max(1,|D|_inf) + k*err entrywise.
    undecided iff the oracle's own uncertainty is larger than
    undecided_ratio*max(1,|D|_inf) somewhere AND no clear violation."""
    J = dense(J).astype(float) if not np.iscomplexobj(J) else dense(J)
    D = np.asarray(D)
    if J.shape != D.shape:
        try:
            J = J.reshape(D.shape)
        except Exception:
            return Cmp(False, False, float("inf"), 0.0, f"shape {J.shape} vs {D.shape}", None, None)
    if not np.all(np.isfinite(J)):
        return Cmp(False, False, float("inf"), 0.0, "non-finite claimed value", None, None)
    if not np.all(np.isfinite(D)):
        return Cmp(True, True, 0.0, 0.0, "non-finite oracle", None, None)
    scale = max(1.0, float(np.max(np.abs(D))) if D.size else 1.0)
    e = np.zeros_like(D, dtype=float) if err is None else np.asarray(err, dtype=float)
    tol = floor * scale + k * e
    diff = np.abs(J - D)
    if D.size == 0:
        return Cmp(True, False, 0.0, floor, None, None, None)
    excess = diff - tol
    i = np.unravel_index(np.argmax(excess), D.shape)
    bad = excess[i] > 0
    noisy = bool(np.max(e) > undecided_ratio * scale)
    if bad:
        # a clear violation even against a noisy oracle: error dominates the noise by k
        return Cmp(False, False, float(diff[i]), float(tol[i]), [int(a) for a in i], float(np.real(J[i])), float(D[i]))
    return Cmp(True, noisy, float(np.max(diff)), float(np.min(tol)), None, None, None)


def check_jac(ctx, site, J_claimed, f, x, floor=1e-6, hrel=1e-4, key_fn=None, mon=None, extra=None):
    """D-oracle on callable f at x against claimed J. Reports through ctx.
    Returns the Cmp."""
    D, err = fd_jac(f, x, hrel)
    c = compare(J_claimed, D, err, floor)
    ctx.mon(mon or f"D:{site}")
    if not c.ok:
        det = c.detail()
        if extra:
            det.update(extra)
        key = key_fn(dense(J_claimed), D, err) if key_fn else None
        ctx.violation(site, "claimed derivative differs from finite-difference derivative", det, key=key)
    elif c.undecided:
        ctx.undecided(f"{site}: finite-difference oracle too noisy")
    return c


def path_derivative(f, hrel=1e-4, scale=1.0):
    """d/ds f(s) at 0 by Richardson central differences; returns (D, err)."""
    h = hrel * scale
    def cd(h):
        return (np.asarray(f(h), dtype=float) - np.asarray(f(-h), dtype=float)) / (2 * h)
    D1, D2, D3 = cd(h), cd(h / 2), cd(h / 4)
    R1 = (4 * D2 - D1) / 3
    R2 = (4 * D3 - D2) / 3
    # truncation estimate + rounding of the function values (eps*|f| over the smallest step h/4, amplified by the extrapolation)
    f0 = np.abs(np.asarray(f(0.0), dtype=float))
    return R2, np.abs(R2 - R1) + 8 * np.finfo(float).eps * f0 / (h / 4)


def check_rate(ctx, site, claimed, f_of_s, floor=1e-6, hrel=1e-4, scale=1.0, key_fn=None, mon=None, extra=None):
    """T-oracle: claimed == d/ds f_of_s(s)|_0"""
    D, err = path_derivative(f_of_s, hrel, scale)
    c = compare(np.asarray(claimed), D, err, floor)
    ctx.mon(mon or f"T:{site}")
    if not c.ok:
        det = c.detail()
        if extra:
            det.update(extra)
        key = key_fn(np.asarray(claimed, dtype=float), D, err) if key_fn else None
        ctx.violation(site, "claimed rate differs from the time derivative along the kinematic path", det, key=key)
    elif c.undecided:
        ctx.undecided(f"{site}: path-derivative oracle too noisy")
    return c


def check_close(ctx, site, what, a, b, tol, key=None, mon=None, extra=None):
    """|a-b| <= tol (entrywise, tol scalar or array). Reports violation."""
    a = dense(a); b = dense(b)
    ctx.mon(mon or f"EQ:{site}")
    if a.shape != b.shape:
        ctx.violation(site, what + " (shape mismatch)", {"shape_a": list(a.shape), "shape_b": list(b.shape)}, key=key)
        return False
    if a.size == 0:
        return True
    d = np.abs(a - b)
    if not np.all(np.isfinite(d)):
        ctx.violation(site, what + " (non-finite)", {"a": a, "b": b, **(extra or {})}, key=key)
        return False
    ex = d - tol
    i = np.unravel_index(np.argmax(ex), d.shape)
    if ex[i] > 0:
        det = {"max_abs_err": float(d[i]), "tol": float(np.broadcast_to(tol, d.shape)[i]), "index": [int(k) for k in i],
               "a_there": complex(a[i]) if np.iscomplexobj(a) else float(a[i]),
               "b_there": complex(b[i]) if np.iscomplexobj(b) else float(b[i])}
        if extra:
            det.update(extra)
        ctx.violation(site, what, det, key=key)
        return False
    return True


# ---------------------------------------------------------------------
# small independent rotation helpers (float; mp versions live in mpref.py)
# ---------------------------------------------------------------------
def skew(a):
    return np.array([[0, -a[2], a[1]], [a[2], 0, -a[0]], [-a[1], a[0], 0.0]])


def rodrigues(psi):
    psi = np.asarray(psi, dtype=float)
    a = np.linalg.norm(psi)
    K = skew(psi)
    if a < 1e-4:
        s = 1 - a * a / 6 + a**4 / 120
        c = 0.5 - a * a / 24 + a**4 / 720
    else:
        s = np.sin(a) / a
        c = (1 - np.cos(a)) / (a * a)
    return np.eye(3) + s * K + c * K @ K


def quat_to_mat(P):
    """rotation of the (not necessarily unit) quaternion P, textbook formula"""
    P = np.asarray(P, dtype=float)
    w, x, y, z = P / np.linalg.norm(P)
    return np.array([
        [1 - 2 * (y * y + z * z), 2 * (x * y - w * z), 2 * (x * z + w * y)],
        [2 * (x * y + w * z), 1 - 2 * (x * x + z * z), 2 * (y * z - w * x)],
        [2 * (x * z - w * y), 2 * (y * z + w * x), 1 - 2 * (x * x + y * y)],
    ])


def random_rotation(rng):
    P = rng.normal(size=4)
    return quat_to_mat(P)


def random_unit(rng, n=3):
    v = rng.normal(size=n)
    return v / np.linalg.norm(v)


def loguniform(rng, lo, hi, size=None):
    return np.exp(rng.uniform(np.log(lo), np.log(hi), size=size))


# ---------------------------------------------------------------------
# call-history purity monitor
# ---------------------------------------------------------------------
def _scribble(y):
    """overwrite a returned value in place (the caller owns what a pure function returns)"""
    if isinstance(y, (tuple, list)):
        for v in y:
            _scribble(v)
    elif isinstance(y, np.ndarray) and y.flags.writeable and y.size:
        try:
            y[...] = 12345.678 if y.dtype.kind in "fc" else 12345
        except Exception:
            pass


def purity_check(ctx, rng, thunks, mon="purity", rounds=2, scribble=False):
    """thunks: list of (site, description, callable without arguments) of functions that are pure by their contract.
    scribble=True: every returned array is overwritten in place after it was recorded (what a caller doing
    ``A[:] = A @ Exp(dpsi)`` does): a function that hands out a reference to shared state instead of a fresh array is then
    seen at the next evaluation.
    Every thunk is evaluated once, then all of them again `rounds` times in seeded random order; a result that differs
    (bitwise, NaNs equal) from the first evaluation means the function's value depends on what was evaluated before -
    a memo keyed on too little, an array shared between calls and modified in place, a stateful fast path."""
    def norm(y):
        if isinstance(y, (tuple, list)):
            return [norm(v) for v in y]
        return np.array(y, copy=True)

    def same(a, b):
        if isinstance(a, list):
            return isinstance(b, list) and len(a) == len(b) and all(same(x, y) for x, y in zip(a, b))
        return a.shape == b.shape and np.array_equal(a, b, equal_nan=True)

    first = []
    for site, desc, f in thunks:
        y0 = f()
        first.append(norm(y0))
        if scribble:
            _scribble(y0)       # a result that aliases module state or another result is destroyed here - and must not matter
    bad = set()
    for _ in range(rounds):
        for i in rng.permutation(len(thunks)):
            site, desc, f = thunks[int(i)]
            ctx.mon(mon)
            y0 = f()
            y = norm(y0)
            if scribble:
                _scribble(y0)
            if not same(y, first[int(i)]) and int(i) not in bad:
                bad.add(int(i))
                ctx.violation(site, "repeated evaluation with identical arguments returns different values (the result depends on the call history)",
                              {"call": desc, "first": first[int(i)] if not isinstance(first[int(i)], list) else first[int(i)][0],
                               "later": y if not isinstance(y, list) else y[0]})
    return not bad


def _norm_result(y):
    if isinstance(y, (tuple, list)):
        return [_norm_result(v) for v in y]
    return np.array(y, copy=True)


def _same_result(a, b):
    if isinstance(a, list):
        return isinstance(b, list) and len(a) == len(b) and all(_same_result(x, y) for x, y in zip(a, b))
    return a.shape == b.shape and np.array_equal(a, b, equal_nan=True)


def retention_check(ctx, thunks, mon="retention"):
    """thunks as in purity_check (every call gets FRESH argument arrays that nobody touches afterwards). Every result is KEPT
    by the caller (as a list comprehension ``[f(x) for x in xs]`` does) while the other thunks are evaluated; a kept result that
    has changed at the end was handed out as (a view of) a buffer that a later call overwrote."""
    kept = []
    for site, desc, f in thunks:
        y = f()
        ctx.mon(mon)
        kept.append((site, desc, y, _norm_result(y)))
    bad = set()
    for site, desc, y, y0 in kept:
        if not _same_result(_norm_result(y), y0) and site not in bad:
            bad.add(site)
            ctx.violation(site, "a result kept by the caller changed while the routine was called again with other arguments (results share a buffer)",
                          {"call": desc, "when_returned": y0 if not isinstance(y0, list) else y0[0],
                           "after_later_calls": _norm_result(y) if not isinstance(y, (list, tuple)) else _norm_result(y)[0]})
    return not bad


def inplace_check(ctx, calls, mon="inplace_arguments", prepare=None):
    """calls: (site, f, argsets, kwargs) with argsets a list of >= 2 argument tuples of identical shapes. The caller owns ONE set
    of argument arrays and refills them in place between the calls (a sweep ``for ...: q[:] = ...; f(t, q)``, a finite-difference
    loop ``q[i] += h``); afterwards it calls again with fresh arrays holding the first values. Each value must equal (bitwise) the one
    obtained with fresh arrays: a memo that recognises its argument by identity, or that stores a reference instead of a copy as its
    key, or a result that is a view of the argument and is then cached, shows here."""
    ok = True
    for site, f, argsets, kw in calls:
        fresh = lambda s: [np.array(a, copy=True) if isinstance(a, np.ndarray) else a for a in s]
        if prepare is not None:
            prepare()
        ref = [_norm_result(f(*fresh(s), **kw)) for s in argsets]
        if prepare is not None:
            prepare()
        bufs = fresh(argsets[0])
        order = list(range(len(argsets))) + [0]
        for j, k in enumerate(order):
            if j == len(order) - 1:
                args = fresh(argsets[k])          # other arrays, old values: must not be answered from the refilled buffer
            else:
                for b, a in zip(bufs, argsets[k]):
                    if isinstance(b, np.ndarray):
                        b[...] = a
                args = [b if isinstance(b, np.ndarray) else a for b, a in zip(bufs, argsets[k])]
            y = _norm_result(f(*args, **kw))
            ctx.mon(mon)
            if not _same_result(y, ref[k]):
                ok = False
                ctx.violation(site, "value differs when the caller refills one argument array in place between calls (instead of passing fresh arrays)",
                              {"call_number": j, "arguments": [np.array(a) for a in argsets[k] if isinstance(a, np.ndarray)],
                               "with_fresh_arrays": ref[k] if not isinstance(ref[k], list) else ref[k][0],
                               "with_refilled_array": y if not isinstance(y, list) else y[0]})
                break
    return ok


# ----------------------------------------------------------------------------------------------------------------------
# representation twins: the same VALUES handed over in another legitimate numpy representation
# ----------------------------------------------------------------------------------------------------------------------
def rep_variants(a):
    """(tag, array) pairs holding the same values as the float array `a` in other memory layouts / flags"""
    a = np.asarray(a)
    out = []
    if a.ndim >= 1 and a.size:
        big = np.full(a.shape[:-1] + (2 * a.shape[-1] + 1,), np.nan)
        big[..., 1::2] = a
        out.append(("strided_view", big[..., 1::2]))
        out.append(("negative_stride", np.ascontiguousarray(a[..., ::-1])[..., ::-1]))
    ro = np.array(a, copy=True)
    ro.flags.writeable = False
    out.append(("read_only", ro))
    if a.ndim >= 2:
        out.append(("fortran_order", np.asfortranarray(a)))
    if a.size and a.dtype.kind == "f" and np.all(np.isfinite(a)) and np.all(a == np.rint(a)) and np.all(np.abs(a) < 2**31):
        out.append(("integer_dtype", a.astype(np.int64)))      # whole numbers written without a decimal point
    return out


def representation_check(ctx, calls, mon="representation", rtol=1e-12, scalars=False):
    """calls: list of (site, function, args tuple, kwargs dict). Each float-array argument is replaced in turn by a strided
    view, a negatively strided view, a read-only copy and (2-D) a Fortran-ordered copy of the same values; the result must
    be the result of the plain call (up to rtol * max|result|: BLAS may sum in another order for another stride), and the
    argument must not be modified. An exception for another representation is counted, not judged (refusing a read-only
    or strided array loudly is not a wrong value)."""
    def flat(y):
        if isinstance(y, (tuple, list)):
            return [z for v in y for z in flat(v)]
        return [np.asarray(y)]

    for site, f, args, kwargs in calls:
        base = flat(f(*[np.array(x, copy=True) if isinstance(x, np.ndarray) else x for x in args], **kwargs))
        base = [np.array(b, copy=True) for b in base]
        for i, x in enumerate(args):
            if scalars and isinstance(x, float):
                variants = [("numpy_float64", np.float64(x)), ("zero_dim_array", np.array(x))]
            elif isinstance(x, np.ndarray) and x.dtype.kind == "f":
                variants = rep_variants(x)
            else:
                continue
            for tag, v in variants:
                call = [np.array(z, copy=True) if isinstance(z, np.ndarray) else z for z in args]
                call[i] = v
                ctx.mon(mon)
                try:
                    y = flat(f(*call, **kwargs))
                except Exception as e:
                    ctx.count(f"representation_refused:{tag}:{type(e).__name__}")
                    continue
                bad = None
                if len(y) != len(base):
                    bad = "structure differs"
                else:
                    for b, z in zip(base, y):
                        if b.shape != z.shape:
                            bad = f"shape {z.shape} instead of {b.shape}"; break
                        if b.size and not np.allclose(z, b, rtol=0, atol=rtol * (1.0 + float(np.max(np.abs(b[np.isfinite(b)]))) if np.any(np.isfinite(b)) else rtol), equal_nan=True):
                            bad = f"max abs difference {float(np.nanmax(np.abs(z - b))):.3e}"; break
                if bad:
                    ctx.violation(site, "the same argument values in another array representation give another result",
                                  {"representation": tag, "argument_index": i, "argument": np.asarray(x), "difference": bad,
                                   "plain": base[0], "other": y[0] if y else None})
                if not np.array_equal(np.asarray(v), np.asarray(x), equal_nan=True):
                    ctx.violation(site, "the function modifies the array it was given", {"representation": tag, "argument_index": i, "before": np.asarray(x), "after": np.asarray(v)})
